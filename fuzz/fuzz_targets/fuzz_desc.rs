//! libFuzzer target for C37: bytes -> (flavour, domain, role, cursor selector, Lua text); same oracle as the
//! proptest check (`harness/src/oracle/desc.rs`, included by path).  A violation aborts with the signature in the
//! panic message.  Campaign: `fuzz/run.sh fuzz_desc 600`.  The build has debug assertions on: re-judge a crash on the
//! release harness (put the decoded text into a C37 replay file, `./check C37 --replay`) before reporting it.
#![no_main]
use arbitrary::Unstructured;
use emmylua_parser::{LuaAstNode, LuaDocDescription, LuaParser, ParserConfig};
use emmylua_parser_desc::{DescItemKind, DescParserType};
use libfuzzer_sys::fuzz_target;

#[path = "../../harness/src/oracle/desc.rs"]
mod desc;

const DOMAINS: &[&str] = &["lua", "py", "", "名", "lua:", "c"];
const ROLES: &[&str] = &["lua:obj", "obj", "any", "py:func", "", "math", "code", "lua:func", "literal", ":", "lua", "名", "lua:lua", "func"];

fn opt<'a>(u: &mut Unstructured, items: &[&'a str]) -> Option<String> {
    let k = u.int_in_range(0..=(items.len() * 2)).unwrap_or(0);
    items.get(k).map(|s| s.to_string())
}

fuzz_target!(|data: &[u8]| {
    let mut u = Unstructured::new(data);
    let flavour: u8 = u.int_in_range(0..=2).unwrap_or(0);
    let domain = opt(&mut u, DOMAINS);
    let role = opt(&mut u, ROLES);
    let cursor_raw: u16 = u.arbitrary().unwrap_or(0);
    let with_cursor: bool = u.arbitrary().unwrap_or(false);
    let prefix: u8 = u.int_in_range(0..=3).unwrap_or(0);
    let rest = u.take_rest();
    let body = String::from_utf8_lossy(rest);
    // the body is used verbatim (prefix 0), as one `---` comment per line (1), after a tag (2), or in a long comment (3)
    let text: String = match prefix {
        0 => body.to_string(),
        1 => body.split('\n').map(|l| format!("---{l}\n")).collect(),
        2 => format!("---@param x integer {}", body.split('\n').map(|l| format!("{l}\n---")).collect::<String>()),
        _ => format!("--[[{body}]]"),
    };
    let pt = match flavour {
        0 => DescParserType::Md,
        1 => DescParserType::MySt { primary_domain: domain },
        _ => DescParserType::Rst { primary_domain: domain, default_role: role },
    };
    let tree = LuaParser::parse(&text, ParserConfig::default());
    for d in tree.get_chunk_node().descendants::<LuaDocDescription>().take(12) {
        let region = desc::allowed_region(&d);
        let items = emmylua_parser_desc::parse(pt.clone(), &text, d.clone(), None);
        if let Err((sig, msg)) = desc::judge(&text, region, &items, "cursor=None") {
            panic!("C37 violation sig={sig}: {msg}");
        }
        if with_cursor {
            // a char boundary inside the description, or an endpoint of a reference item
            let r = d.get_range();
            let (ds, de): (usize, usize) = (r.start().into(), r.end().into());
            let mut cands: Vec<usize> = (ds..=de.min(text.len())).filter(|i| text.is_char_boundary(*i)).collect();
            for it in items.iter().filter(|i| matches!(i.kind, DescItemKind::Ref | DescItemKind::JavadocLink)) {
                cands.push(it.range.start().into());
                cands.push(it.range.end().into());
            }
            if !cands.is_empty() {
                let cur = cands[(cursor_raw as usize) % cands.len()];
                let got = emmylua_parser_desc::parse(pt.clone(), &text, d.clone(), Some(cur));
                if let Err((sig, msg)) = desc::judge(&text, region, &got, "cursor=Some") {
                    panic!("C37 violation sig={sig}: {msg}");
                }
            }
        }
    }
});
