//! libFuzzer target for C40: bytes -> JSON schema (built with `arbitrary::Unstructured`, by hand) -> converter; same
//! oracle as the proptest check (`harness/src/oracle/schema.rs`, included by path).  Signatures listed in
//! VERIF_FUZZ_TOLERATE (comma separated; the open KNOWN_FINDINGS signatures) are tolerated so that a campaign does
//! not stop on a known defect forever.
#![no_main]
use arbitrary::Unstructured;
use libfuzzer_sys::fuzz_target;
use schema_to_emmylua::SchemaConverter;
use serde_json::{Map, Value, json};

#[path = "../../harness/src/oracle/schema.rs"]
mod schema;

const NAMES: &[&str] = &[
    "name", "count", "a_b", "Config", "x", "$schema", "with space", "quo\"te", "sq'uote", "back\\slash", "dot.ted", "da-sh", "end", "nil", "名前", "", "1st", "new\nline", "cr\rmid", "]]", "--", "#", "a?", "[x]", "a|b",
    "<T>", "`t`", "x:y", "(", "a,b", "/", "root",
];
const TYPES: &[&str] = &["string", "integer", "number", "boolean", "null", "object", "array", "unknown", ""];
const KEYWORDS: &[&str] = &["default", "format", "x-custom", "$comment", "properties", "enum", "oneOf", "anyOf", "type", "title", "required", "$ref", "description", "$defs", "items", "additionalProperties", "const"];

fn pick<'a>(u: &mut Unstructured, items: &[&'a str]) -> &'a str {
    let k = u.int_in_range(0..=items.len() - 1).unwrap_or(0);
    items[k]
}

fn string(u: &mut Unstructured) -> String {
    if u.ratio(1, 2).unwrap_or(false) {
        pick(u, NAMES).to_string()
    } else {
        let n = u.int_in_range(0..=12).unwrap_or(0);
        let bytes = u.bytes(n).unwrap_or(&[]);
        String::from_utf8_lossy(bytes).to_string()
    }
}

fn any_json(u: &mut Unstructured, depth: u32) -> Value {
    match u.int_in_range(0..=(if depth == 0 { 4 } else { 6 })).unwrap_or(0) {
        0 | 1 => Value::String(string(u)),
        2 => json!(u.arbitrary::<i32>().unwrap_or(0)),
        3 => Value::Bool(u.arbitrary().unwrap_or(false)),
        4 => Value::Null,
        5 => Value::Array((0..u.int_in_range(0..=3).unwrap_or(0)).map(|_| any_json(u, depth - 1)).collect()),
        _ => {
            let mut m = Map::new();
            for _ in 0..u.int_in_range(0..=3).unwrap_or(0) {
                m.insert(string(u), any_json(u, depth - 1));
            }
            Value::Object(m)
        }
    }
}

fn node(u: &mut Unstructured, depth: u32) -> Value {
    let mut m = Map::new();
    let choice = u.int_in_range(0..=(if depth == 0 { 3 } else { 8 })).unwrap_or(0);
    match choice {
        0 => {
            m.insert("type".into(), json!(pick(u, TYPES)));
        }
        1 => {
            let n = u.int_in_range(0..=3).unwrap_or(0);
            m.insert("type".into(), Value::Array((0..n).map(|_| json!(pick(u, TYPES))).collect()));
        }
        2 => {
            let kind = u.int_in_range(0..=3).unwrap_or(0);
            let name = string(u);
            m.insert("$ref".into(), json!(match kind { 0 => format!("#/$defs/{name}"), 1 => format!("#/definitions/{name}"), 2 => "#".to_string(), _ => name }));
        }
        3 => {
            if u.ratio(1, 2).unwrap_or(false) {
                let n = u.int_in_range(0..=4).unwrap_or(0);
                m.insert("enum".into(), Value::Array((0..n).map(|_| any_json(u, 1)).collect()));
            } else {
                m.insert("const".into(), any_json(u, 1));
            }
        }
        4 => {
            m.insert("type".into(), json!("object"));
            let mut props = Map::new();
            let mut req = vec![];
            for _ in 0..u.int_in_range(0..=4).unwrap_or(0) {
                let k = string(u);
                if u.ratio(1, 2).unwrap_or(false) {
                    req.push(json!(k));
                }
                props.insert(k, node(u, depth - 1));
            }
            m.insert("properties".into(), Value::Object(props));
            m.insert("required".into(), Value::Array(req));
            if u.ratio(1, 3).unwrap_or(false) {
                m.insert("additionalProperties".into(), node(u, depth - 1));
            }
        }
        5 => {
            m.insert("type".into(), json!("array"));
            if u.ratio(3, 4).unwrap_or(false) {
                m.insert("items".into(), node(u, depth - 1));
            }
        }
        6 | 7 => {
            let k = ["oneOf", "anyOf", "allOf"][u.int_in_range(0..=2).unwrap_or(0)];
            let n = u.int_in_range(0..=3).unwrap_or(0);
            m.insert(k.into(), Value::Array((0..n).map(|_| if u.ratio(1, 5).unwrap_or(false) { json!({"type": "null"}) } else { node(u, depth - 1) }).collect()));
        }
        _ => {
            m.insert("type".into(), json!("object"));
            m.insert("additionalProperties".into(), node(u, depth - 1));
        }
    }
    if u.ratio(1, 3).unwrap_or(false) {
        m.insert("description".into(), json!(string(u)));
    }
    if u.ratio(1, 8).unwrap_or(false) {
        // unknown or wrongly typed keyword
        m.insert(pick(u, KEYWORDS).to_string(), any_json(u, 2));
    }
    Value::Object(m)
}

fn document(u: &mut Unstructured) -> Value {
    let mut root = match node(u, 4) {
        Value::Object(m) => m,
        _ => Map::new(),
    };
    match u.int_in_range(0..=3).unwrap_or(0) {
        0 => {}
        1 => {
            root.insert("title".into(), json!("Config"));
        }
        2 => {
            root.insert("title".into(), json!(string(u)));
        }
        _ => {
            root.insert("title".into(), any_json(u, 1));
        }
    }
    for key in ["$defs", "definitions"] {
        if u.ratio(2, 3).unwrap_or(false) {
            let mut defs = Map::new();
            for _ in 0..u.int_in_range(0..=4).unwrap_or(0) {
                defs.insert(string(u), node(u, 3));
            }
            root.insert(key.into(), Value::Object(defs));
        }
    }
    Value::Object(root)
}

fuzz_target!(|data: &[u8]| {
    let mut u = Unstructured::new(data);
    let is_private: bool = u.arbitrary().unwrap_or(false);
    // either a structurally decoded schema or the bytes parsed as JSON text (seed corpus: real schema files)
    let schema = if u.ratio(1, 4).unwrap_or(false) {
        match serde_json::from_slice::<Value>(u.take_rest()) {
            Ok(v) => v,
            Err(_) => return,
        }
    } else {
        document(&mut u)
    };
    let res = SchemaConverter::new(is_private).convert(&schema);
    if let Err((sig, msg)) = schema::judge_result(&schema, &res.annotation_text, &res.root_type_name) {
        let tolerate = std::env::var("VERIF_FUZZ_TOLERATE").unwrap_or_default();
        if tolerate.split(',').any(|s| s == sig) {
            return;
        }
        panic!("C40 violation sig={sig}: {msg}\nschema={}", serde_json::to_string(&schema).unwrap_or_default());
    }
});
