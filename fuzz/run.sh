#!/bin/bash
# fuzz/run.sh <fuzz_desc|fuzz_schema> [seconds]   coverage-guided campaign (libFuzzer, nightly toolchain, offline)
# Pinned as far as libFuzzer allows: -seed=$VERIF_SEED -len_control=0; fresh work corpus seeded from corpus/.
set -u
T="${1:?target}"; SECS="${2:-300}"
D="$(cd "$(dirname "${BASH_SOURCE[0]}")" && pwd)"; ROOT="$(dirname "$D")"
W="$D/corpus-work/$T"; rm -rf "$W"; mkdir -p "$W"
case "$T" in
  fuzz_schema)
    (printf '\x00\xff'; cat "$ROOT/corpus/schemas/emmyrc.schema.json") > "$W/emmyrc"
    python3 - "$ROOT/corpus/schemas/regressions.json" "$W" <<'PY'
import json,sys
for i,s in enumerate(json.load(open(sys.argv[1]))):
    open(f"{sys.argv[2]}/reg{i}","wb").write(b"\x00\xff"+json.dumps(s).encode())
PY
    MAXLEN=4096
    # open known-finding signatures are tolerated in-target
    export VERIF_FUZZ_TOLERATE="$(python3 -c "import json;print(','.join(f['signature'] for f in json.load(open('$ROOT/KNOWN_FINDINGS.json'))['findings'] if f['property']=='C40' and f['status']=='open'))")"
    ;;
  fuzz_desc)
    printf '\x00\x00\x00\x00\x00\x00\x01 Desc *em* `code` {@link a.b}\n ```lua\n local x = 1\n ```\n' > "$W/s1"
    printf '\x02\x00\x00\x00\x00\x01\x01 :lua:obj:`a.b` text\n .. code-block:: sql\n\n    SELECT /* x\n    y */\n' > "$W/s2"
    printf '\x01\x00\x00\x00\x00\x01\x01 {lua:obj}`a.b` $x$\n :::{note}\n :class: x\n body\n :::\n' > "$W/s3"
    MAXLEN=1024
    ;;
  *) echo "unknown target $T"; exit 2;;
esac
exec cargo +nightly fuzz run --fuzz-dir "$D" "$T" "$W" -- -max_total_time="$SECS" -seed="${VERIF_SEED:-1}" -len_control=0 -max_len=$MAXLEN
