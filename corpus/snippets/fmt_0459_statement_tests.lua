if stop then break end
