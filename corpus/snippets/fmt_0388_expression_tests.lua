local x = condition_one and value_one or condition_two and value_two or default_value
