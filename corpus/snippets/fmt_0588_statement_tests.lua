function module.subsystem:build
-- separator
(first, second)
    return first + second
end
