local a=1
-- fmt: off
local   ugly   =    { 1,2,3 }
print(  ugly [ 1 ] )
-- fmt: on
local b=2
