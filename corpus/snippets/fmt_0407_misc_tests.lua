function xxxxxxxxxx:yyyyyyyyyyy()
    iiiiiiiiii:OOOOOO("UIWardrobeUpStar", LM.UUUUUUUUU({ NUWIXK = NUWIXK, JFCWXU = JFCWXU, JIWOFIWJOIFJW = JIWOFIWJOIFJW }))
end
