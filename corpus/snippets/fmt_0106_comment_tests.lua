---@version >5.3
local value = nil
