while x > 0 do -- loop note
    x = x - 1
end
