=== Formatting mismatch ===
