while x > 0 do
x = x - 1
end
