local function bar(
    x, -- coord x
    y  -- coord y
)
    return x + y
end
