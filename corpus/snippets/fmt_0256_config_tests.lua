local t = { a = 1 }
