foo(
    a,
    b
)
