local fn = function(
    -- first
    a, -- trailing a
    b,
    -- tail
)
return a
end
