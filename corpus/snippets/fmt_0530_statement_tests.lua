local f = function(
    first,
    second
)
    return first + second
end
