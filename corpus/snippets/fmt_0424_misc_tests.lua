repeat
    local x = foo()
until bar(x)
