local a = 1 -- x
local bbb = 2 -- y
