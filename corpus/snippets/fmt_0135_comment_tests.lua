---@enum MyEnum
local cc = {
    xxx = 123
}
