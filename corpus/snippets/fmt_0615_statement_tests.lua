f(|a, b, c| -> do
    return a + b + c
end, 1, 2, 3)
