local f = function(x)
    return x + 1
end
