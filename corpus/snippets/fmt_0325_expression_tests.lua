local self = setmetatable({
    _obj = obj,
    __flags = {
        message = msg
    }
}, Assertion)
