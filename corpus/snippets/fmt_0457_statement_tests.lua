if ok then return value else return fallback end
