    got:      {:?}
