f(|| -> do
    local x = 1
    -- comment
    return x
end)
