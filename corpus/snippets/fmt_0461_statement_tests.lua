if ready then result = value end
