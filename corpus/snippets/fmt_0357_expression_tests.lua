local spec = {
    callback = function()
        return true
    end,
    fallback = another_value,
}
