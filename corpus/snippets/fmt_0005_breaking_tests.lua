local t = {
    first_key = 1,
    second_key = 2,
    third_key = 3,
    fourth_key = 4,
    fifth_key = 5
}
