configure({
    key = value,
    another = other,
}, option_one, option_two)
