local a, b = foo, bar
x, y = 1, 2
return a, y
