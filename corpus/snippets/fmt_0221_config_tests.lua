local s = "it's \"ok\""
