Formatter is not idempotent for complex code!
First pass:
{first}
Second pass:
{second}