local a = 1 -- x
local b = 2 -- y

local cc = 3 -- z
local d  = 4 -- w
