goto done
::done::
print(1)
