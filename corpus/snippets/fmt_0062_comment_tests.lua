local t = { x = 1, long_name  = 2, yy = 3 }
