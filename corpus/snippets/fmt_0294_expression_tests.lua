local t = {
    1,
    name = 2,
    3
}
