#!/usr/bin/lua
local x = 1
local y = 2
