function module_name.deep_property.compute(first_argument, second_argument, third_argument)
    return first_argument
end
