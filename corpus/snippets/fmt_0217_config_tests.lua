local s = 'hello'
