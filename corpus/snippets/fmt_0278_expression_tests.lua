local a = t.x
local b = t[1]
