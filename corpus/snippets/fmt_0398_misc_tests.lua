Formatter is not idempotent!
First pass:
{first}
Second pass:
{second}