while alpha_beta_gamma + delta_theta + epsilon + zeta do
    consume()
end
