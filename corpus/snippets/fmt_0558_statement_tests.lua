while true do
end
