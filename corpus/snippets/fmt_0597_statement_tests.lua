local a
-- separator
= 123
