local spec = {
    nested = {
        foo = 1,
        bar = 2
    },
    fallback = another_value
}
