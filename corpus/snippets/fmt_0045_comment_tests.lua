-- a
-- 	b
--     c

-- function test()
--     print("Hello world")
-- end
