builder:with_config(function (a, b)
    return  val(a) ==       val(b)
end, {
    foo=1,
    bar =    2,
}):set_name(name):build()
