while x > 0
-- separator
do
    x = x - 1
end
