target, fallback = {
    key = value,
    another = other,
},
    alpha_result,
    beta_result
