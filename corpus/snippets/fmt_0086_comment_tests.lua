---@param a number
---@param b string
---@return boolean
local function f(a, b) end
