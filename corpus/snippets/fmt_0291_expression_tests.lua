local python_candidates = {
  'python3',
  'python3.14',
  'python3.13',
  'python3.12',
  'python3.11',
  'python3.10',
  'python3.9',
  'python',
}
