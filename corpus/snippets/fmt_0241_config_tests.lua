local d = {
    aa = 1,
    bb = 2,

    --wjgfiwjgw
    gwgwgw = 13
}
