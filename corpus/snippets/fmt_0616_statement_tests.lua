do
    f(|a, b, c| -> do
        local d = 123
        return a + b + c
    end, 1, 2, 3)
end
