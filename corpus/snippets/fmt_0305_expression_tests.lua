foo(
a,
-- tail
)
