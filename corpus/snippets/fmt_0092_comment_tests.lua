---@param short fun(x: string, y: number): table<string, number> desc
---@version >5.3
---@param much_longer integer longer desc
local function f(short, much_longer) end
