local t = {
a=1,
-- tail
}
