local result=foo(1,2,3)
local tbl={1,2,3}
