local x = e -> 42
