local value = foo -- note
(a, b)
