local t = {
    --- @param ev {data: vim.event.progress.data}
    callback = function (ev) end,
}
