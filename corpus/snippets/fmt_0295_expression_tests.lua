local x = call(
  foo,
  bar,
  baz
)
