---@param short       string  desc
---@param much_longer integer longer desc
local function f(short, much_longer) end
