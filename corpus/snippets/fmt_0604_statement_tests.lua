const a, b = 1, 2
