if player:getStorageValue(Storage.ExplorerSociety.TheIceMusic) >= 62
    and player:getStorageValue(Storage.ExplorerSociety.QuestLine) >= 62
    and player:removeItem(5022, 1) then
    player:getPosition():sendMagicEffect(CONST_ME_TELEPORT)
    player:teleportTo(carvingTP.position)
end
