if alpha + beta + gamma
-- separator
then
print(1)
end
