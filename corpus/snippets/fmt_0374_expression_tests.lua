local console_format_list = {
    DEFAULT = ConsoleFormattingBuilder():setColor(Color(1, 1, 1)):addSeq(EscapeSequences.FOREGROUND_DEFAULT):build()
}
