---@class ExtremelyLongSimpleName short desc
---@class H<T, Result: fun(x: string, y: number): table<string, number>> handler desc
local value = {}
