a.b:c():d()
