local result = very_long_variable_name_aaa + another_long_variable_name_bbb + yet_another_variable_name_ccc + final_variable_name_ddd
