function JiuJieXunZong:LoadMissionTimeAward()
    -- 策划填的是分钟
    for i = 3, #tbSettings do
        tbSet[nPoolTime] = true
        table.insert(self.tbMissionTimeReward[nChapterId][nPoolTime], {
            tbRewardItem = tbRewardItem,
            nWeight = nWeight
        })
    end
end
