if a then
    print(1)
else -- keep else note
    print(2)
end
