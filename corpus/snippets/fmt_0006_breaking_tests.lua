local t = {
    a = 1,
    b = 2,
}
