builder.new()
    -- nofowo
    .setName("test", function ()
        return "1.0.0" + 1
    end).setVersion("1.0.0", function ()
        return "1.0.0" + 1
    end) -- 333
