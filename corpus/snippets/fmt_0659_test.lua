f(
    very_long_arg1,
    very_long_arg2
)