local f = function(x) return x * 2 end
