local x = || -> 42
