Formatter is not idempotent for aligned code!
First pass:
{first}
Second pass:
{second}