table.sort({ 3, 1, 2 }, function(a, b)
        return a < b
    end)
