do -- block note
    local x = 1
end
