local t = {
    alpha, beta, gamma,
    delta
}
