do
    -- scoped comment
end
