assert(
        T.checkpanic(
            [[
            pushstring "return {__close = function () Y = 'ho'; end}"
      newtable
      loadstring -2
      call 0 1
      setmetatable -2
      toclose -1
            pushstring "hi"
      error
    ]], [[
      getglobal Y
      concat 2         # concat original error with global Y
    ]]
        )
                        == "hiho"
    )
