-- some text
--[[ long comment ]]
local a = 1
