local spec = {
    outer = {
        callback = wrap(function (a, b)
            return  val(a) ==       val(b)
        end, {
            foo=1,
            bar =    2,
        }),
        fallback = another_value,
    },
}
