while alpha_beta_gamma
-- separator
do
    work()
end
