function foo()
    -- stub
end
