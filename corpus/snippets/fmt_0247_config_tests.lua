local s = a..b..c
