---@param f sync fun(...: T...): R... # async and sync should stay near the fun type body
local function apply(f) end
