#!/usr/bin/env lua
print(1)
