local a=1
-- fmt: off
local   ugly   =    { 1,2,3 }
-- fmt: on
local c=3
