function foo(a, b, ...)
print(a, b, ...)
end
