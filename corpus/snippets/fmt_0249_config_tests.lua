local s = a .. b
