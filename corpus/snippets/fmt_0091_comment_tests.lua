---@param short       fun(x: string, y: number): table<string, number> desc
---@param much_longer integer                                          longer desc
local function f(short, much_longer) end
