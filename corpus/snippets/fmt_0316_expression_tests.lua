local f = function() return  true end
