    local value = {
