local a = 1
