local a = not b
local c = -d
local e = #t
