local fn = function () end
