--hello
local value=1
