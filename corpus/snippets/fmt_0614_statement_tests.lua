local x = MyClass.myField?.:byte(1)
