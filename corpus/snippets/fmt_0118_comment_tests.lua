--- first return docs
---@return number ok           success
--- second return docs
---@return string, integer err failure
function f() end
