--[[@as string
second line
]]
local value = nil
