function foo(a, b)
end
