function foo (a, b)
    return a
end
