function f(i)
    while 1 do
        if i > 0 then
            i = i - 1
        else
            return
        end;
    ; end
end;
