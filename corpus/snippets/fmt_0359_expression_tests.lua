local mt = {
    __eq = function (a, b)
        coroutine.yield(nil, "eq")
        return  val(a) ==       val(b)
    end
}
