if ok then -- keep header note
    print(1)
end
