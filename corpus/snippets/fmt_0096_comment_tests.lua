    --- @param a     any
    --- @param bbbbb string
    --- @param c     any
function f(a, bbbbb, c)
end
