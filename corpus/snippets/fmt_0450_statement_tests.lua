if a then -- hello
    local x = 123
else -- ii
end
