local x = x--[[]] * 60
