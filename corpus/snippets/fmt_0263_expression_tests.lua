local fn = function()
end
