--- @param chunk      (fun(...: any): string)|Language<"Lua">
local function f(chunk) end
