---@type table<number, Person>
local d = {}
