local s = 'hello \"lua\"'
