local a = 1




local b = 2
