  line {}: DIFFER
