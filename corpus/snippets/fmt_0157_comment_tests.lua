--- first line
---   second   line
local value = nil
