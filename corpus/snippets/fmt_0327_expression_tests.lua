some_function(
    first_arg, second_arg, third_arg,
    fourth_arg
)
