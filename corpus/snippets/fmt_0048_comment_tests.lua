function foo(
    a,
    -- separator
    b
)
    return a + b
end
