for i = foo(), bar, baz do
    local x = i
end
for k, v in pairs(tbl), next(tbl) do
    return v
end
