f(|| -> do return 1 end)
