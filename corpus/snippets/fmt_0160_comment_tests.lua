---@class Test first line
---   second   line
local value = {}
