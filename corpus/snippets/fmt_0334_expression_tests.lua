check(function ()
    return not not k3
end,
    'LOADTRUE', 'RETURN1',
    'EXTRA')
