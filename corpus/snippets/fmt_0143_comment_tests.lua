---@alias Id integer         identifier
---@alias DisplayName string user facing name
local value = nil
