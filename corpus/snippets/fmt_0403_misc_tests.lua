local a = 1 -- comment a
local bbb = 2 -- comment b
local cc = 3 -- comment c
