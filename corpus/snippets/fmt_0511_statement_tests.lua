repeat
    x = x + 1
    -- guard
until ready(a, b)
