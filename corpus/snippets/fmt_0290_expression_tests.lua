local t = {}
