foo(
    a, -- first
    b
)
