local x = obj?.field
