local t = {
    a = 1, -- comment
    b = 2
}
