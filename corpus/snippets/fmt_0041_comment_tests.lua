if ok then
    -- hihihi
    --     hello
    --yyyy
end
