local fn = function() end
