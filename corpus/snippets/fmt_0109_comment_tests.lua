---@field x string desc
---@field longer_name integer another desc
local t = {}
