---@return number ok           success
---@return string, integer err failure
function f() end
