a.a = function ()
    return function (l)
        a.Add(
            aaaa,
            bbbb,
            cccc,
            dddd,
            eeee,
            nil,
            nil,
            nil,
            aafafa -- comment
        )()
    end
end
