--- @param value table<K, V>  |V[]|{[K]: V }
local function f(value) end
