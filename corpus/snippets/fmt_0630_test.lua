local x=1
