f(|| -> do end)
