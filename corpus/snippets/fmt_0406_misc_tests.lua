Formatter is not idempotent for method chains!
First pass:
{first}
Second pass:
{second}