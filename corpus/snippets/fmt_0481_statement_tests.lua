for i = 1, 10
-- separator
do
    print(i + 1)
end
