---@alias Complex
---|+ string
---|> integer
local value = nil
