local value = call(
    a,
    b,
    c
)
