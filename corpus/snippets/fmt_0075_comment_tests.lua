local a = 1     -- x
local bb = 2    -- y
