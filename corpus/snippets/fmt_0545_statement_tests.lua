function f()
    return {
        key = value,
        another = other,
    }, first_result, second_result
end
