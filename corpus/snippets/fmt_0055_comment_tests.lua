function foo(
    a, -- first
    long_name -- second
)
    return a
end
