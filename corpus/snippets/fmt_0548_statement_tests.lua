local first, second, third = function()
    return true
end,
    alpha_result,
    beta_result
