if get_value(namespace_alpha_beta) >= threshold_value and get_value(namespace_gamma_delta)
        >= threshold_value and remove_item(item_id_number, item_count) then
    do_something()
end
