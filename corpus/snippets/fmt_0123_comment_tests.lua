---@return ffi.cdata* ptr # an uint8_t * FFI cdata pointer that points to the buffer data.
---@return integer len # length of the buffer data in bytes
local function f()
end
