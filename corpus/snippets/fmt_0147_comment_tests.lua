--- keep tight
local value = nil
