if ready then local x = value end
