repeat
x = x + 1
until x > 10
