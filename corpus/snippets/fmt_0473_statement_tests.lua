while check(function()
    return true
end, 'LOADTRUE', 'RETURN1') and another_predicate do
    print('ok')
end
