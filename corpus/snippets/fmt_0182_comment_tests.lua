----    keep odd prefix
local value = nil
