function foo(
    a, -- first
    b
)
    return a + b
end
