Formatter is not idempotent with shebang!
First pass:
{first}
Second pass:
{second}