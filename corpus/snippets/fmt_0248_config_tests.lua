local s = a..b
