foo(a)
