function f()
return 1, 2, 3
end
