-- first line
--[[ second line ]]
local a = 1
