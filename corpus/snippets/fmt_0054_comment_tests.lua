local f = function (
    a, -- first
    b  -- second
)
    return a + b
end
