local fn = function(a,b,c)
return a
end
