local f = function(
a,
-- tail
)
    return a
end
