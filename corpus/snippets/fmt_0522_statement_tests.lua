function foo(
    first,
    second,
    third
)
    return first
end
