if a and b and c then
	work()
end
