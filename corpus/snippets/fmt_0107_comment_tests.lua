---@meta
-- Copyright (c) 2018. tangzx(love.tangzx@qq.com)
--
-- Licensed under the Apache License, Version 2.0 (the "License"); you may not
-- use this file except in compliance with the License. You may obtain a copy of
-- the License at
--
-- http://www.apache.org/licenses/LICENSE-2.0
--
-- Unless required by applicable law or agreed to in writing, software
-- distributed under the License is distributed on an "AS IS" BASIS, WITHOUT
-- WARRANTIES OR CONDITIONS OF ANY KIND, either express or implied. See the
-- License for the specific language governing permissions and limitations under
-- the License.

local value = nil
