print (1)
