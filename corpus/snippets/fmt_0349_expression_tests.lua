Preview.TaskItem:SetHeadTask(
    LM.UIXKM.UI.RoleId, LM.UIXKM.UI:GetFactionId(), LM.UIXKM.UI:GetSex(), 0
)
