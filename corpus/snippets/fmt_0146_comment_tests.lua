---@alias Id   integer|nil identifier
---@alias DisplayName    string user facing name
local value = nil
