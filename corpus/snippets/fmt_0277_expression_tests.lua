local value = aaaa + bbbb
    + cccc + dddd
    + eeee + ffff
