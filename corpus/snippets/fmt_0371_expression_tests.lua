builder
    :set_name(name)
    :set_age(age)
    :build()
