    local a = 1
    local b =  2
    local c =   a+b
    print  (c     )
