function foo(a, b)
return a + b
end
