local spec = {
    DEFAULT = vim.api.nvim_get_runtime_file("lua", true):filter(match.lua):head()
}
