builder.new()
    .setName("test") -- 222
    .setVersion("1.0.0") -- 333
