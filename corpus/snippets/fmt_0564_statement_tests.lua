local x <const> = 42
