Input:
{:?}

