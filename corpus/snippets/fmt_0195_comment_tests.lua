-- some text
--[[ long comment ]]
-- more text
local a = 1
