local function foo(a, b)
end
