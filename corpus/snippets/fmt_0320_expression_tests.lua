some_function(
    first,
    second,
    third
)
