for i = 1, 10 do -- loop note
    print(i)
end
