local fn = function ()
end
