local x = cond ? (obj:method()) : default
