function f()
    return alpha_beta_gamma + delta_theta
        + epsilon + zeta
end
