local function foo(a, b, c)
    local x = a + b * c
    if x > 10 then
        return {
            result = x,
            name = "test",
            flag = true,
        }
    end

    for i = 1, 10 do
        print(i)
    end

    local t = { 1, 2, 3 }
    return t
end
