local f = function(a -- first
, b)
    return a + b
end
