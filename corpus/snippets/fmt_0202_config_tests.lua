print(1)
