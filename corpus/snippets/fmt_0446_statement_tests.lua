for i = 1, 3 do
end
