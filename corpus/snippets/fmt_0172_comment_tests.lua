---@type (string | number)[]
local c
