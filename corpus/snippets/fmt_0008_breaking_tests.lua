local t = { user = { name = "a", age = 1 }, enabled = true }
