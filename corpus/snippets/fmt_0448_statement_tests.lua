if a then
    print(1)
elseif b then -- keep elseif note
    print(2)
end
