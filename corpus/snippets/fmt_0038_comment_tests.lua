while true do
    -- todo
end
