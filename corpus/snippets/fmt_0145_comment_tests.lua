---@alias ExtremelyLongAliasName string                      description
---@alias H fun(x: string, y: number): table<string, number> handler desc
local value = nil
