global <const> a, b <const>
