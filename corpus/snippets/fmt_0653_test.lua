local after = 1
