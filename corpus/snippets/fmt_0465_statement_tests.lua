if alpha_beta_gamma + delta_theta + epsilon + zeta then
    print(result)
end
