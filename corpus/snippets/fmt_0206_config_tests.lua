local t = {1, 2, 3}
