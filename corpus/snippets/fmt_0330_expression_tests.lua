debug.sethook(function (e)
    assert(e == \"call\")
    dostring(\"XX = 12\") -- test dostring inside hooks
    -- testing errors inside hooks
    assert(not pcall(load(\"a='joao'+1\")))
    debug.sethook(function (e, l)
        assert(debug.getinfo(2, \"l\").currentline == l)
        local f, m, c = debug.gethook()
        assert(e == \"line\")
        assert(m == 'l' and c == 0)
        debug.sethook(nil) -- hook is called only once
        assert(not X) -- check that
        X = collectlocals(2)
    end, \"l\")
end, \"c\")
