local a = ( 1 + 2 )
