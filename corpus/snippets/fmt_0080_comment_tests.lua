local a = 1 -- x
bbbb = 2 -- y
