builder:with_config({
    key = value,
    another = other
}):set_name(name):build()
