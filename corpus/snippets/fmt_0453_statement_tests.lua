if a then
    print(1)
elseif b
-- separator
then
    print(2)
end
