if ready then
    notify_with_long_name(
        first_argument, second_argument,
        third_argument
    )
end
