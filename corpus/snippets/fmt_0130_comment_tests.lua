---@class Short short desc
---@class LongerName<T> longer desc
local value = {}
