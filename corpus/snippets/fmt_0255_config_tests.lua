local a=1
