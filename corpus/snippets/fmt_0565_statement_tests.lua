local f <close> = io.open("test.txt")
