local t = {
    a = "very very long",  -- first
    b  = 2, -- second
    c = 3,
    d = 4,  -- third
    e = 5 -- fourth
}
