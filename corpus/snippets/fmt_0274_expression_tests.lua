local total = alpha + beta + gamma + delta
