local spec = {
    outer = {
        callback = function (a, b)
            return  val(a) ==       val(b)
        end,
        nested = {
            foo=1,
            bar =    2,
        },
    },
}
