const x = 1
