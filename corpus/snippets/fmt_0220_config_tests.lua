local s = "hello \"lua\""
