local t = {
    --123
}
