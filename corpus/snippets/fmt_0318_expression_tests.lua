map(items, function(x) return  x + 1 end)
