--[[]]
local a = 1
