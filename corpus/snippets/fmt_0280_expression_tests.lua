local value = t
-- separator
[key]
