local s = "hello"
