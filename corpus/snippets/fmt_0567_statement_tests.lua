global <const> *
