-- this is a comment
local a = 1
