---@enum MyEnum
--- keep tight
local value = nil
