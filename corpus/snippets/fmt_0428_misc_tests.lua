repeat
    return foo
until -- cond
    bar(baz)
