-- alpha
--   beta gamma
-- delta
local value = 1
