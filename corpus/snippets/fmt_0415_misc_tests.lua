local value = 1
