require "module"
