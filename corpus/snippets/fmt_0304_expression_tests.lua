foo(
a,
-- separator
b
)
