---@type   string|integer value
---@overload   fun(x: string): integer callable
local fn = nil
