local x = |a, b| -> a + b
