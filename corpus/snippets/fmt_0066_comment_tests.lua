local a = 1 -- x
local long_name = 2 -- y
