---@param filetype string Filetype
---@param option   string Option name
---@return string | boolean | integer
function f(filetype, option) end
