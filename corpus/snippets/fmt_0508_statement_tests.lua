repeat
    work()
until alpha_beta_gamma + delta_theta + epsilon + zeta
