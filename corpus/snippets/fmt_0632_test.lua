local x = (a)
