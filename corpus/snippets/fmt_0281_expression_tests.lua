local value = (
-- separator
a
)
