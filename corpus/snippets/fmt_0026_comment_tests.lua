-- comment 1
-- comment 2
local x = 1
