  local value = {
