self.call?.()
