return
-- separator
value
