[syntax]
level = "Lua54"

[indent]
kind = "Space"
width = 2

[layout]
max_line_width = 88
table_expand = "Always"
prefer_call_args_layout_from_source = true

[output]
quote_style = "Single"
trailing_table_separator = "Multiline"
single_arg_call_parens = "Always"
simple_lambda_single_line = "Always"

[spacing]
space_before_call_paren = true

[comments]
align_line_comments = false
space_after_comment_dash = false

[emmy_doc]
align_multiline_alias_descriptions = false
space_between_tag_columns = false
space_after_description_dash = false
compact_type_or = true

[align]
table_field = false
