test(
    1,
    "hello",
    function ()
        return 1, 2, 34
    end,
    4,
    5,
    6,
    7,
    8,
    9,
    10
)
