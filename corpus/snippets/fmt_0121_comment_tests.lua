--- @param co thread
--- @return
--- | "running" # Is running.
--- | "suspended" # Is suspended or not started.
local function status(co) end
