--[[ some content ]]
local a = 1
