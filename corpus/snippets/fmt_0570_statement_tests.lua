function t:a() -- this comment will stay the same
end
