for i = 1, 10 do
print(i)
end
