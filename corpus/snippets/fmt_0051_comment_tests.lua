foo(
    a,  -- first
    long_name -- second
)
