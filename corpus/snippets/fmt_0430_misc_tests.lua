local result = foo(a, {1,2}, bar(b, c))
