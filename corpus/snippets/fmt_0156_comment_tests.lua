---   spaced    words
local value = nil
