local result = foo(
    -- first
    a, -- trailing a
    b,
    -- last
)
