--- first parameter docs
---@param short string desc
--- second parameter docs
---@param much_longer integer longer desc
local function f(short, much_longer) end
