local a = t.x.y.z
