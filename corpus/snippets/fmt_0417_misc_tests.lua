local a,b=foo,bar
a,b=foo(),bar()
return foo, bar, baz
