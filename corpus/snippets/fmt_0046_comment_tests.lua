function foo(
    a, -- first
    b, -- second
    c
)
    return a + b + c
end
