local t = {
    x = 100, -- first
    long_name  = 2, -- second
}
