foo(
    a,
    -- separator
    b
)
