-- comment
local a = 1
