local result = vim.deprecate(
    'vim.lsp.codelens.refresh({ bufnr = bufnr})',
    'vim.lsp.codelens.enable(true, { bufnr = bufnr })',
    '0.13.0'
)
