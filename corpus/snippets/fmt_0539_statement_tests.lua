very_long_result_name = first_long_expr, second_long_expr, third_long_expr, fourth_long_expr, fifth_long_expr
