local s = 1. .. "str"
