local a = 1 + 2 * 3
