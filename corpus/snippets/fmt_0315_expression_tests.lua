Execute(function (data)
    -- comment

end)
