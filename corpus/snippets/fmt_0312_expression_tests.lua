local f = function() -- note
end
