local x = x--[[cast]] * 60
