local result = a
-- separator
+ b
