function name13() -- hhii
    return "name13" -- jj
end
