if alpha_beta_gamma then
    return delta_theta
end
