---@type string --1
local s
