Builder:new()
    :add("OKoko.lua")
    :add("ngx.lua")
    :add("MyClass.lua")
