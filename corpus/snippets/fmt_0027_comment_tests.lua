local t = {
    a = 1, -- first
    b = 2, -- second
    c = 3
}
