---@param a string
---@param ... any
function foo(a, ...) end
