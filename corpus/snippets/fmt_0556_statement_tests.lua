function foo()
end
