local s = [[a
"b"
]]
