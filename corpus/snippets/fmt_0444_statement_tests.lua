if ok then
end
