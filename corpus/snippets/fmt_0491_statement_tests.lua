for key, value in very_long_iterator_expr, another_long_iterator_expr, fallback_iterator_expr do
    print(key, value)
end
