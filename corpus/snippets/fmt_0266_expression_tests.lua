local result = first + second + third
