Formatter is not idempotent for tables!
First pass:
{first}
Second pass:
{second}