if ok then return value end
if foo(a, b) then
    local x = 1
elseif bar then
    return baz
else
    return qux
end
