if check(function ()
    return true
end, 'LOADTRUE', 'RETURN1') and another_predicate then
    print('ok')
end
