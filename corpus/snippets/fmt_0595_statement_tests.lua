vim.api.nvim_set_keymap("n", "<leader>t", ":lua require('mytest').run()<CR>", {
    noremap = true,
    silent = true,
})
