while x > 0 do
    -- note
    x = x - 1
end
