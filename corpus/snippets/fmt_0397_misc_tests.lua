local a   =   1
local bbb   =   2
if true
then
return   a  +  bbb
end
