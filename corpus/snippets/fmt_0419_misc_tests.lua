local a, -- lhs
    b = -- eq
    foo, -- rhs
    bar
a, -- lhs
    b = -- eq
    foo, -- rhs
    bar
return -- head
    foo, -- rhs
    bar
