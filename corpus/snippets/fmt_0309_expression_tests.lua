local f = function( -- first
a,-- second
b
)
    return a + b
end
