local f = function(
    a, -- first
    long_name -- second
)
    return a
end
