if a then
    print(1)
elseif alpha + beta + gamma
-- separator
then
print(2)
end
