local a         = 1 -- x
-- divider
local long_name = 2 -- y
