--- @generic T, Num: integer|'#'
local function f() end
