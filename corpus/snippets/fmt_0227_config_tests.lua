require("module")
