for k, v in -- iterator note
pairs(t) do
    print(k, v)
end
