---@generic T value type
---@generic Value, Result: number mapped result
local function f() end
