local a = b and c or d
