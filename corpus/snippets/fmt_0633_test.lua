local x = a+b
