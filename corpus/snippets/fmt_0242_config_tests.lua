local a = 1 + 2 * 3 - 4 / 5
