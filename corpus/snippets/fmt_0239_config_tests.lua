local function foo()
	local a = 1

	local b = 2
end
