--- @param  name   string
local function f(name) end
