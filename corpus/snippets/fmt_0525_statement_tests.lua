function foo(
    first, second, third,
    fourth
)
    return first
end
