    local b
