while foo -- cond
do
    return bar
end
