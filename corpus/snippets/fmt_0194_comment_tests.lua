--[==[ content ]==]
local a = 1
