for i = very_long_start_expr,
    very_long_stop_expr, very_long_step_expr do
    print(i)
end
