local console_format_list = {
    GRAY = ConsoleFormattingBuilder()
        :setColor(Color(0.5, 0.5, 0.5))
        :addSeq(EscapeSequences.BRIGHT_FOREGROUND_BLACK)
        :build()
}
