local s = "it\'s fine"
