for k, v
-- separator
in pairs(t) do
    print(k, v)
end
