local tbl = {
    -- lead
    a = 1, -- trailing
    b = 2,
    -- tail
}
