if ok then return value end
