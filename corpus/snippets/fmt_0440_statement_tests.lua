if ok
-- separator
then
    print(1)
end
