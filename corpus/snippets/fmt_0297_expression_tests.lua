local t = { answer = 42, compute() }
