local s = 'hello "lua"'
