if ok then
    configure({
        key = value,
        another = other
    }, option_one, option_two)
end
