Line diff:
