local t = {
    a = 1,
    -- separator
    b = 2
}
