local function shellify(cmd, opts, env)
    return cmd
end
