if a then
print(1)
elseif b then
print(2)
else
print(3)
end
