somethingTakesInteger(
    someNumber --[[@as integer]]
)
