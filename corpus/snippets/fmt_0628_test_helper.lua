    expected: {:?}
