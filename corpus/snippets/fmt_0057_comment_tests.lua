local a   = 1 -- short
local bbb = 2 -- long var
local cc  = 3 -- medium
