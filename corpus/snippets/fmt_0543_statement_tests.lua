function f()
    return function()
        return true
    end, first_result, second_result
end
