--- @type fun( x : string ) : integer
local fn
