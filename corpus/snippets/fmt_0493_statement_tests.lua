for key, value in iterate(function()
    return true
end, 'LOADTRUE', 'RETURN1'), fallback_iterator do
    print(key, value)
end
