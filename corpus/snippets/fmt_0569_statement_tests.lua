local a -- hiihi
= 123
