if nState ~= self.StarBoxType.GetNormal then
    pPlayer.Msg("请先领取该星级的普通宝箱奖励后再来购买钻石宝箱")
    return -- 还未领取普通宝箱奖励
end
