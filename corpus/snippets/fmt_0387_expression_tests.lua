if check(function ()
    return true
end, 'LOADTRUE', 'RETURN1') == "hiho" then
    print('ok')
end
