local function func1()
    local a = { { a = 1, aa = 2, aaa = 3, aaaa = 4, aaaaa = 5, aaaaaa = 6, aaaaaaa = 7, aaaaaaaaa = 8, aaaaaaaaaa = 9, aaaaaaaaaaa = 10 } }
    local b
end
