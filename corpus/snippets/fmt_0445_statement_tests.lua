do
end
