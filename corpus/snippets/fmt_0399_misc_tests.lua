local t = {
    a = 1,
    bbb = 2,
    cc = 3,
}
