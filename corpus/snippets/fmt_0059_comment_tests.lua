local x   = 1
local yy  = 2
local zzz = 3
