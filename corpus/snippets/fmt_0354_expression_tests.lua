expected comparison tail to stay on the call closing line, got:
{result}