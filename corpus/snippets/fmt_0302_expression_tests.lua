foo( -- first
a,-- second
b
)
