if self.aaaaabbbbb == nil or self.aaaaabbbbb.cccc.dddd.eeee == sub.ffff.gggg.hhhh then
    if item.iiii.jjjj.kkkk == 0 then
        item.LLLL:MMMM()
    end
    self:NNNN(sub)
else
end
