local function foo
-- separator
(a, b)
    return a + b
end
