builder:setName("foo"):setAge(25):build()
