---@class MyClass
local cc = { xxx = 123 }
