foo(a, b)
