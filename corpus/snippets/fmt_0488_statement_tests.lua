for k, v in pairs(t)
-- separator
do
    print(k, v)
end
