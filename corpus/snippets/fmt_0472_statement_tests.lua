function abi.get_pos()
    if false then
        return "" -- hhh
    end -- ennene

    return { yafafa = 1, x = 2 } -- ccc
end
