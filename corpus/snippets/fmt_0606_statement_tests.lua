local x = a ? b : c
