#!/usr/bin/lua
local a = 1
