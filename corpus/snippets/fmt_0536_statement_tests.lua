function f()
    return { key = value }
end
