local x = a+b == c*d
