local a <const>, b <const> = 1, 2
