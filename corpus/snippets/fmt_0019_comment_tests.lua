local a = 1 -- trailing
