for k, v in pairs(t) do -- body note
    print(k, v)
end
