cannotload(
    "attempt to load a text chunk",
    load(read1(x), "modname", "b", {})
)
