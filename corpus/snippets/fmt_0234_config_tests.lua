local f = function() return x + 1 end
