local d = true ? 1 + fun(f:m()) : f()
