---@field public ["foo"] string?
---@field private [bar]  integer
---@field protected baz  fun(x: string): boolean
local t = {}
