local pipeline = { step_one(), step_two(), step_three() }
