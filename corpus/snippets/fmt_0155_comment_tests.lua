---@param mode string?
--- | "'line'"
--- | "'char'"
--- | "'block'"
local mode = nil
