local function bar(x)
return x * 2
end
