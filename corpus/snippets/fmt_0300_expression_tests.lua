foo(a -- first
, b)
