local t = { answer = 42, ["name"] = user_name }
