local d = { -- enne
a=1,-- hf
b=2,
}
