assert(check(function ()
        return true
    end, 'LOADTRUE', 'RETURN1') == "hiho")
