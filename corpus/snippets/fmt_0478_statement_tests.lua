for k, v in pairs(t) do
    print(k, v)
end
