if ready then notify(user) end
