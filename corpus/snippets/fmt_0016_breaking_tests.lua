if player:getStorageValue(Storage.QuestSystem.FirstPartCompleted) == 1 or player:getStorageValue(Storage.QuestSystem.SecondPartCompleted) == 1 or player:getStorageValue(Storage.QuestSystem.ThirdPartCompleted) == 1 then
	work()
end
