local fn = function -- before params
(a) -- before body
-- body comment
return a
end
