---@type { [string]: number, [number]: string }
local x
