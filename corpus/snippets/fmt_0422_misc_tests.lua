while foo(a, b) do
    local x = 1
    return x
end
