some_function(
    very_long_argument_one, very_long_argument_two,
    very_long_argument_three, very_long_argument_four
)
