Formatter is not idempotent for nested call with multiline table arg!
First pass:
{first}
Second pass:
{second}