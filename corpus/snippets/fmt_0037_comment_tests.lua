if x then
    -- only comment
end
