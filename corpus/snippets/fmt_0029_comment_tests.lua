local dd = {
    aaa = 123, -- hihi
    cc = 123   -- ookko
}
