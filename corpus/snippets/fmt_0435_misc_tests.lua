local tbl={a=1,["b"]=2,[3]=4,[foo]=bar}
