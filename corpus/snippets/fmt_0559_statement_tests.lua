for i = 1, 10 do
end
