while true do
break
end
