while true do
    if x then
        continue
    end
end
