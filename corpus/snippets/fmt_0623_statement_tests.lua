f(|| -> do
end)
