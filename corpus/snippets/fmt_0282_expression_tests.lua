local t = { a = 1, b = 2, c = 3 }
