if true then
    print(1)
end
