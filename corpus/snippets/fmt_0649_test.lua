local value = { a = 1, aaaaaaaaa = 2, aaaaaaaaaa = 3, aaaaaaaaaaa = 4, aaaaaaaaaaaa = 5 }
local after = 1
