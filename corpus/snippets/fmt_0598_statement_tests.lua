value
-- separator
= 123
