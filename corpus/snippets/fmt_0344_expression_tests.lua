a.a = function()
    return function(l)
        return a.Add(
                aaaa,
                bbbb,
                cccc,
                dddd,
                eeee,
                nil,
                nil,
                nil,
                aafafa -- comment
            ):next()
    end
end
