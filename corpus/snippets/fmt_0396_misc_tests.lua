local s = [[  hello
  world
]]
