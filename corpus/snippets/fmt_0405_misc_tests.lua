local x = obj:method1():method2():method3()
