local function foo()
end
