for i, -- lhs
    j = -- eq
    foo, -- rhs
    bar do
    return i
end
for k, -- lhs
    v in -- in
    pairs(tbl), -- rhs
    next(tbl) do
    return v
end
