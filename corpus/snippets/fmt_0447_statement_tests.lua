function alpha.beta:gamma()
end
