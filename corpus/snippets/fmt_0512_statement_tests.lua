do
local x = 1
end
