if ok then
    -- note
    print(1)
end
