if foo -- cond
then
    return a
elseif bar -- cond
then
    return b
else
    return c
end
