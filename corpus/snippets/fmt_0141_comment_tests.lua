-- Attempts to construct a shell command from an args list.
-- Only for display, to help users debug a failed command.
---@param cmd string | string[]
local function shellify(cmd) end
