--- hihi
---   jgiwigw
---  jgiwigw
--- fjajwiofw
local value = nil
