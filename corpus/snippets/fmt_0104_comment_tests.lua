---@param cmd string | string[]
local function f(cmd) end
