if nState ~= 1 then -- hiihii
    c.Msg("hihi")
    return -- 111
end
