---@meta
-- Copyright (c) 2018. tangzx(love.tangzx@qq.com)
--
-- Licensed under the Apache License, Version 2.0 (the "License"); you may not
-- use this file except in compliance with the License. You may obtain a copy of
-- the License at
--
-- http://www.apache.org/licenses/LICENSE-2.0
--
-- Unless required by applicable law or agreed to in writing, software
-- distributed under the License is distributed on an "AS IS" BASIS, WITHOUT
-- WARRANTIES OR CONDITIONS OF ANY KIND, either express or implied. See the
-- License for the specific language governing permissions and limitations under
-- the License.

--- @class packagelib
package = {}

---
--- A string describing some compile-time configurations for packages. This
--- string is a sequence of lines:
---
--- The first line is the directory separator string. Default is '\' for Windows
--- and '/' for all other systems.
--- The second line is the character that separates templates in a path. Default
--- is ';'.
--- The third line is the string that marks the substitution points in a
--- template. Default is '?'.
--- The fourth line is a string that, in a path in Windows, is replaced by the
--- executable's directory. Default is '!'.
--- The fifth line is a mark to ignore all text after it when building the
--- luaopen_ function name. Default is '-'.
package.config = [[
/
;
?
!
-]]

---
--- The path used by `require` to search for a C loader.
---
--- Lua initializes the C path `package.cpath` in the same way it initializes
--- the Lua path `package.path`, using the environment variable `LUA_CPATH_5_4`
--- or the environment variable `LUA_CPATH`, or a default path defined in
--- `luaconf.h`.
package.cpath = ""

---
--- A table used by `require` to control which modules are already
--- loaded. When you require a module `modname` and `package.loaded[modname]``
--- is not false, `require` simply returns the value stored there.
---
--- This variable is only a reference to the real table; assignments to this
--- variable do not change the table used by `require`.
package.loaded = {}

---
--- Dynamically links the host program with the C library `libname`.
---
--- If `funcname` is "*", then it only links with the library, making the
--- symbols exported by the library available to other dynamically linked
--- libraries. Otherwise, it looks for a function `funcname` inside the library
--- and returns this function as a C function. So, `funcname` must follow the
--- `lua_CFunction` prototype (see `lua_CFunction`).
---
--- This is a low-level function. It completely bypasses the package and module
--- system. Unlike `require`, it does not perform any path searching and does
--- not automatically adds extensions. `libname` must be the complete file name
--- of the C library, including if necessary a path and an extension. `funcname`
--- must be the exact name exported by the C library (which may depend on the C
--- compiler and linker used).
---
--- This function is not supported by Standard C. As such, it is only available
--- on some platforms (Windows, Linux, Mac OS X, Solaris, BSD, plus other Unix
--- systems that support the `dlfcn` standard).
--- @param libname  string
--- @param funcname string
--- @return function?, string?
function package.loadlib(libname, funcname) end

---
--- The path used by `require` to search for a Lua loader.
---
--- At start-up, Lua initializes this variable with the value of the environment
--- variable `LUA_PATH_5_4` or the environment variable `LUA_PATH` or with a
--- default path defined in `luaconf.h`, if those environment variables are not
--- defined. Any ";;" in the value of the environment variable is replaced by
--- the default path.
package.path = ""

---
--- A table to store loaders for specific modules (see `require`).
---
--- This variable is only a reference to the real table; assignments to this
--- variable do not change the table used by `require`.
package.preload = {}

--- @version 5.1, JIT
package.loaders = {}

--- @version >5.2
---
--- A table used by require to control how to load modules.
---
--- Each entry in this table is a *searcher function*. When looking for a
--- module, *require* calls each of these searchers in ascending order, with the
--- module name (the argument given to `require`) as its sole parameter. The
--- function can return another function (the module *loader*) plus an extra
--- value that will be passed to that loader, or a string explaining why it did
--- not find that module (or **nil** if it has nothing to say).
---
--- Lua initializes this table with four searcher functions.
---
--- The first searcher simply looks for a loader in the `package.preload` table.
---
--- The second searcher looks for a loader as a Lua library, using the path
--- stored at `package.path`. The search is done as described in function
--- `package.searchpath`.
---
--- The third searcher looks for a loader as a C library, using the path given
--- by the variable package.cpath`. Again, the search is done as described in
--- function `package.searchpath`. For instance, if the C path is the string
--- > "`./?.so;./?.dll;/usr/local/?/init.so`"
--- the searcher for module foo will try to open the files ``./foo.so, ./foo
--- .dll`, and ``/usr/local/foo/init.so`, in that order. Once it finds a C
--- library, this searcher first uses a dynamic link facility to link the
--- application with the library. Then it tries to find a C function inside the
--- library to be used as the loader. The name of this C function is the string
--- "`luaopen_`" concatenated with a copy of the module name where each dot is
--- replaced by an underscore. Moreover, if the module name has a hyphen, its
--- suffix after (and including) the first hyphen is removed. For instance, if
--- the module name is `a.b.c-v2.1`, the function name will be `luaopen_a_b_c`.
---
--- The fourth searcher tries an *all-in-one loader*. It searches the C path for
--- a library for the root name of the given module. For instance, when
--- requiring `a.b.c`, it will search for a C library for `a`. If found, it
--- looks into it for an open function for the submodule; in our example, that
--- would be `luaopen_a_b_c`. With this facility, a package can pack several C
--- submodules into one single library, with each submodule keeping its original
--- open function.
---
--- All searchers except the first one (preload) return as the extra value the
--- file name where the module was found, as returned by `package.searchpath`.
--- The first searcher returns no extra value.
package.searchers = {}

--- @version >5.2, JIT
---
--- Searches for the given name in the given path.
---
--- A path is a string containing a sequence of *templates* separated by
--- semicolons. For each template, the function replaces each interrogation mark
--- (if any) in the template with a copy of name wherein all occurrences of
--- `sep` (a dot, by default) were replaced by `rep` (the system's directory
--- separator, by default), and then tries to open the resulting file name.
---
--- For instance, if the path is the string
--- > "`./?.lua;./?.lc;/usr/local/?/init.lua`"
--- the search for the name `foo.a` will try to open the files `./foo/a.lua`,
--- `./foo/a.lc`, and `/usr/local/foo/a/init.lua`, in that order.
---
--- Returns the resulting name of the first file that it can open in read mode
--- (after closing the file), or **nil** plus an error message if none succeeds.
--- (This error message lists all file names it tried to open.)
--- @param name  string
--- @param path? string
--- @param sep?  string
--- @param rep?  string
--- @return_overload string filename
--- @return_overload nil, string err
function package.searchpath(name, path, sep, rep) end

--- @version 5.1, JIT
---
--- Sets a metatable for `module` with its `__index` field referring to the global environment, so that this module inherits values from the global environment. To be used as an option to function `module` .
---
--- @param module table
function package.seeall(module) end

return package
