--- Copy from Lua Sumneko Lua

--- @meta ffi
--- @version JIT

--- @class ffi.namespace*: table
--- @field [string] function

--- @class ffi.ctype*: userdata
--- @overload fun(init?: any, ...): ffi.cdata*
--- @overload fun(nelem?: integer, init?: any, ...): ffi.cdata*
local ctype

--- @class ffi.cdecl*: string
--- @class ffi.cdata*: userdata
--- @alias ffi.ct* ffi.ctype* | ffi.cdecl* | ffi.cdata*
--- @class ffi.cb*: ffi.cdata*
local cb
--- @class ffi.VLA*: userdata
--- @class ffi.VLS*: userdata

--- @version JIT
--- @class ffilib
--- @field C    ffi.namespace*
--- @field os   string
--- @field arch string
local ffi = {}

--- @param def     string
--- @param params? any
function ffi.cdef(def, params, ...) end

--- @param name    string
--- @param global? boolean
--- @return ffi.namespace* clib
--- @nodiscard
function ffi.load(name, global) end

--- @overload fun(ct: ffi.ct*, init: any, ...): ffi.cdata*
--- @param ct     ffi.ct*
--- @param nelem? integer
--- @param init?  any
--- @return ffi.cdata* cdata
--- @nodiscard
function ffi.new(ct, nelem, init, ...) end

--- @param ct      ffi.ct*
--- @param params? any
--- @return ffi.ctype* ctype
--- @nodiscard
function ffi.typeof(ct, params, ...) end

--- @param ct   ffi.ct*
--- @param init any
--- @return ffi.cdata* cdata
--- @nodiscard
function ffi.cast(ct, init) end

--- @param ct        ffi.ct*
--- @param metatable table
--- @return ffi.ctype* ctype
function ffi.metatype(ct, metatable) end

--- @param cdata      ffi.cdata*
--- @param finalizer? function
--- @return ffi.cdata* cdata
function ffi.gc(cdata, finalizer) end

--- @param ct     ffi.ct*
--- @param nelem? integer
--- @return integer|nil size
--- @nodiscard
function ffi.sizeof(ct, nelem) end

--- @param ct ffi.ct*
--- @return integer align
--- @nodiscard
function ffi.alignof(ct) end

--- @param ct    ffi.ct*
--- @param field string
--- @return integer ofs
--- @return integer? bpos
--- @return integer? bsize
--- @nodiscard
function ffi.offsetof(ct, field) end

--- @param ct  ffi.ct*
--- @param obj any
--- @return boolean status
--- @nodiscard
function ffi.istype(ct, obj) end

--- @param newerr? integer
--- @return integer err
--- @nodiscard
function ffi.errno(newerr) end

--- @param ptr  any
--- @param len? integer
--- @return string str
function ffi.string(ptr, len) end

--- @overload fun(dst: any, str: string)
--- @param dst any
--- @param src any
--- @param len integer
function ffi.copy(dst, src, len) end

--- @param dst any
--- @param len integer
--- @param c?  any
function ffi.fill(dst, len, c) end

--- @param param string
--- @return boolean status
function ffi.abi(param) end

function cb:free() end

--- @param func function
function cb:set(func) end

return ffi
