--- Copy from Lua Sumneko Lua
--- @meta string.buffer
--- @version JIT

--- @version JIT
--- The string buffer library allows high-performance manipulation of string-like data.
---
--- Unlike Lua strings, which are constants, string buffers are mutable sequences of 8-bit (binary-transparent) characters. Data can be stored, formatted and encoded into a string buffer and later converted, extracted or decoded.
---
--- The convenient string buffer API simplifies common string manipulation tasks, that would otherwise require creating many intermediate strings. String buffers improve performance by eliminating redundant memory copies, object creation, string interning and garbage collection overhead. In conjunction with the FFI library, they allow zero-copy operations.
---
--- The string buffer library also includes a high-performance serializer for Lua objects.
---
---
--- ## Streaming Serialization
---
--- In some contexts, it's desirable to do piecewise serialization of large datasets, also known as streaming.
---
--- This serialization format can be safely concatenated and supports streaming. Multiple encodings can simply be appended to a buffer and later decoded individually:
---
--- ```lua
--- local buf = buffer.new()
--- buf:encode(obj1)
--- buf:encode(obj2)
--- local copy1 = buf:decode()
--- local copy2 = buf:decode()
--- ```
---
--- Here's how to iterate over a stream:
---
--- ```lua
--- while #buf ~= 0 do
---   local obj = buf:decode()
---   -- Do something with obj.
--- end
--- ```
---
--- Since the serialization format doesn't prepend a length to its encoding, network applications may need to transmit the length, too.
--- Serialization Format Specification
---
--- This serialization format is designed for internal use by LuaJIT applications. Serialized data is upwards-compatible and portable across all supported LuaJIT platforms.
---
--- It's an 8-bit binary format and not human-readable. It uses e.g. embedded zeroes and stores embedded Lua string objects unmodified, which are 8-bit-clean, too. Encoded data can be safely concatenated for streaming and later decoded one top-level object at a time.
---
--- The encoding is reasonably compact, but tuned for maximum performance, not for minimum space usage. It compresses well with any of the common byte-oriented data compression algorithms.
---
--- Although documented here for reference, this format is explicitly not intended to be a 'public standard' for structured data interchange across computer languages (like JSON or MessagePack). Please do not use it as such.
---
--- The specification is given below as a context-free grammar with a top-level object as the starting point. Alternatives are separated by the | symbol and * indicates repeats. Grouping is implicit or indicated by {…}. Terminals are either plain hex numbers, encoded as bytes, or have a .format suffix.
---
--- ```
--- object → nil | false | true
---           | null | lightud32 | lightud64
---           | int | num | tab | tab_mt
---           | int64 | uint64 | complex
---           | string
---
--- nil     → 0x00
--- false   → 0x01
--- true    → 0x02
---
--- null → 0x03 // NULL lightuserdata
--- lightud32 → 0x04 data.I // 32 bit lightuserdata
--- lightud64 → 0x05 data.L // 64 bit lightuserdata
---
--- int → 0x06 int.I // int32_t
--- num → 0x07 double.L
---
--- tab → 0x08 // Empty table
---           | 0x09 h.U h*{object object}          // Key/value hash
---           | 0x0a a.U a*object                    // 0-based array
---           | 0x0b a.U a*object h.U h*{object object}      // Mixed
---           | 0x0c a.U (a-1)*object                // 1-based array
---           | 0x0d a.U (a-1)*object h.U h*{object object}  // Mixed
--- tab_mt → 0x0e (index-1).U tab // Metatable dict entry
---
--- int64 → 0x10 int.L // FFI int64_t
--- uint64 → 0x11 uint.L // FFI uint64_t
--- complex → 0x12 re.L im.L // FFI complex
---
--- string → (0x20+len).U len*char.B
---           | 0x0f (index-1).U                 // String dict entry
---
--- .B = 8 bit
--- .I = 32 bit little-endian
--- .L = 64 bit little-endian
--- .U = prefix-encoded 32 bit unsigned number n:
---      0x00..0xdf   → n.B
---      0xe0..0x1fdf → (0xe0|(((n-0xe0)>>8)&0x1f)).B ((n-0xe0)&0xff).B
---    0x1fe0..       → 0xff n.I
--- ```
---
--- ## Error handling
---
--- Many of the buffer methods can throw an error. Out-of-memory or usage errors are best caught with an outer wrapper for larger parts of code. There's not much one can do after that, anyway.
---
--- OTOH you may want to catch some errors individually. Buffer methods need to receive the buffer object as the first argument. The Lua colon-syntax `obj:method()` does that implicitly. But to wrap a method with `pcall()`, the arguments need to be passed like this:
---
--- ```lua
--- local ok, err = pcall(buf.encode, buf, obj)
--- if not ok then
---   -- Handle error in err.
--- end
--- ```
---
--- ## FFI caveats
---
--- The string buffer library has been designed to work well together with the FFI library. But due to the low-level nature of the FFI library, some care needs to be taken:
---
--- First, please remember that FFI pointers are zero-indexed. The space returned by `buf:reserve()` and `buf:ref()` starts at the returned pointer and ends before len bytes after that.
---
--- I.e. the first valid index is `ptr[0]` and the last valid index is `ptr[len-1]`. If the returned length is zero, there's no valid index at all. The returned pointer may even be `NULL`.
---
--- The space pointed to by the returned pointer is only valid as long as the buffer is not modified in any way (neither append, nor consume, nor reset, etc.). The pointer is also not a GC anchor for the buffer object itself.
---
--- Buffer data is only guaranteed to be byte-aligned. Casting the returned pointer to a data type with higher alignment may cause unaligned accesses. It depends on the CPU architecture whether this is allowed or not (it's always OK on x86/x64 and mostly OK on other modern architectures).
---
--- FFI pointers or references do not count as GC anchors for an underlying object. E.g. an array allocated with `ffi.new()` is anchored by `buf:set(array, len)`, but not by `buf:set(array+offset, len)`. The addition of the offset creates a new pointer, even when the offset is zero. In this case, you need to make sure there's still a reference to the original array as long as its contents are in use by the buffer.
---
--- Even though each LuaJIT VM instance is single-threaded (but you can create multiple VMs), FFI data structures can be accessed concurrently. Be careful when reading/writing FFI cdata from/to buffers to avoid concurrent accesses or modifications. In particular, the memory referenced by `buf:set(cdata, len)` must not be modified while buffer readers are working on it. Shared, but read-only memory mappings of files are OK, but only if the file does not change.
local buffer = {}

--- A buffer object is a garbage-collected Lua object. After creation with `buffer.new()`, it can (and should) be reused for many operations. When the last reference to a buffer object is gone, it will eventually be freed by the garbage collector, along with the allocated buffer space.
---
--- Buffers operate like a FIFO (first-in first-out) data structure. Data can be appended (written) to the end of the buffer and consumed (read) from the front of the buffer. These operations may be freely mixed.
---
--- The buffer space that holds the characters is managed automatically — it grows as needed and already consumed space is recycled. Use `buffer.new(size)` and `buf:free()`, if you need more control.
---
--- The maximum size of a single buffer is the same as the maximum size of a Lua string, which is slightly below two gigabytes. For huge data sizes, neither strings nor buffers are the right data structure — use the FFI library to directly map memory or files up to the virtual memory limit of your OS.
---
--- @version JIT
--- @class string.buffer: table
local buf = {}

--- A string, number, or any object obj with a __tostring metamethod to the buffer.
---
--- @alias string.buffer.data string | number | table

--- Appends a string str, a number num or any object obj with a `__tostring` metamethod to the buffer. Multiple arguments are appended in the given order.
---
--- Appending a buffer to a buffer is possible and short-circuited internally. But it still involves a copy. Better combine the buffer writes to use a single buffer.
---
--- @param data string.buffer.data
--- @param ...? string.buffer.data
--- @return string.buffer
function buf:put(data, ...) end

--- Appends the formatted arguments to the buffer. The format string supports the same options as string.format().
---
--- @param format string
--- @param ...    string.buffer.data
--- @return string.buffer
function buf:putf(format, ...) end

--- Appends the given len number of bytes from the memory pointed to by the FFI cdata object to the buffer. The object needs to be convertible to a (constant) pointer.
---
--- @param cdata ffi.cdata*
--- @param len   integer
--- @return string.buffer
function buf:putcdata(cdata, len) end

--- This method allows zero-copy consumption of a string or an FFI cdata object as a buffer. It stores a reference to the passed string str or the FFI cdata object in the buffer. Any buffer space originally allocated is freed. This is not an append operation, unlike the `buf:put*()` methods.
---
--- After calling this method, the buffer behaves as if `buf:free():put(str)` or `buf:free():put(cdata, len)` had been called. However, the data is only referenced and not copied, as long as the buffer is only consumed.
---
--- In case the buffer is written to later on, the referenced data is copied and the object reference is removed (copy-on-write semantics).
---
--- The stored reference is an anchor for the garbage collector and keeps the originally passed string or FFI cdata object alive.
---
--- @param str string.buffer.data
--- @return string.buffer
--- @overload fun(self: string.buffer, cdata: ffi.cdata*, len: integer): string.buffer
function buf:set(str) end

--- Reset (empty) the buffer. The allocated buffer space is not freed and may be reused.
--- @return string.buffer
function buf:reset() end

--- The buffer space of the buffer object is freed. The object itself remains intact, empty and may be reused.
---
--- Note: you normally don't need to use this method. The garbage collector automatically frees the buffer space, when the buffer object is collected. Use this method, if you need to free the associated memory immediately.
function buf:free() end

--- The reserve method reserves at least size bytes of write space in the buffer. It returns an uint8_t * FFI cdata pointer ptr that points to this space.
---
--- The available length in bytes is returned in len. This is at least size bytes, but may be more to facilitate efficient buffer growth. You can either make use of the additional space or ignore len and only use size bytes.
---
--- This, along with `buf:commit()` allow zero-copy use of C read-style APIs:
---
--- ```lua
--- local MIN_SIZE = 65536
--- repeat
---   local ptr, len = buf:reserve(MIN_SIZE)
---   local n = C.read(fd, ptr, len)
---   if n == 0 then break end -- EOF.
---   if n < 0 then error("read error") end
---   buf:commit(n)
--- until false
--- ```
---
--- The reserved write space is not initialized. At least the used bytes must be written to before calling the commit method. There's no need to call the commit method, if nothing is added to the buffer (e.g. on error).
--- @param size integer
--- @return ffi.cdata* ptr # an uint8_t * FFI cdata pointer that points to this space
--- @return integer len    # available length                                      (bytes)
function buf:reserve(size) end

--- Appends the used bytes of the previously returned write space to the buffer data.
--- @param used integer
--- @return string.buffer
function buf:commit(used) end

--- Skips (consumes) len bytes from the buffer up to the current length of the buffer data.
--- @param len integer
--- @return string.buffer
function buf:skip(len) end

--- Consumes the buffer data and returns one or more strings. If called without arguments, the whole buffer data is consumed. If called with a number, up to `len` bytes are consumed. A `nil` argument consumes the remaining buffer space (this only makes sense as the last argument). Multiple arguments consume the buffer data in the given order.
---
--- Note: a zero length or no remaining buffer data returns an empty string and not `nil`.
---
--- @param len? integer
--- @param ...  integer | nil
--- @return string ...
function buf:get(len, ...) end

--- Creates a string from the buffer data, but doesn't consume it. The buffer remains unchanged.
---
--- Buffer objects also define a `__tostring metamethod`. This means buffers can be passed to the global `tostring()` function and many other functions that accept this in place of strings. The important internal uses in functions like `io.write()` are short-circuited to avoid the creation of an intermediate string object.
--- @return string
function buf:tostring() end

--- Returns an uint8_t * FFI cdata pointer ptr that points to the buffer data. The length of the buffer data in bytes is returned in len.
---
--- The returned pointer can be directly passed to C functions that expect a buffer and a length. You can also do bytewise reads (`local x = ptr[i]`) or writes (`ptr[i] = 0x40`) of the buffer data.
---
--- In conjunction with the `buf:skip()` method, this allows zero-copy use of C write-style APIs:
---
--- ```lua
--- repeat
---   local ptr, len = buf:ref()
---   if len == 0 then break end
---   local n = C.write(fd, ptr, len)
---   if n < 0 then error("write error") end
---   buf:skip(n)
--- until n >= len
--- ```
---
--- Unlike Lua strings, buffer data is not implicitly zero-terminated. It's not safe to pass ptr to C functions that expect zero-terminated strings. If you're not using len, then you're doing something wrong.
---
--- @return ffi.cdata* ptr # an uint8_t * FFI cdata pointer that points to the buffer data.
--- @return integer len    # length of the buffer data in                                bytes
function buf:ref() end

--- Serializes (encodes) the Lua object to the buffer
---
--- This function may throw an error when attempting to serialize unsupported object types, circular references or deeply nested tables.
--- @param obj string.buffer.data
--- @return string.buffer
function buf:encode(obj) end

--- De-serializes one object from the buffer.
---
--- The returned object may be any of the supported Lua types — even `nil`.
---
--- This function may throw an error when fed with malformed or incomplete encoded data.
---
--- Leaves any left-over data in the buffer.
---
--- Attempting to de-serialize an FFI type will throw an error, if the FFI library is not built-in or has not been loaded, yet.
---
--- @return string.buffer.data|nil obj
function buf:decode() end

--- Serializes (encodes) the Lua object obj
---
--- This function may throw an error when attempting to serialize unsupported object types, circular references or deeply nested tables.
--- @param obj string.buffer.data
--- @return string
function buffer.encode(obj) end

--- De-serializes (decodes) the string to a Lua object
---
--- The returned object may be any of the supported Lua types — even `nil`.
---
--- Throws an error when fed with malformed or incomplete encoded data.
--- Throws an error when there's left-over data after decoding a single top-level object.
---
--- Attempting to de-serialize an FFI type will throw an error, if the FFI library is not built-in or has not been loaded, yet.
---
--- @param str string
--- @return string.buffer.data|nil obj
function buffer.decode(str) end

--- Creates a new buffer object.
---
--- The optional size argument ensures a minimum initial buffer size. This is strictly an optimization when the required buffer size is known beforehand. The buffer space will grow as needed, in any case.
---
--- The optional table options sets various serialization options.
---
--- @param size?    integer
--- @param options? string.buffer.serialization.opts
--- @return string.buffer
function buffer.new(size, options) end

--- Serialization Options
---
--- The options table passed to buffer.new() may contain the following members (all optional):
---
--- * `dict` is a Lua table holding a dictionary of strings that commonly occur as table keys of objects you are serializing. These keys are compactly encoded as indexes during serialization. A well chosen dictionary saves space and improves serialization performance.
---
--- * `metatable` is a Lua table holding a dictionary of metatables for the table objects you are serializing.
---
--- dict needs to be an array of strings and metatable needs to be an array of tables. Both starting at index 1 and without holes (no nil inbetween). The tables are anchored in the buffer object and internally modified into a two-way index (don't do this yourself, just pass a plain array). The tables must not be modified after they have been passed to buffer.new().
---
--- The dict and metatable tables used by the encoder and decoder must be the same. Put the most common entries at the front. Extend at the end to ensure backwards-compatibility — older encodings can then still be read. You may also set some indexes to false to explicitly drop backwards-compatibility. Old encodings that use these indexes will throw an error when decoded.
---
--- Metatables that are not found in the metatable dictionary are ignored when encoding. Decoding returns a table with a nil metatable.
---
--- Note: parsing and preparation of the options table is somewhat expensive. Create a buffer object only once and recycle it for multiple uses. Avoid mixing encoder and decoder buffers, since the buf:set() method frees the already allocated buffer space:
---
--- ```lua
--- local options = {
---   dict = { "commonly", "used", "string", "keys" },
--- }
--- local buf_enc = buffer.new(options)
--- local buf_dec = buffer.new(options)
---
--- local function encode(obj)
---   return buf_enc:reset():encode(obj):get()
--- end
---
--- local function decode(str)
---   return buf_dec:set(str):decode()
--- end
--- ```
--- @class string.buffer.serialization.opts
--- @field dict      string[]
--- @field metatable table[]

return buffer
