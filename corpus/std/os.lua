---@meta
-- Copyright (c) 2018. tangzx(love.tangzx@qq.com)
--
-- Licensed under the Apache License, Version 2.0 (the "License"); you may not
-- use this file except in compliance with the License. You may obtain a copy of
-- the License at
--
-- http://www.apache.org/licenses/LICENSE-2.0
--
-- Unless required by applicable law or agreed to in writing, software
-- distributed under the License is distributed on an "AS IS" BASIS, WITHOUT
-- WARRANTIES OR CONDITIONS OF ANY KIND, either express or implied. See the
-- License for the specific language governing permissions and limitations under
-- the License.

--- @class oslib
os = {}

---
--- Returns an approximation of the amount in seconds of CPU time used by
--- the program.
--- @return number
function os.clock() end

--- @class std.osdateparam
--- @field year  integer | string    four digits
--- @field month integer | string    1-12
--- @field day   integer | string    1-31
--- @field hour  (integer | string)? 0-23
--- @field min   (integer | string)? 0-59
--- @field sec   (integer | string)? 0-61, due to leap seconds
--- @field wday  (integer | string)? 1-7, Sunday is 1
--- @field yday  (integer | string)? 1-366
--- @field isdst boolean?            daylight saving flag, a boolean.

--- @class std.osdate: std.osdateparam
--- @field year  integer | string four digits
--- @field month integer | string 1-12
--- @field day   integer | string 1-31
--- @field hour  integer | string 0-23
--- @field min   integer | string 0-59
--- @field sec   integer | string 0-61, due to leap seconds
--- @field wday  integer | string 1-7, Sunday is 1
--- @field yday  integer | string 1-366
--- @field isdst boolean          daylight saving flag, a boolean.

---
--- Returns a string or a table containing date and time, formatted according
--- to the given string `format`.
---
--- If the `time` argument is present, this is the time to be formatted (see
--- the `os.time` function for a description of this value). Otherwise,
--- `date` formats the current time.
---
--- If `format` starts with '`!`', then the date is formatted in Coordinated
--- Universal Time. After this optional character, if `format` is the string
--- "`*t`", then `date` returns a table with the following fields:
---
--- **`year`** (four digits)
--- **`month`** (1–12)
--- **`day`** (1-31)
--- **`hour`** (0-23)
--- **`min`** (0-59)
--- **`sec`** (0-61), due to leap seconds
--- **`wday`** (weekday, 1–7, Sunday is 1)
--- **`yday`** (day of the year, 1–366)
--- **`isdst`** (daylight saving flag, a boolean). This last field may be absent
--- if the information is not available.
---
--- If `format` is not "`*t`", then `date` returns the date as a string,
--- formatted according to the same rules as the ISO C function `strftime`.
---
--- When called without arguments, `date` returns a reasonable date and time
--- representation that depends on the host system and on the current locale.
--- (More specifically, `os.date()` is equivalent to `os.date("%c")`.)
---
--- On non-POSIX systems, this function may be not thread safe because of its
--- reliance on C function `gmtime` and C function `localtime`.
--- @overload fun(fmt: "*t", time?: number): std.osdate
--- @overload fun(fmt: "!*t", time?: number): std.osdate
--- @param format? string
--- @param time?  number
--- @return string
function os.date(format, time) end

---
--- Returns the difference, in seconds, from time `t1` to time `t2`. (where the
--- times are values returned by `os.time`). In POSIX, Windows, and some other
--- systems, this value is exactly `t2`-`t1`.
--- @param t2 number
--- @param t1 number
--- @return number
function os.difftime(t2, t1) end

--- @version >5.2
---
--- This function is equivalent to the C function `system`. It passes `command`
--- to be executed by an operating system shell. Its first result is **true** if
--- the command terminated successfully, or **nil** otherwise. After this first
--- result the function returns a string plus a number, as follows:
---
--- **"exit"**: the command terminated normally; the following number is the
--- exit status of the command.
--- **"signal"**: the command was terminated by a signal; the following number
--- is the signal that terminated the command.
---
--- When called without a command, `os.execute` returns a boolean that is true
--- if a shell is available.
--- @overload fun(): boolean
--- @param command string
--- @return true|nil
--- @return 'exit'|'signal'
--- @return integer
function os.execute(command) end

--- @version 5.1, JIT
---
--- This function is equivalent to the C function system. It passes command to
--- be executed by an operating system shell. It returns a status code, which is
--- system-dependent. If command is absent, then it returns nonzero if a shell
--- is available and zero otherwise.
--- @param command string
--- @return integer
function os.execute(command) end

--- @version >5.2, JIT
---
--- Calls the ISO C function `exit` to terminate the host program. If `code` is
--- **true**, the returned status is `EXIT_SUCCESS`; if `code` is **false**, the
--- returned status is `EXIT_FAILURE`; if `code` is a number, the returned
--- status is this number. The default value for `code` is **true**.
---
--- If the optional second argument `close` is true, closes the Lua state before
--- exiting.
--- @param code?  boolean | integer
--- @param close? boolean
function os.exit(code, close) end

--- @version 5.1
---
--- Calls the C function exit, with an optional `code`, to terminate the host
--- program. The default value for `code` is the success code.
--- @param code? integer
function os.exit(code) end

---
--- Returns the value of the process environment variable `varname`, or
--- **nil** if the variable is not defined.
--- @param varname string
--- @return string?
function os.getenv(varname) end

---
--- Deletes the file (or empty directory, on POSIX systems) with the given name.
--- If this function fails, it returns **nil**, plus a string describing the
--- error and the error code. Otherwise, it returns true.
--- @param filename string
--- @return true|nil result
--- @return string err
function os.remove(filename) end

---
--- Renames the file or directory named `oldname` to `newname`. If this function
--- fails, it returns **nil**, plus a string describing the error and the error
--- code. Otherwise, it returns true.
--- @param oldname string
--- @param newname string
--- @return true|nil result
--- @return string err
function os.rename(oldname, newname) end

---
--- Sets the current locale of the program. `locale` is a system-dependent
--- string specifying a locale; `category` is an optional string describing
--- which category to change: `"all"`, `"collate"`, `"ctype"`, `"monetary"`,
--- `"numeric"`, or `"time"`; the default category is `"all"`. The function
--- returns the name of the new locale, or **nil** if the request cannot be
--- honored.
---
--- If `locale` is the empty string, the current locale is set to an
--- implementation-defined native locale. If `locale` is the string "`C`",
--- the current locale is set to the standard C locale.
---
--- When called with **nil** as the first argument, this function only returns
--- the name of the current locale for the given category.
---
--- This function may be not thread safe because of its reliance on C function
--- `setlocale`.
--- @param locale    string
--- @param category? string
--- @return string|nil
function os.setlocale(locale, category) end

---
--- Returns the current time when called without arguments, or a time
--- representing the date and time specified by the given table. This table
--- must have fields `year`, `month`, and `day`, and may have fields `hour`
--- (default is 12), `min` (default is 0), `sec` (default is 0), and `isdst`
--- (default is **nil**). Other fields are ignored. For a description of these
--- fields, see the `os.date` function.
---
--- When the function is called, the values in these fields do not need to be
--- inside their valid ranges. For instance, if `sec` is -10, it means 10 seconds
--- before the time specified by the other fields; if `hour` is 1000, it means
--- 1000 hours after the time specified by the other fields.
---
--- The returned value is a number, whose meaning depends on your system. In
--- POSIX, Windows, and some other systems, this number counts the number of
--- seconds since some given start time (the "epoch"). In other systems, the
--- meaning is not specified, and the number returned by `time` can be used only
--- as an argument to `os.date` and `os.difftime`.
---
--- When called with a table, `os.time` also normalizes all the fields
--- documented in the `os.date` function, so that they represent the same time
--- as before the call but with values inside their valid ranges.
--- @param date? std.osdateparam
--- @return integer
function os.time(date) end

---
--- Returns a string with a file name that can be used for a temporary
--- file. The file must be explicitly opened before its use and explicitly
--- removed when no longer needed.
---
--- On some systems (POSIX), this function also creates a file with that
--- name, to avoid security risks. (Someone else might create the file with
--- wrong permissions in the time between getting the name and creating the
--- file.) You still have to open the file to use it and to remove it (even
--- if you do not use it).
---
--- When possible, you may prefer to use `io.tmpfile`, which automatically
--- removes the file when the program ends.
--- @return string
function os.tmpname() end

return os
