---@meta
-- Copyright (c) 2018. tangzx(love.tangzx@qq.com)
--
-- Licensed under the Apache License, Version 2.0 (the "License"); you may not
-- use this file except in compliance with the License. You may obtain a copy of
-- the License at
--
-- http://www.apache.org/licenses/LICENSE-2.0
--
-- Unless required by applicable law or agreed to in writing, software
-- distributed under the License is distributed on an "AS IS" BASIS, WITHOUT
-- WARRANTIES OR CONDITIONS OF ANY KIND, either express or implied. See the
-- License for the specific language governing permissions and limitations under
-- the License.

--- @class tablelib
table = {}

---
--- Given a list where all elements are strings or numbers, returns the string
--- `list[i]..sep..list[i+1] ... sep..list[j]`. The default value for
--- `sep` is the empty string, the default for `i` is 1, and the default for
--- `j` is #list. If `i` is greater than `j`, returns the empty string.
--- @param list table
--- @param sep? string
--- @param i?   integer
--- @param j?   integer
--- @return string
--- @nodiscard
function table.concat(list, sep, i, j) end

---
--- Inserts element `value` at position `pos` in `list`, shifting up the
--- elements to `list[pos]`, `list[pos+1]`, `···`, `list[#list]`. The default
--- value for `pos` is ``#list+1`, so that a call `table.insert(t,x)`` inserts
--- `x` at the end of list `t`.
--- @overload fun(list: table, value: any)
--- @param list  table
--- @param pos   integer
--- @param value any
function table.insert(list, pos, value) end

--- @version >5.3
---
--- Moves elements from table a1 to table `a2`, performing the equivalent to
--- the following multiple assignment: `a2[t]`,`··· = a1[f]`,`···,a1[e]`. The
--- default for `a2` is `a1`. The destination range can overlap with the source
--- range. The number of elements to be moved must fit in a Lua integer.
---
--- Returns the destination table `a2`.
--- @overload fun(a1: table, f: integer, e: integer, t: integer): table
--- @param a1 table
--- @param f  integer
--- @param e  integer
--- @param t  integer
--- @param a2 table
--- @return table
function table.move(a1, f, e, t, a2) end

--- @version 5.1, JIT
---
--- Returns the largest positive numerical index of the given table, or zero if the table has no positive numerical indices.
---
--- @param table table
--- @return integer
--- @nodiscard
function table.maxn(table) end

---
--- Removes from `list` the element at position `pos`, returning the value of
--- the removed element. When `pos` is an integer between 1 and `#list`, it
--- shifts down the elements `list[pos+1]`, `list[pos+2]`, `···`,
--- `list[#list]` and erases element `list[#list]`; The index pos can also be 0
--- when `#list` is 0, or `#list` + 1; in those cases, the function erases
--- the element `list[pos]`.
---
--- The default value for `pos` is `#list`, so that a call `table.remove(l)`
--- removes the last element of list `l`.
--- @generic V
--- @param list table<integer, V> | V[]
--- @param pos? integer
--- @return V
function table.remove(list, pos) end

---
--- Sorts list elements in a given order, *in-place*, from `list[1]` to
--- `list[#list]`. If `comp` is given, then it must be a function that receives
--- two list elements and returns true when the first element must come before
--- the second in the final order (so that, after the sort, `i < j` implies not
--- `comp(list[j],list[i]))`. If `comp` is not given, then the standard Lua
--- operator `<` is used instead.
---
--- Note that the `comp` function must define a strict partial order over the
--- elements in the list; that is, it must be asymmetric and transitive.
--- Otherwise, no valid sort may be possible.
---
--- The sort algorithm is not stable: elements considered equal by the given
--- order may have their relative positions changed by the sort.
--- @generic V
--- @param list  V[]
--- @param comp? fun(a: V, b: V): boolean
function table.sort(list, comp) end

--- @version >5.2, JIT
---
--- Returns the elements from the given list. This function is equivalent to
--- return `list[i]`, `list[i+1]`, `···`, `list[j]`
--- By default, i is 1 and j is #list.
--- @generic const T, const Start: integer, const End: integer
--- @param i?   Start
--- @param j?   End
--- @param list T
--- @return std.Unpack<T, Start, End>
function table.unpack(list, i, j) end

--- @version >5.2, JIT
---
--- Returns a new table with all arguments stored into keys `1`, `2`, etc. and with a field `"n"` with the total number of arguments.
---
--- @generic T
--- @param ... T...
--- @return [T...]&{ n: integer }
--- @nodiscard
function table.pack(...) end

--- @version 5.1, JIT
---
--- Executes the given f over all elements of table. For each element, f is called with the index and respective value as arguments. If f returns a non-nil value, then the loop is broken, and this value is returned as the final value of foreach.
---
---
--- @generic T
--- @param list     any
--- @param callback fun(key: string, value: any): T | nil
--- @return T?
--- @deprecated
function table.foreach(list, callback) end

--- @version 5.1, JIT
---
--- Executes the given f over the numerical indices of table. For each index, f is called with the index and respective value as arguments. Indices are visited in sequential order, from 1 to n, where n is the size of the table. If f returns a non-nil value, then the loop is broken and this value is returned as the result of foreachi.
---
--- @generic T
--- @param list     any
--- @param callback fun(key: string, value: any): T | nil
--- @return T?
--- @deprecated
function table.foreachi(list, callback) end

--- @version 5.1, JIT
---
--- Returns the number of elements in the table. This function is equivalent to `#list`.
---
--- [View documents](command:extension.lua.doc?["en-us/54/manual.html/pdf-table.getn"])
--- @generic T
--- @param list T[]
--- @return integer
--- @nodiscard
--- @deprecated
function table.getn(list) end

--- Creates a new empty table, preallocating memory. This preallocation may help
--- performance and save memory when you know in advance how many elements the table will have.
--- Parameter `nseq` is a hint for how many elements the table will have as a sequence. Optional parameter `nrec`
--- is a hint for how many other elements the table will have; its default is zero.
--- @version >5.5
--- @param nseq  integer
--- @param nrec? integer
--- @return table
--- @nodiscard
function table.create(nseq, nrec) end

return table
