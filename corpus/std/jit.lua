--- Copy from Lua Sumneko Lua
--- @meta jit
--- @version JIT

--- @version JIT
--- @class jitlib
--- @field version     string
--- @field version_num number
--- @field os          'Windows' | 'Linux' | 'OSX' | 'BSD' | 'POSIX' | 'Other'
--- @field arch        'x86' | 'x64' | 'arm' | 'arm64' | 'arm64be' | 'ppc' | 'ppc64' | 'ppc64le' | 'mips' | 'mipsel' | 'mips64' | 'mips64el' | string
jit = {}

--- @overload fun(...): ... param func       function|boolean
--- @param func       function|boolean
--- @param recursive? boolean
function jit.on(func, recursive) end

--- @overload fun(...): ... param func       function|boolean
--- @param func       function|boolean
--- @param recursive? boolean
function jit.off(func, recursive) end

--- @overload fun(...): ... overload fun(tr: number)
--- @overload fun(tr: number)
--- @param func       function | boolean
--- @param recursive? boolean
function jit.flush(func, recursive) end

--- @return boolean status
--- @return string ...
--- @nodiscard
function jit.status() end

jit.opt = {}

--- @param ... any flags
function jit.opt.start(...) end

return jit
