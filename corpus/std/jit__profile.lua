--- Copy from Lua Sumneko Lua
--- @meta jit.profile
--- @version JIT

local profile = {}

--- @param mode string
--- @param func fun(L: thread, samples: integer, vmst: string)
function profile.start(mode, func) end

function profile.stop() end

--- @overload fun(th: thread, fmt: string, depth: integer)
--- @param fmt   string
--- @param depth integer
function profile.dumpstack(fmt, depth) end

return profile
