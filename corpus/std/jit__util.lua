--- Copy from Lua Sumneko Lua
--- @meta jit.util
--- @version JIT

--- @class Trace
--- @class Proto

local util = {}

--- @class jit.funcinfo.lua
local funcinfo = {
    linedefined = 0,
    lastlinedefined = 0,
    stackslots = 0,
    params = 0,
    bytecodes = 0,
    gcconsts = 0,
    nconsts = 0,
    upvalues = 0,
    currentline = 0,
    isvararg = false,
    children = false,
    source = "",
    loc = "",
    ---@type Proto[]
    proto = {},
}

--- @class jit.funcinfo.c
--- @field ffid integer | nil
local funcinfo2 = {
    addr = 0,
    upvalues = 0,
}

--- @param func function
--- @param pc?  integer
--- @return jit.funcinfo.c|jit.funcinfo.lua info
function util.funcinfo(func, pc) end

--- @param func function
--- @param pc   integer
--- @return integer? ins
--- @return integer? m
function util.funcbc(func, pc) end

--- @param func function
--- @param idx  integer
--- @return any? k
function util.funck(func, idx) end

--- @param func function
--- @param idx  integer
--- @return string? name
function util.funcuvname(func, idx) end

--- @class jit.traceinfo
local traceinfo = {
    nins = 0,
    nk = 0,
    link = 0,
    nexit = 0,
    linktype = "",
}

--- @param tr Trace
--- @return jit.traceinfo? info
function util.traceinfo(tr) end

--- @param tr  Trace
--- @param ref integer
--- @return integer? m
--- @return integer? ot
--- @return integer? op1
--- @return integer? op2
--- @return integer? prev
function util.traceir(tr, ref) end

--- @param tr  Trace
--- @param idx integer
--- @return any? k
--- @return integer? t
--- @return integer? slot
function util.tracek(tr, idx) end

--- @class jit.snap: integer[]

--- @param tr Trace
--- @param sn integer
--- @return jit.snap? snap
function util.tracesnap(tr, sn) end

--- @param tr Trace
--- @return string? mcode
--- @return integer? addr
--- @return integer? loop
function util.tracemc(tr) end

--- @overload fun(exitno: integer): integer
--- @param tr     Trace
--- @param exitno integer
--- @return integer? addr
function util.traceexitstub(tr, exitno) end

--- @param idx integer
--- @return integer? addr
function util.ircalladdr(idx) end

return util
