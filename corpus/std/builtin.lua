--- @meta no-require

-- Copyright (c) 2018. tangzx(love.tangzx@qq.com)
--
-- Licensed under the Apache License, Version 2.0 (the "License"); you may not
-- use this file except in compliance with the License. You may obtain a copy of
-- the License at
--
-- http://www.apache.org/licenses/LICENSE-2.0
--
-- Unless required by applicable law or agreed to in writing, software
-- distributed under the License is distributed on an "AS IS" BASIS, WITHOUT
-- WARRANTIES OR CONDITIONS OF ANY KIND, either express or implied. See the
-- License for the specific language governing permissions and limitations under
-- the License.

-- Built-in Types

---
--- The type *nil* has one single value, **nil**, whose main property is to be
--- different from any other value; it usually represents the absence of a
--- useful value.
--- @class nil

---
--- The type *boolean* has two values, **false** and **true**. Both **nil** and
--- **false** make a condition false; any other value makes it true.
--- @class boolean

---
--- The type *number* uses two internal representations, or two subtypes, one
--- called *integer* and the other called *float*. Lua has explicit rules about
--- when each representation is used, but it also converts between them
--- automatically as needed. Therefore, the programmer may choose to mostly
--- ignore the difference between integers and floats or to assume complete
--- control over the representation of each number. Standard Lua uses 64-bit
--- integers and double-precision (64-bit) floats, but you can also compile
--- Lua so that it uses 32-bit integers and/or single-precision (32-bit)
--- floats. The option with 32 bits for both integers and floats is
--- particularly attractive for small machines and embedded systems. (See
--- macro LUA_32BITS in file luaconf.h.)
--- @class number

--- @class integer

---
--- The type *userdata* is provided to allow arbitrary C data to be stored in
--- Lua variables. A userdata value represents a block of raw memory. There
--- are two kinds of userdata: *full userdata*, which is an object with a block
--- of memory managed by Lua, and *light userdata*, which is simply a C pointer
--- value. Userdata has no predefined operations in Lua, except assignment
--- and identity test. By using *metatables*, the programmer can define
--- operations for full userdata values. Userdata values cannot be
--- created or modified in Lua, only through the C API. This guarantees the
--- integrity of data owned by the host program.
--- @class userdata

--- @class lightuserdata

---
--- The type *thread* represents independent threads of execution and it is
--- used to implement coroutines. Lua threads are not related to
--- operating-system threads. Lua supports coroutines on all systems, even those
--- that do not support threads natively.
--- @class thread

---
--- The type *table* implements associative arrays, that is, arrays that can
--- have as indices not only numbers, but any Lua value except **nil** and NaN.
--- (*Not a Number* is a special floating-point value used by the IEEE 754
--- standard to represent undefined or unrepresentable numerical results, such
--- as `0/0`.) Tables can be heterogeneous; that is, they can contain values of
--- all types (except **nil**). Any key with value **nil** is not considered
--- part oft he table. Conversely, any key that is not part of a table has an
--- a ssociated value **nil**.
---
--- Tables are the sole data-structuring mechanism in Lua; they can be used to
--- represent ordinary arrays, lists, symbol tables, sets, records, graphs,
--- trees, etc. To represent records, Lua uses the field name as an index. The
--- language supports this representation by providing `a.name` as syntactic
--- sugar for `a["name"]`. There are several convenient ways to create tables
--- in Lua.
---
--- Like indices, the values of table fields can be of any type. In particular,
--- because functions are first-class values, table fields can contain functions.
--- Thus tables can also carry *methods*.
---
--- The indexing of tables follows the definition of raw equality in the
--- language. The expressions `a[i]` and `a[j]` denote the same table element
--- if and only if `i` and `j` are raw equal (that is, equal without
--- metamethods). In particular, floats with integral values are equal to
--- their respective integers. To avoid ambiguities, any float with integral
--- value used as a key is converted to its respective integer. For instance,
--- if you write `a[2.0] = true`, the actual key inserted into the table will
--- be the integer `2`. (On the other hand, 2 and "`2`" are different Lua
--- values and therefore denote different table entries.)
--- @class table

--- @class any

--- @class void

--- @class unknown

--- @class never

--- @class self

--- @alias int integer

--- @class namespace<T: string>

--- @class function

--- @alias std.NotNull<T> T -?

--- @alias std.Nullable<T> T +?

---
--- built-in type for Select function
--- @alias std.Select<T, StartOrLen> unknown

---
--- built-in type for Unpack function
--- @alias std.Unpack<T, Start, End> unknown

---
--- built-in type for Rawget
--- @alias std.RawGet<T, K> unknown

--- compact luals

--- @alias type std.type

--- @alias collectgarbage_opt std.collectgarbage_opt

--- @alias metatable std.metatable

--- @alias TypeGuard<T> boolean

--- @alias Language<T: string> string

---
--- Get the parameters of a function as a tuple
--- @alias Parameters<T extends function> T extends (fun(...: infer P): any) and P or never

---
--- Get the parameters of a constructor as a tuple
--- @alias ConstructorParameters<T> T extends new (fun(...: infer P): any) and P or never

--- Get the return type of a function type
--- @alias ReturnType<T extends function> T extends (fun(...: any): infer R) and R or any

---
--- Make all properties in T optional
--- @alias Partial<T> { [P in keyof T]?: T[P]; }

---
--- Exclude from T those types that are assignable to U
--- @alias Exclude<T, U> T extends U and never or T

---
--- Extract from T those types that are assignable to U
--- @alias Extract<T, U> T extends U and T or never

--- attribute

--- @class Attribute

---
--- Deprecated. Receives an optional message parameter.
--- @class deprecated: Attribute
--- @overload fun(message?: string)

---
--- Language Server Optimization Items.
---
--- Parameters:
--- - `skip_table_fields_check`: Skip table field diagnostics. It is recommended to use this option for all large configuration tables.
--- - `delayed_definition`: Indicates that the type of the variable is determined by the first assignment.
---    Only valid for `local` declarations with no initial value.
--- @class lsp_optimization: Attribute
--- @overload fun(code: "skip_table_fields_check" | "delayed_definition")

---
--- Index field alias, will be displayed in `hint` and `completion`.
---
--- Receives a string parameter for the alias name.
--- @class index_alias: Attribute
--- @overload fun(name: string)

---
--- This attribute must be applied to function parameters, and the function parameter's type must be a string template generic,
--- used to specify the default constructor of a class.
---
--- Parameters:
--- - `name`: The name of the method as a constructor.
--- - `root_class`: Used to mark the root class, will implicitly inherit this class, such as `System.Object` in c#. Defaults to empty.
--- - `strip_self`: Whether the `self` parameter can be omitted when calling the constructor, defaults to `true`
--- - `return_mode`: Constructor return strategy. `"self"` forces `self`, `"doc"` uses the documented return type,
---                 and `"default"` prefers the documented return type and falls back to `self`.
---                 Defaults to `"default"`
--- @class constructor: Attribute
--- @overload fun(name: string, root_class?: string, strip_self?: boolean, return_mode?: "self" | "doc" | "default")

---
--- Associates `getter` and `setter` methods with a field. Currently provides only definition navigation functionality,
--- and the target methods must reside within the same class.
---
--- Parameters:
--- - `convention`: Naming convention, defaults to `camelCase`. Implicitly adds `get` and `set` prefixes. eg: `_age` -> `getAge`, `setAge`.
--- - `getter`: Getter method name. Takes precedence over `convention`.
--- - `setter`: Setter method name. Takes precedence over `convention`.
--- @class field_accessor: Attribute
--- @overload fun(convention?: "camelCase" | "PascalCase" | "snake_case", getter?: string, setter?: string)
