---@meta
-- Copyright (c) 2018. tangzx(love.tangzx@qq.com)
--
-- Licensed under the Apache License, Version 2.0 (the "License"); you may not
-- use this file except in compliance with the License. You may obtain a copy of
-- the License at
--
-- http://www.apache.org/licenses/LICENSE-2.0
--
-- Unless required by applicable law or agreed to in writing, software
-- distributed under the License is distributed on an "AS IS" BASIS, WITHOUT
-- WARRANTIES OR CONDITIONS OF ANY KIND, either express or implied. See the
-- License for the specific language governing permissions and limitations under
-- the License.

--- @class debuglib
debug = {}

---
--- Enters an interactive mode with the user, running each string that the user
--- enters. Using simple commands and other debug facilities, the user can
--- inspect global and local variables, change their values, evaluate
--- expressions, and so on. A line containing only the word `cont` finishes this
--- function, so that the caller continues its execution.
---
--- Note that commands for `debug.debug` are not lexically nested within any
--- function, and so have no direct access to local variables.
function debug.debug() end

--- @version 5.1
---
--- Returns the environment of object `o` .
---
--- @param o any
--- @return table
--- @nodiscard
function debug.getfenv(o) end

---
--- Returns the current hook settings of the thread, as three values: the
--- current hook function, the current hook mask, and the current hook count
--- (as set by the `debug.sethook` function).
--- @param thread? thread
--- @return function? hook
--- @return string mask
--- @return integer count
function debug.gethook(thread) end

--- @class debuglib.DebugInfo
--- @field name            string
--- @field namewhat        string
--- @field source          string
--- @field short_src       string
--- @field linedefined     integer
--- @field lastlinedefined integer
--- @field what            string
--- @field currentline     integer
--- @field istailcall      boolean
--- @field nups            integer
--- @field nparams         integer
--- @field isvararg        boolean
--- @field func            function
--- @field ftransfer       integer
--- @field ntransfer       integer
--- @field activelines     table

--- @alias debuglib.InfoWhat
--- |+ "n" # `name`, `namewhat`
--- |+ "S" # `source`, `short_src`, `linedefined`, `lastlinedefined`, `what`
--- |+ "l" # `currentline`
--- |+ "t" # `istailcall`
--- |+ "u" # `nups`, `nparams`, `isvararg`
--- |+ "f" # `func`
--- |+ "r" # `ftransfer`, `ntransfer`
--- |+ "L" # `activelines`
--- | string

---
--- Returns a table with information about a function. You can give the
--- function directly, or you can give a number as the value of `f`,
--- which means the function running at level `f` of the call stack
--- of the given thread: level 0 is the current function (`getinfo` itself);
--- level 1 is the function that called `getinfo` (except for tail calls, which
--- do not count on the stack); and so on. If `f` is a number larger than
--- the number of active functions, then `getinfo` returns **nil**.
---
--- The returned table can contain all the fields returned by `lua_getinfo`,
--- with the string `what` describing which fields to fill in. The default for
--- `what` is to get all information available, except the table of valid
--- lines. If present, the option '`f`' adds a field named `func` with the
--- function itself. If present, the option '`L`' adds a field named
--- `activelines` with the table of valid lines.
---
--- For instance, the expression `debug.getinfo(1,"n").name` returns a table
--- with a name for the current function, if a reasonable name can be found,
--- and the expression `debug.getinfo(print)` returns a table with all available
--- information about the `print` function.
--- @overload fun(f: int|function, what?: debuglib.InfoWhat): debuglib.DebugInfo?
--- @param thread thread
--- @param f      integer|function
--- @param what?  debuglib.InfoWhat
--- @return debuglib.DebugInfo?
--- @nodiscard
function debug.getinfo(thread, f, what) end

--- @version >5.2, JIT
---
--- This function returns the name and the value of the local variable with
--- index `local` of the function at level `level f` of the stack. This function
--- accesses not only explicit local variables, but also parameters,
--- temporaries, etc.
---
--- The first parameter or local variable has index 1, and so on, following the
--- order that they are declared in the code, counting only the variables that
--- are active in the current scope of the function. Negative indices refer to
--- vararg parameters; -1 is the first vararg parameter. The function returns
--- **nil** if there is no variable with the given index, and raises an error
--- when called with a level out of range. (You can call `debug.getinfo` to
--- check whether the level is valid.)
---
--- Variable names starting with '(' (open parenthesis) represent variables with
--- no known names (internal variables such as loop control variables, and
--- variables from chunks saved without debug information).
---
--- The parameter `f` may also be a function. In that case, `getlocal` returns
--- only the name of function parameters.
--- @overload fun(f: integer, integer): string?, any?
--- @overload fun(f: function, integer): string?
--- @overload fun(thread: thread, f: function, integer): string?
--- @param thread thread
--- @param f      integer
--- @param index  integer
--- @return string? name
--- @return any? value
--- @nodiscard
function debug.getlocal(thread, f, index) end

--- @version 5.1
---
--- This function returns the name and the value of the local variable with
--- index `index` of the function at level `level` of the stack. (The first
--- parameter or local variable has index 1, and so on, until the last active
--- local variable). The function returns **nil** if there is no local variable
--- with the given index, and raises an error when called with a level out of
--- range. (You can call `debug.getinfo` to check whether the level is valid.)
---
--- Variable names starting with `'('` (open parentheses) represent internal
--- variables (loop control variables, temporaries, and C function locals).
--- @overload fun(f: integer, integer): string, any
--- @param thread thread
--- @param lvl    integer
--- @param index  integer
--- @return string? name
--- @return any? value
--- @nodiscard
function debug.getlocal(thread, lvl, index) end

---
--- Returns the metatable of the given `value` or **nil** if it does not have
--- a metatable.
--- @param object any
--- @return table?
--- @nodiscard
function debug.getmetatable(object) end

---
--- Returns the registry table.
--- @return table
--- @nodiscard
function debug.getregistry() end

---
--- This function returns the name and the value of the upvalue with index
--- `up` of the function `f`. The function returns **nil** if there is no
--- upvalue with the given index.
---
--- Variable names starting with '(' (open parenthesis) represent variables with
--- no known names (variables from chunks saved without debug information).
--- @param f  function
--- @param up integer
--- @return string? name
--- @return any? value
--- @nodiscard
function debug.getupvalue(f, up) end

---
--- Returns the `n`-th user value associated to the userdata `u` plus a boolean,
--- **false** if the userdata does not have that value.
--- @param u userdata
--- @param n integer
--- @return any
--- @return boolean
function debug.getuservalue(u, n) end

---
--- ### **Deprecated in `Lua 5.4.2`**
---
--- Sets a new limit for the C stack. This limit controls how deeply nested calls can go in Lua, with the intent of avoiding a stack overflow.
---
--- In case of success, this function returns the old limit. In case of error, it returns `false`.
---
---
--- @deprecated
--- @param limit integer
--- @return integer|boolean
function debug.setcstacklimit(limit) end

---
--- Sets the environment of the given `object` to the given `table` .
---
--- @version 5.1, JIT
--- @generic T
--- @param object T
--- @param env    table
--- @return T object
function debug.setfenv(object, env) end

--- @alias debuglib.Hookmask
--- |+ "c" # Calls hook when Lua calls a function.
--- |+ "r" # Calls hook when Lua returns from a function.
--- |+ "l" # Calls hook when Lua enters a new line of code.

---
--- Sets the given function as a hook. The string `mask` and the number `count`
--- describe when the hook will be called. The string mask may have any
--- combination of the following characters, with the given meaning:
---
--- * `"c"`: the hook is called every time Lua calls a function;
--- * `"r"`: the hook is called every time Lua returns from a function;
--- * `"l"`: the hook is called every time Lua enters a new line of code.
---
--- Moreover, with a `count` different from zero, the hook is called after every
--- `count` instructions.
---
--- When called without arguments, `debug.sethook` turns off the hook.
---
--- When the hook is called, its first parameter is a string describing
--- the event that has triggered its call: `"call"`, (or `"tail
--- call"`), `"return"`, `"line"`, and `"count"`. For line events, the hook also
--- gets the new line number as its second parameter. Inside a hook, you can
--- call `getinfo` with level 2 to get more information about the running
--- function (level 0 is the `getinfo` function, and level 1 is the hook
--- function)
--- @param thread? thread
--- @param hook?   fun(event: string): any
--- @param mask?   debuglib.Hookmask | string
--- @param count?  integer
function debug.sethook(thread, hook, mask, count) end

---
--- This function assigns the value `value` to the local variable with
--- index `local` of the function at level `level` of the stack. The function
--- returns **nil** if there is no local variable with the given index, and
--- raises an error when called with a `level` out of range. (You can call
--- `getinfo` to check whether the level is valid.) Otherwise, it returns the
--- name of the local variable.
--- @overload fun(level: integer, index: integer, value: any): string?
--- @param thread thread
--- @param level  integer
--- @param index  integer
--- @param value  any
--- @return string?
function debug.setlocal(thread, level, index, value) end

---
--- Sets the metatable for the given `object` to the given `table` (which
--- can be **nil**). Returns value.
--- @generic T
--- @param value T
--- @param meta? table
--- @return T value
--- @overload fun(value: table, meta: T): T
function debug.setmetatable(value, meta) end

---
--- This function assigns the value `value` to the upvalue with index `up`
--- of the function `f`. The function returns **nil** if there is no upvalue
--- with the given index. Otherwise, it returns the name of the upvalue.
--- @param f     fun(): any
--- @param up    integer
--- @param value any
--- @return string?
function debug.setupvalue(f, up, value) end

--- Sets the given `value` as the `n`-th associated to the given `udata`.
--- `udata` must be a full userdata.
---
--- Returns `udata`, or **nil** if the userdata does not have that value.
--- @param udata userdata
--- @param value any
--- @param n     integer
--- @return userdata?
function debug.setuservalue(udata, value, n) end

--- @version 5.1, JIT
---
--- Returns a string with a traceback of the call stack. An optional message
--- string is appended at the beginning of the traceback. An optional level
--- number tells at which level to start the traceback (default is 1, the
--- function calling traceback).
--- @overload fun(): string
--- @overload fun(message?: string, level?: integer): string
--- @param thread?  thread
--- @param message? string
--- @param level?   integer
--- @return string
function debug.traceback(thread, message, level) end

--- @version > 5.2
---
--- If message is present but is neither a string nor nil, this function
--- returns message without further processing. Otherwise, it returns a string
--- with a traceback of the call stack. The optional message string is appended
--- at the beginning of the traceback. An optional level number tells at which
--- level to start the traceback (default is 1, the function calling traceback).
--- @generic T
--- @overload fun(): string
--- @overload fun(message?: string, level?: integer): string
--- @overload fun(message: T, level?: integer): T
--- @overload fun(thread: thread): string
--- @overload fun(thread: thread, message?: string, level?: integer): string
--- @overload fun(thread: thread, message: T, level?: integer): T
--- @param thread?  thread
--- @param message? string|T
--- @param level?   integer
--- @return string
function debug.traceback(thread, message, level) end

--- Returns a unique identifier (as a light userdata) for the upvalue numbered
--- `n` from the given function.
---
--- These unique identifiers allow a program to check whether different
--- closures share upvalues. Lua closures that share an upvalue (that is, that
--- access a same external local variable) will return identical ids for those
--- upvalue indices.
--- @version >5.2, JIT
--- @param f function
--- @param n integer
--- @return lightuserdata id
--- @nodiscard
function debug.upvalueid(f, n) end

---
--- Make the `n1`-th upvalue of the Lua closure f1 refer to the `n2`-th upvalue
--- of the Lua closure f2.
--- @version >5.2, JIT
--- @param f1 fun(): any
--- @param n1 integer
--- @param f2 fun(): any
--- @param n2 integer
function debug.upvaluejoin(f1, n1, f2, n2) end
