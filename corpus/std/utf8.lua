--- @meta
--- @version >5.3

-- Copyright (c) 2018. tangzx(love.tangzx@qq.com)
--
-- Licensed under the Apache License, Version 2.0 (the "License"); you may not
-- use this file except in compliance with the License. You may obtain a copy of
-- the License at
--
-- http://www.apache.org/licenses/LICENSE-2.0
--
-- Unless required by applicable law or agreed to in writing, software
-- distributed under the License is distributed on an "AS IS" BASIS, WITHOUT
-- WARRANTIES OR CONDITIONS OF ANY KIND, either express or implied. See the
-- License for the specific language governing permissions and limitations under
-- the License.

--- @version >5.3
--- @class utf8lib
utf8 = {}

---
--- Receives zero or more integers, converts each one to its corresponding
--- UTF-8 byte sequence and returns a string with the concatenation of all
--- these sequences.
--- @return string
function utf8.char(...) end

---
--- The pattern (a string, not a function) "`[\0-\x7F\xC2-\xF4][\x80-\xBF]*`",
--- which matches exactly one UTF-8 byte sequence, assuming that the subject
--- is a valid UTF-8 string.
--- @type string
utf8.charpattern = ""

---
--- Returns values so that the construction
--- > `for p, c in utf8.codes(s) do` *body* `end`
--- will iterate over all characters in string `s`, with `p` being the position
--- (in bytes) and `c` the code point of each character. It raises an error if
--- it meets any invalid byte sequence.
--- @param s string
--- @return fun(s: string, i?: integer): integer, integer
function utf8.codes(s) end

--- @version >5.4
--- @param s    string
--- @param lax? boolean
--- @return fun(s: string, i?: integer): integer, integer
function utf8.codes(s, lax) end

---
--- Returns the codepoints (as integers) from all characters in `s` that start
--- between byte position `i` and `j` (both included). The default for `i` is
--- 1 and for `j` is `i`. It raises an error if it meets any invalid byte
--- sequence.
--- @overload fun(s: string): integer
--- @param s  string
--- @param i? integer
--- @param j? integer
--- @return integer
function utf8.codepoint(s, i, j) end

--- @version >5.4
--- @overload fun(s: string): integer
--- @param s    string
--- @param i?   integer
--- @param j?   integer
--- @param lax? boolean
--- @return integer
function utf8.codepoint(s, i, j, lax) end

---
--- Returns the number of UTF-8 characters in string `s` that start between
--- positions `i` and `j` (both inclusive). The default for `i` is 1 and for
--- `j` is -1. If it finds any invalid byte sequence, returns a false value
--- plus the position of the first invalid byte.
--- @param s  string
--- @param i? integer
--- @param j? integer
--- @return_overload integer
--- @return_overload nil, integer errpos
--- @nodiscard
function utf8.len(s, i, j) end

--- @version >5.4
--- @param s    string
--- @param i?   integer
--- @param j?   integer
--- @param lax? boolean
--- @return_overload integer
--- @return_overload nil, integer errpos
--- @nodiscard
function utf8.len(s, i, j, lax) end

---
--- Returns the position (in bytes) where the encoding of the `n`-th character
--- of `s` (counting from position `i`) starts. A negative `n` gets
--- characters before position `i`. The default for `i` is 1 when `n` is
--- non-negative and `#s + 1` otherwise, so that `utf8.offset(s, -n)` gets the
--- offset of the `n`-th character from the end of the string. If the
--- specified character is neither in the subject nor right after its end,
--- the function returns nil. As a special case, when `n` is 0 the function
--- returns the start of the encoding of the character that contains the `i`-th
--- byte of `s`.
---
--- This function assumes that `s` is a valid UTF-8 string.
--- @overload fun(s: string): integer
--- @param s  string
--- @param n  integer
--- @param i? integer
--- @return integer
function utf8.offset(s, n, i) end
