--- Copy from Lua Sumneko Lua
--- @meta table.new
--- @version JIT

--- @version JIT
---
--- This creates a pre-sized table, just like the C API equivalent `lua_createtable()`. This is useful for big tables if the final table size is known and automatic table resizing is too expensive. `narray` parameter specifies the number of array-like items, and `nhash` parameter specifies the number of hash-like items. The function needs to be required before use.
--- ```lua
---    require("table.new")
--- ```
---
---
--- [View documents](command:extension.lua.doc?["en-us/54/manual.html/pdf-table.new"])
---
--- @param narray integer
--- @param nhash  integer
--- @return table
local function new(narray, nhash) end

return new
