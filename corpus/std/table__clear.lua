--- Copy from Lua Sumneko Lua
--- @meta table.clear
--- @version JIT

--- @version JIT
---
--- This clears all keys and values from a table, but preserves the allocated array/hash sizes. This is useful when a table, which is linked from multiple places, needs to be cleared and/or when recycling a table for use by the same context. This avoids managing backlinks, saves an allocation and the overhead of incremental array/hash part growth. The function needs to be required before use.
--- ```lua
---    require("table.clear").
--- ```
--- Please note this function is meant for very specific situations. In most cases it's better to replace the (usually single) link with a new table and let the GC do its work.
---
---
--- [View documents](command:extension.lua.doc?["en-us/54/manual.html/pdf-table.clear"])
---
--- @param tab table
local function clear(tab) end

return clear
