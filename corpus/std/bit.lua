--- Copy from Lua Sumneko Lua
--- @meta bit
--- @version JIT

--- @version JIT
--- @class bitlib
bit = {}

--- @param x integer
--- @return integer y
--- @nodiscard
function bit.tobit(x) end

--- @param x  integer
--- @param n? integer
--- @return string y
--- @nodiscard
function bit.tohex(x, n) end

--- @param x integer
--- @return integer y
--- @nodiscard
function bit.bnot(x) end

--- @param x   integer
--- @param x2  integer
--- @param ... integer
--- @return integer y
--- @nodiscard
function bit.bor(x, x2, ...) end

--- @param x   integer
--- @param x2  integer
--- @param ... integer
--- @return integer y
--- @nodiscard
function bit.band(x, x2, ...) end

--- @param x   integer
--- @param x2  integer
--- @param ... integer
--- @return integer y
--- @nodiscard
function bit.bxor(x, x2, ...) end

--- @param x integer
--- @param n integer
--- @return integer y
--- @nodiscard
function bit.lshift(x, n) end

--- @param x integer
--- @param n integer
--- @return integer y
--- @nodiscard
function bit.rshift(x, n) end

--- @param x integer
--- @param n integer
--- @return integer y
--- @nodiscard
function bit.arshift(x, n) end

--- @param x integer
--- @param n integer
--- @return integer y
--- @nodiscard
function bit.rol(x, n) end

--- @param x integer
--- @param n integer
--- @return integer y
--- @nodiscard
function bit.ror(x, n) end

--- @param x integer
--- @return integer y
--- @nodiscard
function bit.bswap(x) end

return bit
