---@meta
-- Copyright (c) 2018. tangzx(love.tangzx@qq.com)
--
-- Licensed under the Apache License, Version 2.0 (the "License"); you may not
-- use this file except in compliance with the License. You may obtain a copy of
-- the License at
--
-- http://www.apache.org/licenses/LICENSE-2.0
--
-- Unless required by applicable law or agreed to in writing, software
-- distributed under the License is distributed on an "AS IS" BASIS, WITHOUT
-- WARRANTIES OR CONDITIONS OF ANY KIND, either express or implied. See the
-- License for the specific language governing permissions and limitations under
-- the License.

--- @class coroutinelib
coroutine = {}

---
--- Creates a new coroutine, with body `f`. `f` must be a Lua function. Returns
--- this new coroutine, an object with type `"thread"`.
--- @param f async fun(...): any...
--- @return thread
--- @nodiscard
function coroutine.create(f) end

---
--- Returns true when the running coroutine can yield.
---
--- A running coroutine is yieldable if it is not the main thread and it is not
--- inside a non-yieldable C function.
--- @param co? thread
--- @return boolean
--- @nodiscard
function coroutine.isyieldable(co) end

--- @version >5.4
---
--- Closes coroutine `co` , closing all its pending to-be-closed variables and putting the coroutine in a dead state.
---
--- @param co thread
--- @return boolean noerror
--- @return any errorobject
function coroutine.close(co) end

---
--- Starts or continues the execution of coroutine `co`. The first time you
--- resume a coroutine, it starts running its body. The values `val1`, ...
--- are passed as the arguments to the body function. If the coroutine has
--- yielded, `resume` restarts it; the values `val1`, ... are passed as the
--- results from the yield.
---
--- If the coroutine runs without any errors, `resume` returns **true** plus any
--- values passed to `yield` (when the coroutine yields) or any values returned
--- by the body function (when the coroutine terminates). If there is any error,
--- `resume` returns **false** plus the error message.
--- @param co    thread
--- @param val1? any
--- @param ...   any
--- @return boolean success
--- @return any ...
function coroutine.resume(co, val1, ...) end

--- @version 5.1, JIT
---
--- Returns the running coroutine, or nil when called by the main thread.
--- @return thread?
--- @nodiscard
function coroutine.running() end

--- @version >5.2
---
--- Returns the running coroutine plus a boolean, true when the running
--- coroutine is the main one.
--- @return thread, boolean
--- @nodiscard
function coroutine.running() end

---
--- Returns the status of coroutine `co`, as a string: "`running`", if the
--- coroutine is running (that is, it called `status`); "`suspended`", if the
--- coroutine is suspended in a call to `yield`, or if it has not started
--- running yet; "`normal`" if the coroutine is active but not running (that
--- is, it has resumed another coroutine); and "`dead`" if the coroutine has
--- finished its body function, or if it has stopped with an error.
--- @param co thread
--- @return
--- | "running" # Is running.
--- | "suspended" # Is suspended or not started.
--- | "normal" # Is active but not running.
--- | "dead" # Has finished or stopped with an error.
--- @nodiscard
function coroutine.status(co) end

---
--- Creates a new coroutine, with body `f`. `f` must be a Lua function. Returns
--- a function that resumes the coroutine each time it is called. Any arguments
--- passed to the function behave as the extra arguments to `resume`. Returns
--- the same values returned by `resume`, except the first
--- boolean. In case of error, propagates the error.
--- @param f async fun(...): any...
--- @return fun(...): any...
--- @nodiscard
function coroutine.wrap(f) end

---
--- Suspends the execution of the calling coroutine. Any arguments to `yield`
--- are passed as extra results to `resume`.
--- @async
--- @param ... any
--- @return any ...
function coroutine.yield(...) end
