--- Copy from Lua Sumneko Lua

--- @meta bit32
--- @version 5.2

--- @version 5.2
---
---
---
--- [View documents](command:extension.lua.doc?["en-us/54/manual.html/pdf-bit32"])
---
--- @class bit32lib
bit32 = {}

---
--- Returns the number `x` shifted `disp` bits to the right. Negative displacements shift to the left.
---
--- This shift operation is what is called arithmetic shift. Vacant bits on the left are filled with copies of the higher bit of `x`; vacant bits on the right are filled with zeros.
---
---
--- [View documents](command:extension.lua.doc?["en-us/54/manual.html/pdf-bit32.arshift"])
---
--- @param x    integer
--- @param disp integer
--- @return integer
--- @nodiscard
function bit32.arshift(x, disp) end

---
--- Returns the bitwise *and* of its operands.
---
--- [View documents](command:extension.lua.doc?["en-us/54/manual.html/pdf-bit32.band"])
---
--- @return integer
--- @nodiscard
function bit32.band(...) end

---
--- Returns the bitwise negation of `x`.
---
--- ```lua
--- assert(bit32.bnot(x) ==
--- (-1 - x) % 2^32)
--- ```
---
---
--- [View documents](command:extension.lua.doc?["en-us/54/manual.html/pdf-bit32.bnot"])
---
--- @param x integer
--- @return integer
--- @nodiscard
function bit32.bnot(x) end

---
--- Returns the bitwise *or* of its operands.
---
--- [View documents](command:extension.lua.doc?["en-us/54/manual.html/pdf-bit32.bor"])
---
--- @return integer
--- @nodiscard
function bit32.bor(...) end

---
--- Returns a boolean signaling whether the bitwise *and* of its operands is different from zero.
---
--- [View documents](command:extension.lua.doc?["en-us/54/manual.html/pdf-bit32.btest"])
---
--- @return boolean
--- @nodiscard
function bit32.btest(...) end

---
--- Returns the bitwise *exclusive or* of its operands.
---
--- [View documents](command:extension.lua.doc?["en-us/54/manual.html/pdf-bit32.bxor"])
---
--- @return integer
--- @nodiscard
function bit32.bxor(...) end

---
--- Returns the unsigned number formed by the bits `field` to `field + width - 1` from `n`.
---
--- [View documents](command:extension.lua.doc?["en-us/54/manual.html/pdf-bit32.extract"])
---
--- @param n      integer
--- @param field  integer
--- @param width? integer
--- @return integer
--- @nodiscard
function bit32.extract(n, field, width) end

---
--- Returns a copy of `n` with the bits `field` to `field + width - 1` replaced by the value `v` .
---
--- [View documents](command:extension.lua.doc?["en-us/54/manual.html/pdf-bit32.replace"])
---
--- @param n      integer
--- @param v      integer
--- @param field  integer
--- @param width? integer
--- @nodiscard
function bit32.replace(n, v, field, width) end

---
--- Returns the number `x` rotated `disp` bits to the left. Negative displacements rotate to the right.
---
--- [View documents](command:extension.lua.doc?["en-us/54/manual.html/pdf-bit32.lrotate"])
---
--- @param x     integer
--- @param distp integer
--- @return integer
--- @nodiscard
function bit32.lrotate(x, distp) end

---
--- Returns the number `x` shifted `disp` bits to the left. Negative displacements shift to the right. In any direction, vacant bits are filled with zeros.
---
--- ```lua
--- assert(bit32.lshift(b, disp) ==
--- (b * 2^disp) % 2^32)
--- ```
---
---
--- [View documents](command:extension.lua.doc?["en-us/54/manual.html/pdf-bit32.lshift"])
---
--- @param x     integer
--- @param distp integer
--- @return integer
--- @nodiscard
function bit32.lshift(x, distp) end

---
--- Returns the number `x` rotated `disp` bits to the right. Negative displacements rotate to the left.
---
--- [View documents](command:extension.lua.doc?["en-us/54/manual.html/pdf-bit32.rrotate"])
---
--- @param x     integer
--- @param distp integer
--- @return integer
--- @nodiscard
function bit32.rrotate(x, distp) end

---
--- Returns the number `x` shifted `disp` bits to the right. Negative displacements shift to the left. In any direction, vacant bits are filled with zeros.
---
--- ```lua
--- assert(bit32.rshift(b, disp) ==
--- math.floor(b % 2^32 / 2^disp))
--- ```
---
---
--- [View documents](command:extension.lua.doc?["en-us/54/manual.html/pdf-bit32.rshift"])
---
--- @param x     integer
--- @param distp integer
--- @return integer
--- @nodiscard
function bit32.rshift(x, distp) end

return bit32
