---@meta
-- Copyright (c) 2018. tangzx(love.tangzx@qq.com)
--
-- Licensed under the Apache License, Version 2.0 (the "License"); you may not
-- use this file except in compliance with the License. You may obtain a copy of
-- the License at
--
-- http://www.apache.org/licenses/LICENSE-2.0
--
-- Unless required by applicable law or agreed to in writing, software
-- distributed under the License is distributed on an "AS IS" BASIS, WITHOUT
-- WARRANTIES OR CONDITIONS OF ANY KIND, either express or implied. See the
-- License for the specific language governing permissions and limitations under
-- the License.

--- @class iolib
io = {}

---
--- Equivalent to `file:close()`. Without a file, closes the default output
--- file.
--- @param file? file
function io.close(file) end

---
--- Equivalent to `io.output():flush()`.
function io.flush() end

---
--- When called with a file name, it opens the named file (in text mode), and
--- sets its handle as the default input file. When called with a file handle,
--- it simply sets this file handle as the default input file. When called
--- without parameters, it returns the current default input file.
---
--- In case of errors this function raises the error, instead of returning an
--- error code.
--- @param file? file | string
--- @return file
function io.input(file) end

---
--- Opens the given file name in read mode and returns an iterator function
--- works like `file:lines(···)` over the opened file. When the iterator
--- function detects the end of file, it returns no values (to finish the loop)
--- and automatically closes the file.
---
--- The call `io.lines()` (with no file name) is equivalent to `io.input():lines
--- ()`; that is, it iterates over the lines of the default
--- input file. In this case, the iterator does not close the file when the loop
--- ends.
---
--- In case of errors this function raises the error, instead of returning an
--- error code.
--- @param filename? string
--- @return fun(): any
function io.lines(filename, ...) end

--- @alias iolib.OpenMode "r" | "w" | "a" | "r+" | "w+" | "a+" | "rb" | "wb" | "ab" | "rb+" | "wb+" | "ab+" | "r+b" | "w+b" | "a+b"

---
--- This function opens a file, in the mode specified in the string `mode`. In
--- case of success, it returns a new file handle. The `mode` string can be
--- any of the following:
---
--- **"r"**: read mode (the default);
--- **"w"**: write mode;
--- **"a"**: append mode;
--- **"r+"**: update mode, all previous data is preserved;
--- **"w+"**: update mode, all previous data is erased;
--- **"a+"**: append update mode, previous data is preserved, writing is only
--- allowed at the end of file.
---
--- The `mode` string can also have a '`b`' at the end, which is needed in
--- some systems to open the file in binary mode.
--- @param filename string
--- @param mode?    iolib.OpenMode
--- @return_overload file
--- @return_overload nil, string err
function io.open(filename, mode) end

---
--- Similar to `io.input`, but operates over the default output file.
--- @param file? file | string
--- @return file
function io.output(file) end

---
--- This function is system dependent and is not available on all platforms.
---
--- Starts program `prog` in a separated process and returns a file handle that
--- you can use to read data from this program (if `mode` is "`r`", the default)
--- or to write data to this program (if `mode` is "`w`").
--- @param prog  string
--- @param mode? string | 'r' | 'w'
--- @return file
function io.popen(prog, mode) end

--- @alias std.readmode
--- | integer
--- | string
--- | "n"  # Reads a number, returning a float or integer based on Lua's conversion grammar.
--- | "a"  # Reads the entire file starting from the current position.
--- | "l"  # Reads a line and ignores the end-of-line marker.
--- | "L"  # Reads a line and preserves the end-of-line marker.
--- | "*n" # Reads a number, returning a float or integer based on Lua's conversion grammar.
--- | "*a" # Reads the entire file starting from the current position.
--- | "*l" # Reads a line and ignores the end-of-line marker.
--- | "*L" # Reads a line and preserves the end-of-line marker.

---
--- Equivalent to `io.input():read(···)`.
--- @param ... std.readmode
--- @return any
--- @return any ...
--- @nodiscard
function io.read(...) end

---
--- In case of success, returns a handle for a temporary file. This file is
--- opened in update mode and it is automatically removed when the program ends.
--- @return file
function io.tmpfile() end

---
--- Checks whether `obj` is a valid file handle. Returns the string "`file`"
--- if `obj` is an open file handle, "`closed file`" if `obj` is a closed file
--- handle, or **nil** if `obj` is not a file handle.
--- @param obj file
--- @return 'file'|'closed file'|nil
function io.type(obj) end

---
--- Equivalent to `io.output():write(···)`.
--- @param ... string | number
--- @return_overload file
--- @return_overload nil, string err
function io.write(...) end

--- File object
--- @class file
local file = {}

--- @version >5.2
---
--- Closes `file`. Note that files are automatically closed when their
--- handles are garbage collected, but that takes an unpredictable amount of
--- time to happen.
---
--- When closing a file handle created with `io.popen`, `file:close` returns the
--- same values returned by `os.execute`.
--- @return_overload true, 'exit' | 'signal', integer
--- @return_overload nil, 'exit' | 'signal', integer
function file:close() end

--- @version 5.1, JIT
---
--- Closes `file`. Note that files are automatically closed when their
--- handles are garbage collected, but that takes an unpredictable amount of
--- time to happen.
--- @return_overload true
--- @return_overload nil, string err
function file:close() end

---
--- Saves any written data to `file`.
--- @return_overload true
--- @return_overload nil, string err
function file:flush() end

---
--- Returns an iterator function that, each time it is called, reads the file
--- according to the given formats. When no format is given, uses "l" as a
--- default. As an example, the construction
--- `for c in file:lines(1) do *body* end`
--- will iterate over all characters of the file, starting at the current
--- position. Unlike `io.lines`, this function does not close the file when the
--- loop ends.
---
--- In case of errors this function raises the error, instead of returning an
--- error code.
--- @return fun(): string|integer|nil
function file:lines(...) end

-- TODO: file:read() can accept vararg params and return varargs

---
--- Reads the file `file`, according to the given formats, which specify
--- what to read. For each format, the function returns a string or a number
--- with the characters read, or **nil** if it cannot read data with the
--- specified format. (In this latter case, the function does not read
--- subsequent formats.) When called without parameters, it uses a default
--- format that reads the next line (see below).
--- -
--- The available formats are:
--- **"n"**: reads a numeral and returns it as a float or an integer, following
--- the lexical conventions of Lua. (The numeral may have leading spaces and a
--- sign.) This format always reads the longest input sequence that is a valid
--- prefix for a numeral; if that prefix does not form a valid numeral (e.g., an
--- empty string, "`0x`", or "`3.4e-`"), it is discarded and the format returns
--- **nil**;
--- **"a"**: reads the whole file, starting at the current position. On end of
--- file, it returns the empty string;
--- **"l"**: reads the next line skipping the end of line, returning **nil** on
--- end of file. This is the default format.
--- **"L"**: reads the next line keeping the end-of-line character (if present),
--- returning **nil** on end of file;
--- *number*: reads a string with up to this number of bytes, returning **nil**
--- on end of file. If `number` is zero, it reads nothing and returns an
--- empty string, or **nil** on end of file.
--- @param ... std.readmode
--- @return any
--- @return any ...
--- @nodiscard
function file:read(...) end

---
--- Sets and gets the file position, measured from the beginning of the
--- file, to the position given by `offset` plus a base specified by the string
--- `whence`, as follows:
--- **"set"**: base is position 0 (beginning of the file);
--- **"cur"**: base is current position;
--- **"end"**: base is end of file;
---
--- In case of success, `seek` returns the final file position, measured in
--- bytes from the beginning of the file. If `seek` fails, it returns **nil**,
--- plus a string describing the error.
---
--- The default value for `whence` is "`cur`", and for `offset` is 0. Therefore,
--- the call `file:seek()` returns the current file position, without changing
--- it; the call `file:seek("set")` sets the position to the beginning of the
--- file (and returns 0); and the call `file:seek("end")` sets the position
--- to the end of the file, and returns its size.
--- @overload fun()
--- @param whence string | 'set' | 'cur' | 'end'
--- @param offset integer
--- @return_overload integer pos
--- @return_overload nil, string err
function file:seek(whence, offset) end

---
--- Sets the buffering mode for an output file. There are three available
--- modes:
--- **"no"**: no buffering; the result of any output operation appears
--- immediately.
--- **"full"**: full buffering; output operation is performed only when the
--- buffer is full (or when you explicitly `flush` the file (see `io.flush`)).
--- **"line"**: line buffering; output is buffered until a newline is output or
--- there is any input from some special files (such as a terminal device).
---
--- For the last two cases, `size` specifies the size of the buffer, in
--- bytes. The default is an appropriate size.
--- @param mode  string | 'no' | 'full' | 'line'
--- @param size? integer
function file:setvbuf(mode, size) end

---
--- Writes the value of each of its arguments to the `file`. The arguments
--- must be strings or numbers.
---
--- In case of success, this function returns `file`. Otherwise it returns
--- **nil** plus a string describing the error.
--- @param ... string | number
--- @return_overload file
--- @return_overload nil, string err
function file:write(...) end

--- `io.stderr`: Standard error.
--- @type file
io.stderr = nil

--- `io.stdin`: Standard in.
--- @type file
io.stdin = nil

--- `io.stdout`: Standard out.
--- @type file
io.stdout = nil
