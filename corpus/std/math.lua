---@meta
-- Copyright (c) 2018. tangzx(love.tangzx@qq.com)
--
-- Licensed under the Apache License, Version 2.0 (the "License"); you may not
-- use this file except in compliance with the License. You may obtain a copy of
-- the License at
--
-- http://www.apache.org/licenses/LICENSE-2.0
--
-- Unless required by applicable law or agreed to in writing, software
-- distributed under the License is distributed on an "AS IS" BASIS, WITHOUT
-- WARRANTIES OR CONDITIONS OF ANY KIND, either express or implied. See the
-- License for the specific language governing permissions and limitations under
-- the License.

--- @class mathlib
math = {}

---
--- Returns the maximum value between `x` and `-x`. (integer/float)
--- @overload fun(x: integer): integer
--- @param x number
--- @return number
function math.abs(x) end

---
--- Returns the arc cosine of `x` (in radians).
--- @param x number
--- @return number
function math.acos(x) end

---
--- Returns the arc sine of `x` (in radians).
--- @param x number
--- @return number
function math.asin(x) end

---
--- Returns the arc tangent of `y/x` (in radians), but uses the signs of both
--- parameters to find the quadrant of the result. (It also handles correctly
--- the case of `x` being zero.)
---
--- The default value for `x` is 1, so that the call `math.atan(y)`` returns the
--- arc tangent of `y`.
--- @param y  number
--- @param x? number
--- @return number
function math.atan(y, x) end

---
--- Returns the smallest integer larger than or equal to `x`.
--- @param x number
--- @return integer
function math.ceil(x) end

---
--- Returns the cosine of `x` (assumed to be in radians).
--- @param x number
--- @return number
function math.cos(x) end

---
--- Converts the angle `x` from radians to degrees.
--- @param x number
--- @return number
function math.deg(x) end

---
--- Returns the value *e^x* (where e is the base of natural logarithms).
--- @param x number
--- @return number
function math.exp(x) end

---
--- Returns the largest integer smaller than or equal to `x`.
--- @param x number
--- @return integer
function math.floor(x) end

---
--- Returns the remainder of the division of `x` by `y` that rounds the
--- quotient towards zero. (integer/float)
--- @param x number
--- @param y number
--- @return number
function math.fmod(x, y) end

---
--- The float value `HUGE_VAL`, a value larger than any other numeric value.
--- it is INF value, more than math.maxinteger.
--- @type number
math.huge = nil

---
--- Returns the logarithm of `x` in the given base. The default for `base` is
--- *e* (so that the function returns the natural logarithm of `x`).
--- @param x     number
--- @param base? number
--- @return number
function math.log(x, base) end

---
--- Returns the argument with the maximum value, according to the Lua operator
--- `<`. (integer/float)
--- @overload fun(x: integer, ...: integer): integer
--- @param x   number
--- @param ... number
--- @return number
function math.max(x, ...) end

--- @version >5.3
---
--- An integer with the maximum value for an integer.
--- @type integer
math.maxinteger = nil

---
--- Returns the argument with the minimum value, according to the Lua operator
--- `<`. (integer/float)
--- @overload fun(x: integer, ...: integer): integer
--- @param x   number
--- @param ... number
--- @return number
function math.min(x, ...) end

--- @version >5.3
---
--- An integer with the minimum value for an integer.
--- @type integer
math.mininteger = nil

---
--- Returns the integral part of `x` and the fractional part of `x`. Its second
--- result is always a float.
--- @param x number
--- @return integer
--- @return number
function math.modf(x) end

---
--- The value of π.
math.pi = 3.1415

---
--- Converts the angle `x` from degrees to radians.
--- @param x number
--- @return number
function math.rad(x) end

---
--- When called without arguments, returns a pseudo-random float with uniform
--- distribution in the range *[0,1)*. When called with two integers `m` and
--- `n`, `math.random` returns a pseudo-random integer with uniform distribution
--- in the range *[m, n]*. The call `math.random(n)` is equivalent to `math
--- .random`(1,n).
--- @overload fun(): number
--- @overload fun(m: integer): integer
--- @param m integer
--- @param n integer
--- @return integer
function math.random(m, n) end

--- @version 5.1, 5.2, 5.3
---
--- Sets `x` as the "seed" for the pseudo-random generator: equal seeds
--- produce equal sequences of numbers.
--- @param x integer
function math.randomseed(x) end

--- @version > 5.4
---
--- When called with at least one argument, the integer parameters `x` and `y`
--- are joined into a 128-bit seed that is used to reinitialize the pseudo-random
--- generator; equal seeds produce equal sequences of numbers. The default for
--- `y` is zero.
---
--- When called with no arguments, Lua generates a seed with a weak attempt
--- for randomness.
---
--- This function returns the two seed components that were effectively used,
--- so that setting them again repeats the sequence.
--- @param x? integer
--- @param y? integer
--- @return integer, integer
function math.randomseed(x, y) end

---
--- Returns the sine of `x` (assumed to be in radians).
--- @param x number
--- @return number
function math.sin(x)
    return 0
end

---
--- Returns the square root of `x`. (You can also use the expression `x^0.5` to
--- compute this value.)
--- @param x number
--- @return number
function math.sqrt(x)
    return 0
end

---
--- Returns the tangent of `x` (assumed to be in radians).
--- @param x number
--- @return number
function math.tan(x)
    return 0
end

--- @version >5.3
---
--- If the value `x` is convertible to an integer, returns that integer.
--- Otherwise, returns `nil`.
--- @param x any
--- @return integer?
function math.tointeger(x) end

--- @version >5.3
---
--- Returns "`integer`" if `x` is an integer, "`float`" if it is a float, or
--- **nil** if `x` is not a number.
--- @param x any
--- @return 'integer'|'float'|nil
function math.type(x) end

--- @version >5.3
---
--- Returns a boolean, true if and only if integer `m` is below integer `n` when
--- they are compared as unsigned integers.
--- @param m number
--- @param n number
--- @return boolean
function math.ult(m, n) end

--- @version 5.1, 5.2, JIT
---
--- Returns the value of `x` raised to the power `y`. (x^y)
--- @param x number The base
--- @param y number The exponent
--- @return number
function math.pow(x, y) end

--- @version 5.1, 5.2, JIT
---
--- Returns the arc tangent of `y/x` (in radians), but uses the signs of both
--- parameters to find the quadrant of the result. (It also handles correctly
--- the case of `x` being zero.)
---
--- Note: In some Lua implementations, this function is equivalent to `math.atan(y, x)`.
--- @param y number
--- @param x number
--- @return number
function math.atan2(y, x) end

--- @version 5.1, JIT
---
--- Returns the base-10 logarithm of `x`.
--- @param x number
--- @return number
function math.log10(x) end

--- @version 5.1, 5.2, JIT
---
--- Returns the hyperbolic cosine of `x`.
--- @param x number
--- @return number
function math.cosh(x) end

--- @version 5.1, 5.2, JIT
---
--- Returns the hyperbolic sine of `x`.
--- @param x number
--- @return number
function math.sinh(x) end

--- @version 5.1, 5.2, JIT
---
--- Returns the hyperbolic tangent of `x`.
--- @param x number
--- @return number
function math.tanh(x) end

--- @version 5.1, 5.2, JIT
---
--- Returns `m` and `e` such that *x = m2^e*, `e` is an integer and the absolute
--- value of `m` is in the range *[0.5, 1)* (or zero when `x` is zero).
--- @param x number
--- @return number, integer
function math.frexp(x) end

--- @version 5.1, 5.2, JIT
---
--- Returns *m2e* (`e` should be an integer).
--- @param m number
--- @param e integer
--- @return number
function math.ldexp(m, e) end

return math
