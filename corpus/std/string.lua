---@meta
-- Copyright (c) 2018. tangzx(love.tangzx@qq.com)
--
-- Licensed under the Apache License, Version 2.0 (the "License"); you may not
-- use this file except in compliance with the License. You may obtain a copy of
-- the License at
--
-- http://www.apache.org/licenses/LICENSE-2.0
--
-- Unless required by applicable law or agreed to in writing, software
-- distributed under the License is distributed on an "AS IS" BASIS, WITHOUT
-- WARRANTIES OR CONDITIONS OF ANY KIND, either express or implied. See the
-- License for the specific language governing permissions and limitations under
-- the License.

---
--- The type *string* represents immutable sequences of bytes. Lua is 8-bit
--- clean: strings can contain any 8-bit value, including embedded zeros
--- ('`\0`'). Lua is also encoding-agnostic; it makes no assumptions about
--- the contents of a string.
--- @class (partial) string
string = {}

---
--- Returns the internal numerical codes of the characters `s[i]`, `s[i+1]`,
--- ..., `s[j]`. The default value for `i` is 1; the default value for `j`
--- is `i`. These indices are corrected following the same rules of function
--- `string.sub`.
---
--- Note that numerical codes are not necessarily portable across platforms.
--- @param s  string
--- @param i? integer
--- @param j? integer
--- @return integer
function string.byte(s, i, j) end

---
--- Receives zero or more integers. Returns a string with length equal to
--- the number of arguments, in which each character has the internal numerical
--- code equal to its corresponding argument.
---
--- Note that numerical codes are not necessarily portable across platforms.
--- @param ... integer
--- @return string
function string.char(...) end

---
--- Returns a string containing a binary representation (*a binary chunk*) of
--- the given function, so that a later `load` on this string returns a
--- copy of the function (but with new upvalues). If strip is a true value, the
--- binary representation may not include all debug information about the
--- function, to save space.
---
--- Functions with upvalues have only their number of upvalues saved. When (re)
--- loaded, those upvalues receive fresh instances containing **nil**. (You can
--- use the debug library to serialize and reload the upvalues of a function in
--- a way adequate to your needs.)
--- @param func   function
--- @param strip? boolean
--- @return string
function string.dump(func, strip) end

---
--- Looks for the first match of `pattern` in the string `s`. If it finds a
--- match, then `find` returns the indices of `s` where this occurrence starts
--- and ends; otherwise, it returns **nil**. A third, optional numerical
--- argument `init` specifies where to start the search; its default value is 1
--- and can be negative. A value of **true** as a fourth, optional argument
--- `plain` turns off the pattern matching facilities, so the function does a
--- plain "find substring" operation, with no characters in `pattern` being
--- considered "magic". Note that if `plain` is given, then `init` must be given
--- as well.
---
--- If the pattern has captures, then in a successful match the captured values
--- are also returned, after the two indices.
--- @param s       string | number
--- @param pattern string | number
--- @param init?   integer
--- @param plain?  boolean
--- @return integer? start
--- @return integer? end
--- @return string?... captured
--- @nodiscard
function string.find(s, pattern, init, plain) end

---
--- Returns a formatted version of its variable number of arguments following
--- the description given in its first argument (which must be a string). The
--- format string follows the same rules as the ISO C function `sprintf`. The
--- only differences are that the options/modifiers `*`, `h`, `L`, `l`, `n`, and
--- `p` are not supported and that there is an extra option, `q`.
---
--- The `q` option formats booleans, nil, numbers, and strings in a way that the
--- result is a valid constant in Lua source code. Booleans and nil are written
--- in the obvious way (`true`, `false`, `nil`). Floats are written in
--- hexadecimal, to preserve full precision. A string is written between double
--- quotes, using escape sequences when necessary to ensure that it can safely
--- be read back by the Lua interpreter. For instance, the call
---
--- string.format('%q', 'a string with "quotes" and \n new line') may produce
--- the string:
---
--- > "a string with \"quotes\" and \
--- > new line"
---
--- The options `A`, `a`, `E`, `e`, `f`, `g`, `G` and `g` all expect a number as
--- argument. Options `c`, `d`, `i`, `o`, `u`, `X`, and `x` expect an integer.
--- When Lua is compiled with a C89 compiler, options `A` and `a` (hexadecimal
--- floats) do not support any modifier (flags, width, length).
---
--- Option `s` expects a string; if its argument is not a string, it is
--- converted to one following the same rules of `tostring`. If the option
--- has any modifier (flags, width, length), the string argument should not
--- contain embedded zeros.
--- @param fmt string
--- @param ... any
--- @return string
--- @nodiscard
function string.format(fmt, ...) end

---
--- Returns an iterator function that, each time it is called, returns the
--- next captures from `pattern` over the string `s`. If `pattern` specifies no
--- captures, then the whole match is produced in each call.
---
--- As an example, the following loop will iterate over all the words from
--- string `s`, printing one per line:
---
--- `s = "hello world from Lua"`
--- `for w in string.gmatch(s, "%a+") do`
---  > `print(w)`
--- `end`
---
--- The next example collects all pairs `key=value` from the given string into a
--- table:
---
--- `t = {}`
---  s = "from=world, to=Lua"`
--- `for k, v in string.gmatch(s, "(%w+)=(%w+)") do`
---  > `t[k] = v`
--- `end`
---
--- For this function, a caret '`^`' at the start of a pattern does not work as
--- an anchor, as this would prevent the iteration.
--- @param s       string
--- @param pattern string
--- @return fun(): string?...
function string.gmatch(s, pattern) end

---
--- Returns an iterator function that, each time it is called, returns the
--- next captures from `pattern` over the string `s`. If `pattern` specifies no
--- captures, then the whole match is produced in each call. A third,
--- optional numeric argument init specifies where to start the search;
--- its default value is 1 and can be negative.
---
--- As an example, the following loop will iterate over all the words from
--- string `s`, printing one per line:
---
--- `s = "hello world from Lua"`
--- `for w in string.gmatch(s, "%a+") do`
---  > `print(w)`
--- `end`
---
--- The next example collects all pairs `key=value` from the given string into a
--- table:
---
--- `t = {}`
---  s = "from=world, to=Lua"`
--- `for k, v in string.gmatch(s, "(%w+)=(%w+)") do`
---  > `t[k] = v`
--- `end`
---
--- For this function, a caret '`^`' at the start of a pattern does not work as
--- an anchor, as this would prevent the iteration.
--- @version >5.4
--- @param s       string
--- @param pattern string
--- @param init?   integer
--- @return fun():string?...
function string.gmatch(s, pattern, init) end

---
--- Returns a copy of `s` in which all (or the first `n`, if given)
--- occurrences of the `pattern` have been replaced by a replacement string
--- specified by `repl`, which can be a string, a table, or a function. `gsub`
--- also returns, as its second value, the total number of matches that
--- occurred.
---
--- If `repl` is a string, then its value is used for replacement. The character
--- `%` works as an escape character: any sequence in `repl` of the form `%n`,
--- with *n* between 1 and 9, stands for the value of the *n*-th captured
--- substring (see below). The sequence `%0` stands for the whole match. The
--- sequence `%%` stands for a single `%`.
---
--- If `repl` is a table, then the table is queried for every match, using
--- the first capture as the key; if the pattern specifies no captures, then
--- the whole match is used as the key.
---
--- If `repl` is a function, then this function is called every time a match
--- occurs, with all captured substrings passed as arguments, in order; if
--- the pattern specifies no captures, then the whole match is passed as a
--- sole argument.
---
--- If the value returned by the table query or by the function call is a
--- string or a number, then it is used as the replacement string; otherwise,
--- if it is false or nil, then there is no replacement (that is, the original
--- match is kept in the string).
---
--- Here are some examples:
--- `x = string.gsub("hello world", "(%w+)", "%1 %1")`
--- `-- > x="hello hello world world"`
--- `x = string.gsub("hello world", "%w+", "%0 %0", 1)`
--- `-- > x="hello hello world"`
--- `x = string.gsub("hello world from Lua", "(%w+)%s*(%w+)", "%2 %1")`
--- `-- > x="world hello Lua from"`
--- `x = string.gsub("home = $HOME, user = $USER", "%$(%w+)", os.getenv)`
--- `-- > x="home = /home/roberto, user = roberto"`
--- `x = string.gsub("4+5 = $return 4+5$", "%$(.-)%$", function (s)`
---  >> return loadstring(s)()
---  > end)
--- `-- > x="4+5 = 9"`
--- `local t = {name="lua", version="5.3"}`
--- `x = string.gsub("$name-$version.tar.gz", "%$(%w+)", t)`
--- > x="lua-5.3.tar.gz"
--- @param s       string | number
--- @param pattern string | number
--- @param repl    string | number | table | fun(param: string)
--- @param n?      integer
--- @return string
--- @return integer count
function string.gsub(s, pattern, repl, n) end

---
--- Receives a string and returns its length. The empty string `""` has
--- length 0. Embedded zeros are counted, so `"a\000bc\000"` has length 5.
--- @param s string
--- @return integer
function string.len(s) end

---
--- Receives a string and returns a copy of this string with all uppercase
--- letters changed to lowercase. All other characters are left unchanged. The
--- definition of what an uppercase letter is depends on the current locale.
--- @param s string
--- @return string
function string.lower(s) end

---
--- Looks for the first *match* of `pattern` in the string `s`. If it
--- finds one, then `match` returns the captures from the pattern; otherwise
--- it returns **nil**. If `pattern` specifies no captures, then the whole match
--- is returned. A third, optional numerical argument `init` specifies where
--- to start the search; its default value is 1 and can be negative.
--- @param s       string
--- @param pattern string
--- @param init?   integer
--- @return string?...
function string.match(s, pattern, init) end

--- @version >5.3
---
--- Returns a binary string containing the values `v1`, `v2`, etc. packed (that
--- is, serialized in binary form) according to the format string `fmt`.
--- @param fmt string
--- @param v1  string | number | integer
--- @param v2? string | number | integer
--- @param ... string | number | integer
--- @return string
function string.pack(fmt, v1, v2, ...) end

--- @version >5.3
---
--- Returns the size of a string resulting from `string.pack` with the given
--- format. The format string cannot have the variable-length options '`s`' or
--- '`z`'
--- @param fmt string
--- @return integer
function string.packsize(fmt) end

---
--- Returns a string that is the concatenation of `n` copies of the string
--- `s` separated by the string `sep`. The default value for `sep` is the empty
--- string (that is, no separator). Returns the empty string if n is not
--- positive.
---
--- Note that it is very easy to exhaust the memory of your machine with a
--- single call to this function.
--- @param s    string
--- @param n    integer
--- @param sep? string
--- @return string
function string.rep(s, n, sep) end

---
--- Returns a string that is the string `s` reversed.
--- @param s string
--- @return string
function string.reverse(s) end

---
--- Returns the substring of `s` that starts at `i` and continues until
--- `j`; `i` and `j` can be negative. If `j` is absent, then it is assumed to
--- be equal to -1 (which is the same as the string length). In particular,
--- the call `string.sub(s,1,j)` returns a prefix of `s` with length `j`, and
--- `string.sub(s, -i)` (for a positive i) returns a suffix of `s` with length
--- `i`.
---
--- If, after the translation of negative indices, `i` is less than 1, it is
--- corrected to 1. If `j` is greater than the string length, it is corrected to
--- that length. If, after these corrections, `i` is greater than `j`, the
--- function returns the empty string.
--- @param s  string | number
--- @param i  integer
--- @param j? integer
--- @return string
--- @nodiscard
function string.sub(s, i, j) end

--- @version >5.3
---
--- Returns the values packed in string `s` according to the format string
--- `fmt`. An optional `pos` marks where to start reading in `s` (default is 1).
--- After the read values, this function also returns the index of the first
--- unread byte in `s`.
--- @param fmt  string
--- @param s    string
--- @param pos? integer
--- @return any ...
--- @return integer offset
function string.unpack(fmt, s, pos) end

---
--- Receives a string and returns a copy of this string with all lowercase
--- letters changed to uppercase. All other characters are left unchanged. The
--- definition of what a lowercase letter is depends on the current locale.
--- @param s string
--- @return string
function string.upper(s) end
