---@meta no-require
-- Copyright (c) 2018. tangzx(love.tangzx@qq.com)
--
-- Licensed under the Apache License, Version 2.0 (the "License"); you may not
-- use this file except in compliance with the License. You may obtain a copy of
-- the License at
--
-- http://www.apache.org/licenses/LICENSE-2.0
--
-- Unless required by applicable law or agreed to in writing, software
-- distributed under the License is distributed on an "AS IS" BASIS, WITHOUT
-- WARRANTIES OR CONDITIONS OF ANY KIND, either express or implied. See the
-- License for the specific language governing permissions and limitations under
-- the License.

---
--- Calls error if the value of its argument `v` is false (i.e., **nil** or
--- **false**); otherwise, returns all its arguments. In case of error,
--- `message` is the error object; when absent, it defaults to "assertion
--- failed!"
--- @generic T, T1
--- @param v   T
--- @param ... T1...
--- @return std.NotNull<T>, T1...
function assert(v, ...) end

--- @alias std.collectgarbage_opt
--- |> "collect"      # performs a full garbage-collection cycle. This is the default option.
--- | "stop"         # stops automatic execution of the garbage collector. The collector will run only when explicitly invoked, until a call to restart it.
--- | "restart"      # restarts automatic execution of the garbage collector.
--- | "count"        # returns the total memory in use by Lua in Kbytes. The value has a fractional part, so that it multiplied by 1024 gives the exact number of bytes in use by Lua (except for overflows).
--- | "step"         # performs a garbage-collection step. The step "size" is controlled by `arg`. With a zero value, the collector will perform one basic (indivisible) step. For non-zero values, the collector will perform as if Lua had allocated that amount of memory (in KBytes). Returns true if the step finished a collection cycle.
--- | "setpause"     # sets `arg` as the new value for the *pause* of the collector (see §2.5). Returns the previous value for *pause*.
--- | "setstepmul"   # sets `arg` as the new value for the *step multiplier* of the collector (see §2.5). Returns the previous value for *step*.
--- | "incremental"  # Change the collector mode to incremental. This option can be followed by three numbers: the garbage-collector pause, the step multiplier, and the step size.
--- | "generational" # Change the collector mode to generational. This option can be followed by two numbers: the garbage-collector minor multiplier and the major multiplier.
--- | "isrunning"    # returns a boolean that tells whether the collector is running (i.e., not stopped).

--- @alias std.collectgarbage.param
--- | "minormul"   # minor multiplier
--- | "majorminor" # major/minor ratio
--- | "minormajor" # minor/major ratio
--- | "pause"      # collector pause
--- | "stepmul"    # step multiplier
--- | "stepsize"   # step size

---
--- This function is a generic interface to the garbage collector. It performs
--- different functions according to its first argument, `opt`:
---
--- **"collect"**: performs a full garbage-collection cycle. This is the default
--- option.
--- **"stop"**: stops automatic execution of the garbage collector. The
--- collector will run only when explicitly invoked, until a call to restart it.
--- **"restart"**: restarts automatic execution of the garbage collector.
--- **"count"**: returns the total memory in use by Lua in Kbytes. The value has
--- a fractional part, so that it multiplied by 1024 gives the exact number of
--- bytes in use by Lua (except for overflows).
--- **"step"**: performs a garbage-collection step. The step "size" is
--- controlled by `arg`. With a zero value, the collector will perform one basic
--- (indivisible) step. For non-zero values, the collector will perform as if
--- that amount of memory (in KBytes) had been allocated by Lua. Returns
--- **true** if the step finished a collection cycle.
--- **"setpause"**: sets `arg` as the new value for the *pause* of the collector
--- (see §2.5). Returns the previous value for *pause`.
--- **"incremental"**: Change the collector mode to incremental. This option can
--- be followed by three numbers: the garbage-collector pause, the step
--- multiplier, and the step size.
--- **"generational"**: Change the collector mode to generational. This option
--- can be followed by two numbers: the garbage-collector minor multiplier and
--- the major multiplier.
--- **"isrunning"**: returns a boolean that tells whether the collector is
--- running (i.e., not stopped).
--- @overload fun(opt: "param", param: std.collectgarbage.param, value: integer): integer
--- @param opt? std.collectgarbage_opt
--- @param ...  any
--- @return any
function collectgarbage(opt, ...) end

---
--- Opens the named file and executes its contents as a Lua chunk. When called
--- without arguments, `dofile` executes the contents of the standard input
--- (`stdin`). Returns all values returned by the chunk. In case of errors,
--- `dofile` propagates the error to its caller (that is, `dofile` does not run
--- in protected mode).
--- @param filename? string
--- @return any ...
function dofile(filename) end

---
--- Terminates the last protected function called and returns `message` as the
--- error object. Function `error` never returns. Usually, `error` adds some
--- information about the error position at the beginning of the message, if the
--- message is a string. The `level` argument specifies how to get the error
--- position. With level 1 (the default), the error position is where the
--- `error` function was called. Level 2 points the error to where the function
--- that called `error` was called; and so on. Passing a level 0 avoids the
--- addition of error position information to the message.
--- @param message any
--- @param level?  integer
function error(message, level) end

---
--- A global variable (not a function) that holds the global environment. Lua
--- itself does not use this variable; changing its value does not affect any
--- environment, nor vice versa.
--- @type global
_G = {}

---
--- If `object` does not have a metatable, returns **nil**. Otherwise, if the
--- object's metatable has a `"__metatable"` field, returns the associated
--- value. Otherwise, returns the metatable of the given object.
--- @param object any
--- @return any
function getmetatable(object) end

---
--- Returns three values (an iterator function, the table `t`, and 0) so that
--- the construction
--- > `for i,v in ipairs(t) do` *body* `end`
--- will iterate over the key–value pairs (1,`t[1]`), (2,`t[2]`), ..., up to
--- the first absent index.
--- @generic V
--- @param t V[] | table<int, V> | { [int]: V }
--- @return fun(tbl: any): int, V
function ipairs(t) end

--- @alias std.loadmode
--- | "b"  # only binary chunks
--- | "t"  # only text chunks
--- | "bt" # both binary and text

---
--- Loads a chunk.
--- If `chunk` is a string, the chunk is this string. If `chunk` is a function,
--- `load` calls it repeatedly to get the chunk pieces. Each call to `chunk`
--- must return a string that concatenates with previous results. A return of
--- an empty string, **nil**, or no value signals the end of the chunk.
---
--- If there are no syntactic errors, returns the compiled chunk as a function;
--- otherwise, returns **nil** plus the error message.
---
--- If the resulting function has upvalues, the first upvalue is set to the
--- value of `env`, if that parameter is given, or to the value of the global
--- environment. Other upvalues are initialized with **nil**. (When you load a
--- main chunk, the resulting function will always have exactly one upvalue, the
--- _ENV variable. However, when you load a binary chunk created from a
--- function (see string.dump), the resulting function can have an arbitrary
--- number of upvalues.) All upvalues are fresh, that is, they are not shared
--- with any other function.
---
--- `chunkname` is used as the name of the chunk for error messages and debug
--- information. When absent, it defaults to `chunk`, if `chunk` is a string,
--- or to "=(`load`)" otherwise.
---
--- The string `mode` controls whether the chunk can be text or binary (that is,
--- a precompiled chunk). It may be the string "b" (only binary chunks), "t"
--- (only text chunks), or "bt" (both binary and text). The default is "bt".
---
--- Lua does not check the consistency of binary chunks. Maliciously crafted
--- binary chunks can crash the interpreter.
--- @param chunk      (fun(...: any): string) | Language<"Lua">
--- @param chunkname? string
--- @param mode?      std.loadmode
--- @param env?       table
--- @return_overload function chunk
--- @return_overload nil, string error_message
--- @nodiscard
function load(chunk, chunkname, mode, env) end

---
--- Loads a chunk from the given string.
---
--- @version 5.1, JIT
--- @param text       Language<"Lua">
--- @param chunkname? string
--- @return_overload function chunk
--- @return_overload nil, string error_message
--- @nodiscard
function loadstring(text, chunkname) end

---
--- Similar to `load`, but gets the chunk from file `filename` or from the
--- standard input, if no file name is given.
--- @param filename? string
--- @param mode?     std.loadmode
--- @param env?      table
--- @return_overload function chunk
--- @return_overload nil, string error_message
function loadfile(filename, mode, env) end

--- @version 5.1, JIT
--- @param proxy boolean | table | userdata
--- @return userdata
function newproxy(proxy) end

--- @version 5.1, JIT
---
--- Creates a module.
---
---
--- @param name string
--- @param ...  any
function module(name, ...) end

---
--- Allows a program to traverse all fields of a table. Its first argument is
--- a table and its second argument is an index in this table. `next` returns
--- the next index of the table and its associated value. When called with
--- **nil** as its second argument, `next` returns an initial index and its
--- associated value. When called with the last index, or with **nil** in an
--- empty table, `next` returns **nil**. If the second argument is absent, then
--- it is interpreted as **nil**. In particular, you can use `next(t)` to check
--- whether a table is empty.
---
--- The order in which the indices are enumerated is not specified, *even for
--- numeric indices*. (To traverse a table in numerical order, use a numerical
--- **for**.)
---
--- The behavior of `next` is undefined if, during the traversal, you assign
--- any value to a non-existent field in the table. You may however modify
--- existing fields. In particular, you may set existing fields to nil.
--- @generic K, V
--- @overload fun(table: table<K, V>): K?, V?
--- @param table  table<K, V> | V[] | { [K]: V }
--- @param index? K
--- @return K?, V?
function next(table, index) end

---
--- If `t` has a metamethod `__pairs`, calls it with `t` as argument and returns
--- the first three results from the call.
---
--- Otherwise, returns three values: the `next` function, the table `t`, and
--- **nil**, so that the construction
--- `for k,v in pairs(t) do *body* end`
--- will iterate over all key–value pairs of table `t`.
---
--- See function `next` for the caveats of modifying the table during its
--- traversal.
--- @generic K, V, I
--- @param t table<K, V> | V[] | { [K]: V }
--- @return (fun(tbl: table<I, V>, index: I?): K, V), table<I, V>, I?
function pairs(t) end

---
--- Calls function `f` with the given arguments in *protected mode*. This
--- means that any error inside `f` is not propagated; instead, `pcall` catches
--- the error and returns a status code. Its first result is the status code (a
--- boolean), which is true if the call succeeds without errors. In such case,
--- `pcall` also returns all results from the call, after this first result. In
--- case of any error, `pcall` returns **false** plus the error message.
--- @generic T, R
--- @param f   sync fun(...: T...): R...
--- @param ... T...
--- @return_overload true, R...
--- @return_overload false, string
function pcall(f, ...) end

---
--- Receives any number of arguments, and prints their values to `stdout`,
--- using the `tostring` function to convert them to strings. `print` is not
--- intended for formatted output, but only as a quick way to show a value,
--- for instance for debugging. For complete control over the output, use
--- `string.format` and `io.write`.
function print(...) end

---
--- Checks whether `v1` is equal to `v2`, without the `__eq` metamethod. Returns
--- a boolean.
--- @param v1 any
--- @param v2 any
--- @return boolean
function rawequal(v1, v2) end

---
--- Gets the real value of `table[index]`, the `__index` metamethod. `table`
--- must be a table; `index` may be any value.
--- @generic const T, const K
--- @param table T
--- @param index K
--- @return std.RawGet<T, K>
function rawget(table, index) end

--- @version >5.2
---
--- Returns the length of the object `v`, which must be a table or a string, without
--- invoking any metamethod. Returns an integer number.
--- @param v string | table
--- @return integer
function rawlen(v) end

---
--- Sets the real value of `table[index]` to `value`, without invoking the
--- `__newindex` metamethod. `table` must be a table, `index` any value
--- different from **nil** and NaN, and `value` any Lua value.
--- @param table table
--- @param index any
--- @param value any
--- @return table
function rawset(table, index, value) end

---
--- Loads the given module. The function starts by looking into the
--- 'package.loaded' table to determine whether `modname` is already
--- loaded. If it is, then `require` returns the value stored at
--- `package.loaded[modname]`. Otherwise, it tries to find a *loader* for
--- the module.
---
--- To find a loader, `require` is guided by the `package.searchers` sequence.
--- By changing this sequence, we can change how `require` looks for a module.
--- The following explanation is based on the default configuration for
--- `package.searchers`.
---
--- First `require` queries `package.preload[modname]`. If it has a value,
--- this value (which should be a function) is the loader. Otherwise `require`
--- searches for a Lua loader using the path stored in `package.path`. If
--- that also fails, it searches for a C loader using the path stored in
--- `package.cpath`. If that also fails, it tries an *all-in-one* loader (see
--- `package.loaders`).
---
--- Once a loader is found, `require` calls the loader with a two argument:
--- `modname` and an extra value dependent on how it got the loader. (If the
--- loader came from a file, this extra value is the file name.) If the loader
--- returns any non-nil value, require assigns the returned value to
--- `package.loaded[modname]`. If the loader does not return a non-nil value and
--- has not assigned any value to `package.loaded[modname]`, then `require`
--- assigns true to this entry. In any case, require returns the final value of
--- `package.loaded[modname]`.
---
--- If there is any error loading or running the module, or if it cannot find
--- any loader for the module, then `require` raises an error.
--- @param modname string
--- @return any
function require(modname) end

---
--- If `index` is a number, returns all arguments after argument number
--- `index`. a negative number indexes from the end (-1 is the last argument).
--- Otherwise, `index` must be the string "#", and `select` returns
--- the total number of extra arguments it received.
--- @generic T, const Num: integer | '#'
--- @param index Num
--- @param ...   T...
--- @return std.Select<T..., Num>
function select(index, ...) end

--- @class std.metatable
--- @field __mode?      'v' | 'k' | 'kv'
--- @field __metatable? any
--- @field __tostring?  (fun(t): string)
--- @field __gc?        fun(t)
--- @field __add?       fun(t1, t2): any
--- @field __sub?       fun(t1, t2): any
--- @field __mul?       fun(t1, t2): any
--- @field __div?       fun(t1, t2): any
--- @field __mod?       fun(t1, t2): any
--- @field __pow?       fun(t1, t2): any
--- @field __unm?       fun(t): any
--- @field __idiv?      fun(t1, t2): any
--- @field __band?      fun(t1, t2): any
--- @field __bor?       fun(t1, t2): any
--- @field __bxor?      fun(t1, t2): any
--- @field __bnot?      fun(t): any
--- @field __shl?       fun(t1, t2): any
--- @field __shr?       fun(t1, t2): any
--- @field __concat?    fun(t1, t2): any
--- @field __len?       fun(t): integer
--- @field __eq?        fun(t1, t2): boolean
--- @field __lt?        fun(t1, t2): boolean
--- @field __le?        fun(t1, t2): boolean
--- @field __index?     table | fun(t, k): any
--- @field __newindex?  table | fun(t, k, v)
--- @field __call?      fun(t, ...): any...
--- @field __pairs?     fun(t): ((fun(t, k, v): any, any), any, any)
--- @field __close?     fun(t, errobj): any

-- NOTE: The actual implementation of setmetatable is provided by the language server

---
--- Sets the metatable for the given table. (To change the metatable of other
--- types from Lua code, you must use the debug library.) If `metatable`
--- is **nil**, removes the metatable of the given table. If the original
--- metatable has a `"__metatable"` field, raises an error.
---
--- This function returns `table`.
--- @generic T: table
--- @param table     T
--- @param metatable std.metatable | table | nil
--- @return T
function setmetatable(table, metatable) end

---
--- When called with no `base`, `tonumber` tries to convert its argument to a
--- number. If the argument is already a number or a string convertible to a
--- number, then `tonumber` returns this number; otherwise, it returns **nil**.
---
--- The conversion of strings can result in integers or floats, according to the
--- lexical conventions of Lua. (The string may have leading and trailing
--- spaces and a sign.)
---
--- When called with `base`, then e must be a string to be interpreted as an
--- integer numeral in that base. The base may be any integer between 2 and 36,
--- inclusive. In bases above 10, the letter 'A' (in either upper or lower case)
--- represents 10, 'B' represents 11, and so forth, with 'Z' representing 35. If
--- the string `e` is not a valid numeral in the given base, the function
--- returns **nil**.
--- @overload fun(e: string, base: integer): integer?
--- @param e any
--- @return number?
--- @nodiscard
function tonumber(e) end

---
--- Receives a value of any type and converts it to a string in a human-readable
--- format. (For complete control of how numbers are converted, use `string
--- .format`).
---
--- If the metatable of `v` has a `__tostring` field, then `tostring` calls
--- the corresponding value with `v` as argument, and uses the result of the
--- call as its result.
--- @param v any
--- @return string
function tostring(v) end

--- @alias std.type
--- | "nil"
--- | "number"
--- | "string"
--- | "boolean"
--- | "table"
--- | "function"
--- | "thread"
--- | "userdata"

---
--- Returns the type of its only argument, coded as a string. The possible
--- results of this function are "`nil`" (a string, not the value **nil**),
--- "`number`", "`string`", "`boolean`", "`table`", "`function`", "`thread`",
--- and "`userdata`".
--- @param v any
--- @return std.type type
function type(v) end

---
--- A global variable (not a function) that holds a string containing the
--- running Lua version. The current value of this variable is "`Lua 5.5`".
_VERSION = "Lua 5.5"

---
--- This function is similar to `pcall`, except that it sets a new message
--- handler `msgh`.
--- @generic T, R
--- @param f    sync fun(...: T...): R...
--- @param msgh fun(err: any): any
--- @param ...  T...
--- @return boolean, R...
function xpcall(f, msgh, ...) end

--- @version 5.1, JIT
---
--- @generic const T, const Start: integer, const End: integer
--- @param i?   Start
--- @param j?   End
--- @param list T
--- @return std.Unpack<T, Start, End>
function unpack(list, i, j) end

--- @version >5.4
---
--- Emits a warning with a message composed by the concatenation of all its arguments (which should be strings).
---
--- By convention, a one-piece message starting with '@' is intended to be a control message,
--- which is a message to the warning system itself. In particular,
--- the standard warning function in Lua recognizes the control messages "@off", to stop the emission of warnings,
--- and "@on", to (re)start the emission; it ignores unknown control messages.
--- @param msg1 string | number
--- @param ...  string | number
function warn(msg1, ...) end

--- @type string[]
arg = {}

--- This is an incorrect annotation, but truly supporting _ENV would completely break the variable analysis path.
--- For now, let's treat it as a global variable.
--- @version >5.3
--- @type global
_ENV = {}

--- @version 5.1, JIT
---
--- Sets the environment for the specified function.
--- @param f   function | integer The function for which the environment is to be set.
--- @param env table              The environment table to assign to the function.
function setfenv(f, env) end

--- @version 5.1, JIT
---
--- Retrieves the environment table of the specified function.
--- @param f function | integer The function whose environment is to be retrieved.
--- @return table The environment table associated with the given function.
function getfenv(f) end
