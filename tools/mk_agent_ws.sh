#!/bin/bash
# tools/mk_agent_ws.sh <name>   -> /var/tmp/ag/<name>/{verif,repo} git worktrees (branches ag-<name>)
set -e
N="$1"; B="/var/tmp/ag/$N"
mkdir -p "$B"
git -C /verif worktree add -q "$B/verif" -b "ag-$N" 2>/dev/null || git -C /verif worktree add -q "$B/verif" "ag-$N"
git -C /repo worktree add -q "$B/repo" -b "ag-$N" 2>/dev/null || git -C /repo worktree add -q "$B/repo" "ag-$N"
cd "$B/verif"
sed -i "s|/repo/crates/|$B/repo/crates/|g" harness/Cargo.toml
git update-index --skip-worktree harness/Cargo.toml
echo "$B"
