#!/usr/bin/env python3
"""tools/keep_all_seeded.py - store every confirmed seeded mutant (scratch worktrees /tmp/mut/<ID>) under /verif/seeded/<ID>/.
Inputs: /tmp/mut/<ID> (mutant + demo commits), /tmp/mut/demos.txt, agent reports /var/tmp/ag/reports/<ID>.md,
evaluation logs /var/tmp/ag/q/eval_<ID>.log or /tmp/mut/eval_<ID>.log, confirmation logs."""
import subprocess, json, os, re, sys
EXTRA = json.load(open(sys.argv[1])) if len(sys.argv) > 1 else {}
def git(wt, *a): return subprocess.check_output(["git", "-C", wt, *a], text=True)
def needs_of(ID):
    t = open(f"/var/tmp/ag/reports/{ID}.md").read()
    m = re.search(r'(?is)\*\*[^*\n]*(needed|manifest|takes|trigger|required)[^*\n]*\*\*[:.]?(.*?)(?=\n\*\*|\n\|\s*State|\Z)', t)
    sec = (m.group(2) if m else t[:900]).strip()
    sec = re.sub(r'\s+', ' ', sec.replace('`', "'"))
    return sec[:1100]
def verdict_of(ID):
    for f in (f"/var/tmp/ag/q/eval_{ID}.log", f"/tmp/mut/eval_{ID}.log"):
        if os.path.exists(f):
            ls = [l for l in open(f) if re.match(r'C\d\d (CAUGHT|MISSED|INCONCLUSIVE)', l)]
            if ls: return ls
    return []
demos = dict(l.strip().split("|", 1) for l in open("/tmp/mut/demos.txt") if "|" in l)
for n in range(1, 42):
    ID = f"C{n:02d}"; wt = f"/tmp/mut/{ID}"
    m = git(wt, "log", "--format=%H", "--grep", "^mutant", "-1").strip()
    d = git(wt, "log", "--format=%H", "--grep", "^demo", "-1").strip()
    out = f"/verif/seeded/{ID}"; os.makedirs(out, exist_ok=True)
    open(f"{out}/patch.diff", "w").write(git(wt, "show", "--format=", m))
    open(f"{out}/demo.diff", "w").write(git(wt, "show", "--format=", d))
    lines = verdict_of(ID)
    caught = []
    for l in lines:
        mm = re.match(r'(C\d\d) CAUGHT: FAIL C\d\d (repaired finding (\S+) is back: )?sig=(\S+)', l)
        if mm: caught.append(f"{mm.group(1)} quick (sig {mm.group(4)}" + (f", reported as the return of repaired finding {mm.group(3)}" if mm.group(3) else "") + ")")
    ex = EXTRA.get(ID, {})
    caught_by = ex.get("caught_by") or ("; ".join(caught) if caught else "MISSED")
    meta = {"breaks_property": ID, "mutant_subject": git(wt, "log", "--format=%s", "-1", m).strip(),
            "applies_to": "current /repo main (checked with git apply --check)",
            "needs_to_manifest": ex.get("needs") or needs_of(ID),
            "demo": {"apply": "git apply patch.diff demo.diff (in a scratch worktree of /repo)", "command": demos.get(ID, ""),
                     "confirmed": "run by me in the scratch worktree: the demo fails with patch.diff applied (test failure, not a build error) and passes with it reverted"},
            "checks_run": ex.get("ran") or f"./check {ID} quick (VERIF_SEED=1) in a scratch evaluation workspace (worktrees of /verif and /repo outside both) with patch.diff applied to the /repo worktree; exit 1 = caught",
            "caught_by": caught_by}
    if ex.get("note"): meta["note"] = ex["note"]
    json.dump(meta, open(f"{out}/meta.json", "w"), indent=1)
    print(ID, caught_by[:110])
