#!/bin/bash
# tools/try_mutant.sh <patch-file> <ID> [<ID>...]: apply a patch to /repo, run the quick checks, undo the patch.
# Prints one line per check: CAUGHT (exit 1) / MISSED (exit 0) / INCONCLUSIVE (exit 2)
P="$1"; shift
cd /repo || exit 2
if ! git diff --quiet; then echo "refusing: /repo has uncommitted changes"; exit 2; fi
if ! git apply --check "$P" 2>/dev/null; then echo "patch does not apply: $P"; exit 2; fi
git apply "$P"
trap 'git -C /repo checkout -- . ; git -C /repo clean -fdq -- crates' EXIT
for id in "$@"; do
  out=$(cd /verif && VERIF_SEED=${VERIF_SEED:-1} timeout ${MUT_TIMEOUT:-2400} ./check $id quick 2>&1); rc=$?
  case $rc in
    1) echo "$id CAUGHT: $(echo "$out" | grep '^FAIL' | head -1 | cut -c1-300)";;
    0) echo "$id MISSED: $(echo "$out" | tail -1 | cut -c1-200)";;
    *) echo "$id INCONCLUSIVE rc=$rc: $(echo "$out" | tail -2 | tr '\n' ' ' | cut -c1-300)";;
  esac
done
