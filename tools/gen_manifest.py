#!/usr/bin/env python3
"""Regenerates /verif/MANIFEST.json from tools/checks.json (one entry per claimed property) and
properties.jsonl (every property not claimed goes to not_applicable with its reason from
tools/checks.json["not_claimed"])."""
import json, os, subprocess, sys
root = os.path.dirname(os.path.dirname(os.path.abspath(__file__)))
spec = json.load(open(os.path.join(root, "tools", "checks.json")))
spec["checks"] = {}
import glob
for f in sorted(glob.glob(os.path.join(root, "tools", "checks", "C*.json"))):
    spec["checks"][os.path.basename(f)[:-5]] = json.load(open(f))
props = [json.loads(l) for l in open(os.path.join(root, "properties.jsonl"))]
ids = [p["id"] for p in props]
checks = []
for pid in ids:
    c = spec["checks"].get(pid)
    if not c:
        continue
    entry = {
        "property_id": pid,
        "quick_cmd": f"./check {pid} quick",
        "thorough_cmd": f"./check {pid} thorough",
        "evidence_file": f"/verif/evidence/{pid}.json",
        "replay_cmd_template": f"./check {pid} --replay {{path}}",
        "engine": "vcheck",
        "level_claimed": {"category": c.get("category", "exploration"), "text": c["text"], "design_ref": f"DESIGN.md section 5, {pid}"},
        "level_note": c["note"],
        "technique": c["technique"],
    }
    checks.append(entry)
na = []
for pid in ids:
    if pid not in spec["checks"]:
        na.append({"property_id": pid, "reason": spec["not_claimed"].get(pid, "check not built yet in this session (design exists in DESIGN.md section 5); not claimed")})
hooks = spec["hooks"]
m = {
    "version": 1,
    "setup_cmd": "./check --build",
    "hooks": hooks,
    "engines": [{"name": "vcheck", "path": "/verif/harness", "serves_properties": [c["property_id"] for c in checks],
                 "kind_free_text": "one Rust binary: proptest TestRunner from a binary (fixed seeds from VERIF_SEED, 16 shards), explicit oracles per property, proptest shrinking plus a ddmin second stage, replay files, worker child processes for abort-type failures, evidence writer"}],
    "checks": checks,
    "notes": spec.get("notes", ""),
    "not_applicable": na,
}
json.dump(m, open(os.path.join(root, "MANIFEST.json"), "w"), indent=1)
print(f"{len(checks)} checks, {len(na)} not claimed")
