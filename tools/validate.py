#!/usr/bin/env python3
import json, jsonschema, glob, sys, os
root = os.path.dirname(os.path.dirname(os.path.abspath(__file__)))
ms = json.load(open('/root/.vp/MANIFEST.schema.json')); es = json.load(open('/root/.vp/EVIDENCE.schema.json'))
m = json.load(open(os.path.join(root, 'MANIFEST.json')))
jsonschema.validate(m, ms)
bad = 0
for c in m['checks']:
    f = c['evidence_file']
    if not os.path.exists(f):
        print('missing', f); bad += 1; continue
    try:
        ev = json.load(open(f)); jsonschema.validate(ev, es)
        assert ev['level'] == c['level_claimed']['category'], (ev['level'], c['level_claimed']['category'])
    except Exception as e:
        print('invalid', f, str(e)[:300]); bad += 1
print('manifest ok;', len(m['checks']), 'checks;', bad, 'bad evidence files')
sys.exit(1 if bad else 0)
