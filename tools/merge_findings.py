#!/usr/bin/env python3
"""Resolve a merge conflict in KNOWN_FINDINGS.json by taking the union of both sides' findings (by id; theirs wins on equal id unless ours is 'fixed')."""
import json, subprocess
ours = json.loads(subprocess.check_output(['git', 'show', ':2:KNOWN_FINDINGS.json']))
theirs = json.loads(subprocess.check_output(['git', 'show', ':3:KNOWN_FINDINGS.json']))
by = {}
order = []
for src in (ours, theirs):
    for f in src['findings']:
        if f['id'] not in by:
            order.append(f['id'])
            by[f['id']] = f
        elif by[f['id']].get('status') != 'fixed':
            by[f['id']] = f
ours['findings'] = [by[i] for i in order]
json.dump(ours, open('KNOWN_FINDINGS.json', 'w'), indent=1, ensure_ascii=False)
print(len(order), 'findings')
