#!/usr/bin/env python3
"""Extract Lua snippets (string literals) from the formatter's own tests into corpus/snippets/*.lua.

usage: tools/extract_snippets.py <repo-root> <verif-root>
Raw strings r#"..."# / r"..." and ordinary "..." literals (escapes decoded) are taken from
crates/emmylua_formatter/src/{test,formatter,formatter/range_format,printer}/*test*.rs.  Both the inputs and the
expected outputs of the tests are kept (both are Lua).  Literals shorter than 6 bytes or without
any Lua-ish character are dropped; duplicates are dropped; the order is the order of appearance,
so the file names are stable for a fixed repository snapshot.
"""
import os
import re
import sys

repo, verif = sys.argv[1], sys.argv[2]
base = os.path.join(repo, "crates/emmylua_formatter/src")
files = []
for sub in ["test", "formatter", "formatter/range_format", "printer"]:
    d = os.path.join(base, sub)
    for n in sorted(os.listdir(d)):
        if n.endswith(".rs") and "test" in (n + sub):
            files.append(os.path.join(d, n))

RAW = re.compile(r'r(#*)"(.*?)"\1', re.S)
STR = re.compile(r'(?<![r#\w])"((?:[^"\\]|\\.)*)"', re.S)
ESC = {"n": "\n", "t": "\t", "r": "\r", "\\": "\\", '"': '"', "'": "'", "0": "\0"}


def unescape(s):
    out = []
    i = 0
    while i < len(s):
        c = s[i]
        if c == "\\" and i + 1 < len(s):
            n = s[i + 1]
            if n in ESC:
                out.append(ESC[n])
                i += 2
                continue
            if n == "\n":  # line continuation
                i += 2
                while i < len(s) and s[i] in " \t\n":
                    i += 1
                continue
            if n == "x" and i + 3 < len(s):
                out.append(chr(int(s[i + 2:i + 4], 16)))
                i += 4
                continue
            if n == "u":
                m = re.match(r"\\u\{([0-9a-fA-F]+)\}", s[i:])
                if m:
                    out.append(chr(int(m.group(1), 16)))
                    i += len(m.group(0))
                    continue
        out.append(c)
        i += 1
    return "".join(out)


seen = set()
snips = []
for f in files:
    text = open(f, encoding="utf-8").read()
    spans = []
    for m in RAW.finditer(text):
        spans.append((m.start(), m.end(), m.group(2)))
    covered = [(a, b) for a, b, _ in spans]

    def inside(p):
        return any(a <= p < b for a, b in covered)

    for m in STR.finditer(text):
        if inside(m.start()):
            continue
        spans.append((m.start(), m.end(), unescape(m.group(1))))
    spans.sort()
    for _, _, s in spans:
        s = s.lstrip("\n")
        if len(s) < 6 or "{}" in s and "{:?}" in s:
            continue
        if not re.search(r"[=(\n]|--", s):
            continue
        if s in seen:
            continue
        seen.add(s)
        snips.append((os.path.basename(f)[:-3], s))

out = os.path.join(verif, "corpus/snippets")
os.makedirs(out, exist_ok=True)
for n in os.listdir(out):
    if n.startswith("fmt_"):
        os.remove(os.path.join(out, n))
for i, (src, s) in enumerate(snips):
    with open(os.path.join(out, "fmt_%04d_%s.lua" % (i, src)), "w", encoding="utf-8", newline="") as fh:
        fh.write(s)
print("wrote", len(snips), "snippets")
