#!/bin/bash
# tools/overflow_site.sh <ID> <replay.json>: run the case in a worker under gdb and print the most frequent frames of the crash backtrace
ID="$1"; F="$2"
python3 -c "import json,sys; d=json.load(open(sys.argv[1])); print(json.dumps(d['case']))" "$F" > /tmp/overflow_case.json
cd /verif && timeout 180 gdb -batch -ex "run --worker $ID < /tmp/overflow_case.json" -ex "bt 60" ./harness/target/release/vcheck 2>&1 | grep -E "^#" | awk '{ $1=""; print }' | sed 's/ (.*//' | sed 's/::h[0-9a-f]*$//' | sed 's/^ 0x[0-9a-f]* in //' | cut -c1-150 | sort | uniq -c | sort -rn | head -8
