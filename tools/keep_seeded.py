#!/usr/bin/env python3
"""tools/keep_seeded.py <ID> <caught_by|MISSED> "<needs>" "<what I ran>"  - store a confirmed seeded mutant under /verif/seeded/<ID>/"""
import sys, subprocess, json, os
ID, caught, needs, ran = sys.argv[1:5]
wt = f"/tmp/mut/{ID}"
def git(*a): return subprocess.check_output(["git", "-C", wt, *a], text=True)
m = git("log", "--format=%H", "--grep", "^mutant", "-1").strip()
d = git("log", "--format=%H", "--grep", "^demo", "-1").strip()
out = f"/verif/seeded/{ID}"; os.makedirs(out, exist_ok=True)
open(f"{out}/patch.diff", "w").write(git("show", "--format=", m))
open(f"{out}/demo.diff", "w").write(git("show", "--format=", d))
demo_cmd = ""
for l in open("/tmp/mut/demos.txt"):
    if l.startswith(ID + "|"): demo_cmd = l.split("|", 1)[1].strip()
meta = {"breaks_property": ID, "mutant_subject": git("log", "--format=%s", "-1", m).strip(), "base_commit": git("merge-base", m, "main").strip()[:10],
        "needs_to_manifest": needs, "demo": {"apply": "git apply patch.diff demo.diff (in a worktree of /repo at base_commit or later)", "command": demo_cmd,
        "confirmed": "demo fails with patch.diff applied and passes with it reverted (run by me in the scratch worktree)"},
        "checks_run": ran, "caught_by": caught}
json.dump(meta, open(f"{out}/meta.json", "w"), indent=1)
print(out)
