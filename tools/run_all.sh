#!/bin/bash
# tools/run_all.sh [tier]: run every claimed check once (VERIF_SEED from env), print one summary line per check
cd "$(dirname "$0")/.." || exit 2
TIER=${1:-quick}
./check --build || exit 2
for id in $(python3 -c "import json; print(' '.join(c['property_id'] for c in json.load(open('MANIFEST.json'))['checks']))"); do
  t0=$(date +%s)
  out=$(VERIF_SKIP_BUILD=1 timeout ${ALL_TIMEOUT:-3000} ./check $id $TIER 2>&1); rc=$?
  t1=$(date +%s)
  kf=$(echo "$out" | grep -c '^KNOWN-FINDING')
  echo "$id rc=$rc t=$((t1-t0))s known-finding-lines=$kf :: $(echo "$out" | grep -v '^KNOWN-FINDING' | tail -1 | cut -c1-160)"
done
