//! C26 — LSP results are structurally valid.
use crate::engine::*;
use crate::ls::docgen::{self, PosSel};
use crate::ls::requests::valid_params;
use crate::ls::{client_caps, did_open, uri_for, Ls, LsOpts};
use crate::oracle::lspshape::{self, Doc, Problem};
use proptest::prelude::*;
use serde::{Deserialize, Serialize};
use serde_json::Value;

#[derive(Clone, Debug, Serialize, Deserialize)]
pub struct Case {
    pub text: String,
    pub src: String,
    pub positions: Vec<PosSel>,
    pub std_lib: bool,
}

pub struct C26;

const DOC_REQS: &[&str] = &[
    "textDocument/semanticTokens/full",
    "textDocument/documentSymbol",
    "textDocument/foldingRange",
    "textDocument/documentLink",
    "textDocument/codeLens",
    "textDocument/documentColor",
    "textDocument/diagnostic",
    "emmy/annotator",
    "emmy/gutter",
];
const POS_REQS: &[&str] = &[
    "textDocument/hover",
    "textDocument/definition",
    "textDocument/implementation",
    "textDocument/references",
    "textDocument/documentHighlight",
    "textDocument/selectionRange",
    "textDocument/completion",
    "textDocument/rename",
    "textDocument/prepareRename",
    "textDocument/signatureHelp",
    "textDocument/codeAction",
    "textDocument/inlayHint",
    "textDocument/prepareCallHierarchy",
    "textDocument/inlineValue",
    "textDocument/rangeFormatting",
];

fn legend() -> (usize, usize) {
    let caps = emmylua_ls::verif::server_capabilities(&client_caps(true));
    let v = serde_json::to_value(&caps).unwrap_or(Value::Null);
    let l = &v["semanticTokensProvider"]["legend"];
    (l["tokenTypes"].as_array().map(|a| a.len()).unwrap_or(0), l["tokenModifiers"].as_array().map(|a| a.len()).unwrap_or(0))
}

impl Property for C26 {
    type Case = Case;
    type Local = (usize, usize);
    fn id(&self) -> &'static str {
        "C26"
    }
    fn rule(&self) -> String {
        "cases = one open document (generated valid Lua, annotated snippets with doc comments/markdown/multi-line strings and comments and their mutations, token soup, windows of std/*.lua) x every document-level structure-returning request once + 15 position/range requests at 4-16 generated in-document positions; played through the real dispatcher in-process; oracle = lspshape validators on every result: all ranges/locations of this document inside it with start<=end; semantic tokens decode (relative encoding) to ordered, non-overlapping, single-line, in-document tokens with type/modifier indices inside the advertised legend; document symbols nest and selectionRange is inside range; folding ranges start<=end inside the document; selection ranges strictly grow outward; completion main edits single-line containing the cursor; workspace-edit edits per file pairwise non-overlapping; non-trivial = document has a multi-line token or doc comment and at least one non-empty result".into()
    }
    fn assumptions(&self) -> Vec<String> {
        vec!["'inside the document' is judged in the server's own line model (lines split at \\n, UTF-16 columns); the line model itself is C22/C23".into()]
    }
    fn cases(&self, tier: Tier) -> u32 {
        tier.pick(6000, 100_000)
    }
    fn strategy(&self, tier: Tier) -> BoxedStrategy<Case> {
        (docgen::document(tier), proptest::collection::vec(prop_oneof![3 => any::<u16>().prop_map(PosSel::At), 2 => any::<u16>().prop_map(PosSel::LineEnd)], 4..tier.pick(12, 24)), proptest::bool::weighted(0.1))
            .prop_map(|((text, src), positions, std_lib)| Case { text, src, positions, std_lib })
            .boxed()
    }
    fn simplify(&self, c: &Case) -> Vec<Case> {
        let mut out: Vec<Case> = vec![];
        if c.positions.len() > 1 {
            for i in 0..c.positions.len() {
                let mut r = c.positions.clone();
                r.remove(i);
                out.push(Case { positions: r, ..c.clone() });
            }
        }
        out.extend(crate::gens::util::text_simplify(&c.text).into_iter().take(80).map(|t| Case { text: t, ..c.clone() }));
        out
    }
    fn local(&self) -> (usize, usize) {
        legend()
    }
    fn check(&self, c: &Case, legend: &mut (usize, usize), obs: &mut Obs) -> Verdict {
        let _ = take_panics();
        let mut ls = Ls::new(LsOpts { std_lib: c.std_lib, pull_diagnostics: true, ..Default::default() });
        let uri = uri_for("/virtual_c26/doc.lua");
        let uri_s = serde_json::to_value(&uri).ok().and_then(|v| v.as_str().map(|s| s.to_string())).unwrap_or_default();
        ls.notify("textDocument/didOpen", did_open(&uri, &c.text));
        ls.settle();
        let doc = Doc { uri: uri_s, text: &c.text };
        obs.class(&format!("src:{}", c.src));
        let mut problems: Vec<Problem> = vec![];
        let mut nonempty = 0;
        let mut id = 0;
        let last_line = docgen::line_count(&c.text) - 1;
        let last_len = docgen::line_len16(&c.text, last_line).unwrap_or(0);
        for m in DOC_REQS {
            id += 1;
            let Some(resp) = ls.call(id, m, valid_params(m, &uri, 0, 0, last_line, last_len)) else { continue };
            let Some(res) = resp.result else { continue };
            if res.is_null() {
                continue;
            }
            nonempty += 1;
            let mut ps = vec![];
            match *m {
                "textDocument/semanticTokens/full" => ps.extend(lspshape::semantic_tokens(&doc, &res, legend.0, legend.1)),
                "textDocument/documentSymbol" => ps.extend(lspshape::document_symbols(&doc, &res)),
                "textDocument/foldingRange" => ps.extend(lspshape::folding_ranges(&doc, &res)),
                _ => lspshape::all_ranges_in_doc(&doc, m.rsplit('/').next().unwrap_or(m), &res, &mut ps),
            }
            problems.extend(ps);
        }
        for sel in &c.positions {
            let (l, ch, _) = docgen::resolve(&c.text, sel);
            for m in POS_REQS {
                id += 1;
                let (l2, c2) = if matches!(*m, "textDocument/inlayHint" | "textDocument/rangeFormatting" | "textDocument/inlineValue") { (last_line, last_len) } else { (l, ch) };
                let Some(resp) = ls.call(id, m, valid_params(m, &uri, l, ch, l2, c2)) else { continue };
                let Some(res) = resp.result else { continue };
                if res.is_null() || res.as_array().map(|a| a.is_empty()).unwrap_or(false) {
                    continue;
                }
                nonempty += 1;
                let short = m.rsplit('/').next().unwrap_or(m);
                let mut ps = vec![];
                match *m {
                    "textDocument/selectionRange" => ps.extend(lspshape::selection_ranges(&doc, &res, &[(l, ch)])),
                    "textDocument/completion" => {
                        ps.extend(lspshape::completion(&doc, &res, (l, ch)));
                    }
                    "textDocument/rename" => ps.extend(lspshape::workspace_edit(&doc, &res)),
                    "textDocument/codeAction" => {
                        if let Some(a) = res.as_array() {
                            for act in a {
                                if let Some(e) = act.get("edit") {
                                    ps.extend(lspshape::workspace_edit(&doc, e));
                                }
                            }
                        }
                    }
                    "textDocument/inlayHint" => ps.extend(lspshape::inlay_hints(&doc, &res, ((l, ch), (l2, c2)))),
                    "textDocument/rangeFormatting" => {
                        let mut tmp = vec![];
                        lspshape::all_ranges_in_doc(&doc, short, &res, &mut tmp);
                        ps.extend(tmp);
                    }
                    _ => lspshape::all_ranges_in_doc(&doc, short, &res, &mut ps),
                }
                problems.extend(ps);
            }
            if !problems.is_empty() {
                break;
            }
        }
        let panics = take_panics();
        if let Some(p) = panics.first() {
            // crashes are C25's business; do not judge the shapes of a case whose tasks crashed
            let _ = p;
            return Verdict::Skip("server-task-panic(C25)".into());
        }
        if let Some((sig, msg)) = problems.into_iter().next() {
            return Verdict::fail(sig, msg);
        }
        let multi = c.text.contains("[[") || c.text.contains("---");
        obs.class_if(nonempty > 0, "has-nonempty-result");
        Verdict::pass(multi && nonempty > 0)
    }
}
