//! C31 — Loading any configuration never crashes.
use crate::engine::*;
use crate::gens::configs::{self, Setting, KEYS};
use crate::gens::util;
use crate::oracle::cfgmodel;
use emmylua_code_analysis::{load_configs, load_configs_raw, Emmyrc};
use proptest::prelude::*;
use serde::{Deserialize, Serialize};
use serde_json::{json, Value};
use std::path::{Path, PathBuf};

#[derive(Clone, Debug, Serialize, Deserialize, PartialEq)]
pub enum Body {
    Text(String),
    /// raw bytes (invalid UTF-8 on purpose)
    Bytes(Vec<u8>),
    Missing,
    Dir,
}

/// what the generator knows by construction about a `.emmyrc.lua` source
#[derive(Clone, Copy, Debug, Serialize, Deserialize, PartialEq)]
pub enum LuaClass {
    /// returns a plain table built from JSON-like data
    Valid,
    /// raises (syntax error, `error()`, index of nil)
    Error,
    /// returns something that is not a table
    NonTable,
    /// returns a table with unusual content (functions, cycles, NaN, metatables …): validity not asserted
    Odd,
    /// never terminates by construction (CPU only, constant memory)
    Hang,
}

#[derive(Clone, Debug, Serialize, Deserialize)]
pub struct FileSpec {
    /// `.luarc.json`, `.emmyrc.json` or `.emmyrc.lua` (on disk the name gets a per-file prefix)
    pub name: String,
    pub body: Body,
    pub lua: Option<LuaClass>,
    pub src: String,
}

#[derive(Clone, Debug, Serialize, Deserialize)]
pub struct Case {
    pub files: Vec<FileSpec>,
    pub partials: Vec<Value>,
    /// 0 = the case directory, 1 = "/", 2 = "", 3 = ".", 4 = non-UTF-8 path, 5 = non-ASCII path
    pub root: u8,
}

impl Case {
    fn has_hang(&self) -> bool {
        self.files.iter().any(|f| f.lua == Some(LuaClass::Hang) && matches!(f.body, Body::Text(_)))
    }
}

pub struct C31;

pub struct Local {
    dir: PathBuf,
}

impl Drop for Local {
    fn drop(&mut self) {
        let _ = std::fs::remove_dir_all(&self.dir);
    }
}

// ---------------------------------------------------------------------------------------------
// JSON text with duplicate keys: an ordered tree

#[derive(Clone, Debug)]
enum J {
    V(Value),
    O(Vec<(String, J)>),
}

fn j_insert(node: &mut Vec<(String, J)>, groups: &[String], value: Value, dup: bool) {
    if groups.len() == 1 {
        if !dup {
            // replace an existing scalar entry half of the time is not needed: appending creates the duplicate key,
            // so without `dup` we overwrite the last entry of that name
            if let Some(e) = node.iter_mut().rev().find(|e| e.0 == groups[0]) {
                e.1 = J::V(value);
                return;
            }
        }
        node.push((groups[0].clone(), J::V(value)));
        return;
    }
    if !dup {
        if let Some((_, J::O(inner))) = node.iter_mut().rev().find(|e| e.0 == groups[0] && matches!(e.1, J::O(_))) {
            j_insert(inner, &groups[1..], value, dup);
            return;
        }
    }
    let mut inner = vec![];
    j_insert(&mut inner, &groups[1..], value, dup);
    node.push((groups[0].clone(), J::O(inner)));
}

fn j_render(j: &J, ws: u8, out: &mut String) {
    match j {
        J::V(v) => out.push_str(&serde_json::to_string(v).unwrap()),
        J::O(items) => {
            out.push('{');
            for (i, (k, v)) in items.iter().enumerate() {
                if i > 0 {
                    out.push(',');
                }
                if ws == 1 {
                    out.push_str("\n  ");
                }
                out.push_str(&serde_json::to_string(k).unwrap());
                out.push(':');
                if ws > 0 {
                    out.push(' ');
                }
                j_render(v, ws, out);
            }
            out.push('}');
        }
    }
}

#[derive(Clone, Debug)]
struct Entry {
    groups: Vec<String>,
    value: Value,
    dup: bool,
}

fn setting_entry(s: Setting, dup: bool) -> Entry {
    Entry { groups: s.groups(), value: s.value, dup }
}

/// entries of one JSON object: well-typed settings (odd paths), wrong-typed values, value/prefix collisions, junk keys
fn entries() -> BoxedStrategy<Vec<Entry>> {
    // half of the objects are "clean" (well-typed settings only, odd path strings): a single junk value makes the whole
    // configuration fall back to defaults, which would hide the path strings from the pre-processor
    prop_oneof![1 => entries_depth(200), 1 => clean_entries()].boxed()
}

fn well_typed() -> BoxedStrategy<Setting> {
    let nk = KEYS.len();
    let pk: Vec<usize> = KEYS.iter().enumerate().filter(|(_, k)| matches!(k.kind, configs::Kind::PathArr | configs::Kind::PathItemArr)).map(|(i, _)| i).collect();
    prop_oneof![
        2 => (0..nk).prop_flat_map(|ki| configs::setting_of(ki, configs::odd_path(), true)),
        3 => (0..pk.len()).prop_flat_map(move |i| configs::setting_of(pk[i], configs::odd_path(), true)),
    ]
    .boxed()
}

fn clean_entries() -> BoxedStrategy<Vec<Entry>> {
    proptest::collection::vec((well_typed(), proptest::bool::weighted(0.03)), 1..5).prop_map(|v| v.into_iter().map(|(s, dup)| setting_entry(s, dup)).collect()).boxed()
}

/// `max_depth`: bound of the deep-nesting class (client partial configs travel as JSON values inside the case, whose
/// own (de)serialisation has serde_json's recursion limit of 128)
fn entries_depth(max_depth: usize) -> BoxedStrategy<Vec<Entry>> {
    let nk = KEYS.len();
    let well = well_typed();
    let one = prop_oneof![
        5 => (well.clone(), proptest::bool::weighted(0.05)).prop_map(|(s, dup)| vec![setting_entry(s, dup)]),
        // wrong-typed value under a real key
        2 => (0..nk, any::<u8>(), configs::any_json(2)).prop_map(|(ki, mask, value)| {
            let segs = vec![KEYS[ki].sec.to_string(), KEYS[ki].key.to_string()];
            vec![Entry { groups: configs::groups(&segs, mask), value, dup: false }]
        }),
        // a key that is both a value and a prefix: real path P plus a proper prefix of P holding a non-object,
        // or P plus an extension of P
        3 => (well, any::<u8>(), any::<u8>(), configs::any_json(1), configs::junk_key(), any::<bool>(), 0u8..3).prop_map(|(s, m2, cut, scalar, junk, first, how)| {
            let scalar = if scalar.is_object() { json!(1) } else { scalar };
            let (a, b) = if how == 0 {
                // extension: P.junk
                let mut segs = s.segs.clone();
                segs.extend(junk.split('.').map(|x| x.to_string()));
                let leaf = if s.value.is_object() { scalar.clone() } else { s.value.clone() };
                (Entry { groups: s.groups(), value: leaf, dup: false }, Entry { groups: configs::groups(&segs, m2), value: scalar, dup: false })
            } else {
                let n = 1 + (cut as usize) % (s.segs.len() - 1);
                let pre: Vec<String> = s.segs[..n].to_vec();
                (Entry { groups: configs::groups(&pre, m2), value: scalar, dup: false }, setting_entry(s, false))
            };
            if first { vec![a, b] } else { vec![b, a] }
        }),
        1 => (configs::junk_key(), configs::any_json(2), any::<bool>()).prop_map(|(k, value, split)| {
            let groups = if split { k.split('.').map(|x| x.to_string()).collect() } else { vec![k] };
            vec![Entry { groups, value, dup: false }]
        }),
        // deep nesting, nested or dotted (serde_json's recursion limit is 128)
        1 => (1usize..max_depth, any::<bool>(), 0..nk).prop_map(|(n, dotted, ki)| {
            let mut segs: Vec<String> = vec![KEYS[ki].sec.to_string()];
            segs.extend(std::iter::repeat_n("a".to_string(), n));
            let groups = if dotted { vec![segs.join(".")] } else { segs };
            vec![Entry { groups, value: json!(true), dup: false }]
        }),
    ];
    proptest::collection::vec(one, 0..5).prop_map(|v| v.into_iter().flatten().collect()).boxed()
}

fn render_entries(es: &[Entry], ws: u8) -> String {
    let mut root = vec![];
    for e in es {
        j_insert(&mut root, &e.groups, e.value.clone(), e.dup);
    }
    let mut out = String::new();
    j_render(&J::O(root), ws, &mut out);
    out
}

/// the same entries as a plain JSON object (later duplicates win), for partial configs and Lua tables
fn entries_object(es: &[Entry]) -> Value {
    let mut m = serde_json::Map::new();
    for e in es {
        configs::insert_groups(&mut m, &e.groups, e.value.clone());
    }
    Value::Object(m)
}

const LUA_ERROR: &[&str] = &[
    "error(\"boom\")",
    "local x = nil\nreturn x.y",
    "return {",
    "return { a = }",
    "local t = {}\nreturn t.a.b",
    "error({code = 1})",
    "return nil + 1",
    "]]",
    "return undefined_function_xyz()",
];
const LUA_NONTABLE: &[&str] = &["return 1", "return nil", "return \"s\"", "", "return true", "return function() end", "return 1, {}", "-- only a comment", "return 1.5", "local t = {}"];
const LUA_ODD: &[&str] = &[
    "return {function() end}",
    "local t = {}\nt.t = t\nreturn t",
    "local a, b = {}, {}\na.b = b\nb.a = a\nreturn {a}",
    "return {[1.5] = 1}",
    "return {[{}] = 1}",
    "return {0/0, 1/0, -1/0}",
    "return setmetatable({}, {__index = function() error(\"x\") end})",
    "return setmetatable({}, {__pairs = function() error(\"x\") end})",
    "return {1, 2, x = 3}",
    "return {[1] = 1, [3] = 3}",
    "return {[2^53] = 1}",
    "return {[-1] = 1, [0] = 2}",
    "return {[\"a\"] = 1, [\"a.b\"] = 2}",
    "return {diagnostics = 1, [\"diagnostics.enable\"] = true}",
    "return {workspace = {library = {\"~\", \"~é\"}}}",
    "return {s = (\"x\"):rep(100000)}",
    "return {home = os.getenv(\"HOME\"), t = os.time(), c = os.clock()}",
    "return {}, 1",
    "return {}",
    "return {{}}",
    "return {[true] = 1}",
    "return {math.huge, math.mininteger, math.maxinteger}",
    "return {\"\\xff\\xfe\"}",
    "return {[\"\\xff\"] = 1}",
    "local t = {}\nfor i = 1, 300 do t = {a = t} end\nreturn t",
    "local t = {}\nfor i = 1, 20000 do t[i] = i end\nreturn t",
    "return {co = coroutine}",
    "return {print = print, tostring = tostring}",
    "print(\"hello\", 1, nil)\nreturn {diagnostics = {enable = false}}",
    "return require(\"nope\")",
    "return io.open(\"x\")",
    "return load(\"return {}\")()",
    "return {string = string}",
    "return _G",
    "return _ENV",
    "local ok, e = pcall(error, \"x\")\nreturn {ok = ok, e = e}",
    "return {utf8.char(228, 8364, 0x10FFFF)}",
    "return {[\"\"] = 1, [\".\"] = 2, [\"..\"] = 3}",
    "return {runtime = {version = \"Lua5.4\", special = {[\"a.b\"] = \"require\"}}}",
];
/// non-terminating by construction: CPU only, constant memory, no error
pub const LUA_HANG: &[&str] = &[
    "while true do end",
    "repeat until false",
    "for i = 1, math.huge do end",
    "::top:: goto top",
    "local function f() return f() end\nreturn f()",
    "local t = {}\nwhile true do t[1] = 1 end\nreturn t",
];

fn json_file(name: &'static str) -> BoxedStrategy<FileSpec> {
    let text = prop_oneof![
        12 => (entries(), 0u8..3).prop_map(|(es, ws)| (render_entries(&es, ws), "json")),
        // mutated text: mostly invalid JSON
        3 => (entries(), 0u8..3, proptest::collection::vec(util::mut_strategy(), 1..3)).prop_map(|(es, ws, muts)| {
            let mut t = render_entries(&es, ws);
            for m in &muts { t = util::apply_mut(&t, m); }
            (t, "json-mutated")
        }),
        // non-object roots
        2 => configs::any_json(2).prop_map(|v| (serde_json::to_string(&v).unwrap(), "json-root")),
        1 => (entries(), 0usize..5).prop_map(|(es, i)| (format!("{}{}", ["\u{feff}", " \n\t", "// c\n", "\u{feff}\u{feff}", "\0"][i], render_entries(&es, 0)), "json-prefixed")),
        1 => (0usize..8).prop_map(|i| (["", " ", "{", "}", "[", "{\"a\":", "nul", "{\"a\":1,}"][i].to_string(), "json-fragment")),
    ];
    prop_oneof![
        30 => text.prop_map(move |(t, src)| FileSpec { name: name.to_string(), body: Body::Text(t), lua: None, src: src.to_string() }),
        1 => Just(FileSpec { name: name.to_string(), body: Body::Missing, lua: None, src: "missing".into() }),
        1 => Just(FileSpec { name: name.to_string(), body: Body::Dir, lua: None, src: "dir".into() }),
        1 => (entries(), 0usize..4).prop_map(move |(es, i)| {
            let mut b = render_entries(&es, 0).into_bytes();
            let bad: &[u8] = [&b"\xff"[..], &b"\xc3"[..], &b"\xed\xa0\x80"[..], &b"\xf8\x88\x80\x80\x80"[..]][i];
            let at = b.len() / 2;
            b.splice(at..at, bad.iter().copied());
            FileSpec { name: name.to_string(), body: Body::Bytes(b), lua: None, src: "bytes".into() }
        }),
    ]
    .boxed()
}

fn lua_file() -> BoxedStrategy<FileSpec> {
    let mk = |t: String, c: LuaClass, src: &str| FileSpec { name: ".emmyrc.lua".to_string(), body: Body::Text(t), lua: Some(c), src: src.to_string() };
    prop_oneof![
        8 => (entries(), 0u8..3).prop_map(move |(es, style)| {
            let obj = entries_object(&es);
            let t = match style {
                0 => format!("return {}", configs::to_lua(&obj)),
                1 => format!("local cfg = {}\nreturn cfg\n", configs::to_lua(&obj)),
                _ => format!("-- config\nlocal function mk() return {} end\nreturn mk()", configs::to_lua(&obj)),
            };
            mk(t, LuaClass::Valid, "lua-valid")
        }),
        3 => (0..LUA_ERROR.len()).prop_map(move |i| mk(LUA_ERROR[i].to_string(), LuaClass::Error, "lua-error")),
        3 => (0..LUA_NONTABLE.len()).prop_map(move |i| mk(LUA_NONTABLE[i].to_string(), LuaClass::NonTable, "lua-nontable")),
        6 => (0..LUA_ODD.len()).prop_map(move |i| mk(LUA_ODD[i].to_string(), LuaClass::Odd, "lua-odd")),
        1 => Just(FileSpec { name: ".emmyrc.lua".into(), body: Body::Missing, lua: Some(LuaClass::Error), src: "missing".into() }),
    ]
    .boxed()
}

fn hang_file() -> BoxedStrategy<FileSpec> {
    (0..LUA_HANG.len())
        .prop_map(|i| FileSpec { name: ".emmyrc.lua".into(), body: Body::Text(LUA_HANG[i].to_string()), lua: Some(LuaClass::Hang), src: "lua-hang".into() })
        .boxed()
}

fn any_file() -> BoxedStrategy<FileSpec> {
    prop_oneof![3 => json_file(".emmyrc.json"), 2 => json_file(".luarc.json"), 2 => lua_file()].boxed()
}

fn hang_case(i: usize, with_json: bool) -> Case {
    let mut files = vec![];
    if with_json {
        files.push(FileSpec { name: ".emmyrc.json".into(), body: Body::Text("{\"diagnostics.enable\":false}".into()), lua: None, src: "json".into() });
    }
    files.push(FileSpec { name: ".emmyrc.lua".into(), body: Body::Text(LUA_HANG[i % LUA_HANG.len()].to_string()), lua: Some(LuaClass::Hang), src: "lua-hang".into() });
    Case { files, partials: vec![], root: 0 }
}

fn text_case(name: &str, text: &str) -> Case {
    Case { files: vec![FileSpec { name: name.into(), body: Body::Text(text.into()), lua: None, src: "fixed".into() }], partials: vec![], root: 0 }
}

// ---------------------------------------------------------------------------------------------

fn strings_of(v: &Value, out: &mut Vec<String>) {
    match v {
        Value::String(s) => out.push(s.clone()),
        Value::Array(a) => a.iter().for_each(|x| strings_of(x, out)),
        Value::Object(m) => m.values().for_each(|x| strings_of(x, out)),
        _ => {}
    }
}

fn canon(e: &Emmyrc) -> Result<Value, String> {
    serde_json::to_value(e).map_err(|e| e.to_string())
}

/// registry / repo prefix stripped so that signatures are stable across checkouts
pub fn site(msg: &str) -> String {
    let loc = msg.rsplit(" @ ").next().unwrap_or("");
    if let Some(i) = loc.find("/repo/") {
        return loc[i + 6..].to_string();
    }
    if let Some(i) = loc.find("/registry/src/") {
        let rest = &loc[i + 14..];
        return rest.split_once('/').map(|x| x.1).unwrap_or(rest).to_string();
    }
    loc.to_string()
}

impl Property for C31 {
    type Case = Case;
    type Local = Local;
    fn id(&self) -> &'static str {
        "C31"
    }
    fn rule(&self) -> String {
        "cases = 1-3 config files (.emmyrc.json/.luarc.json/.emmyrc.lua, written to disk) + 0-2 client partial configs + a workspace root; JSON text over the schema.json key space in dotted/nested spellings with odd path strings, wrong-typed values, value/prefix collisions, junk/empty keys, duplicate keys, deep nesting, non-object roots, mutated (invalid) text, BOM, invalid UTF-8, missing files, directories; Lua sources: valid tables, raising, non-table results, odd tables, and (rare, separate class) non-terminating loops; judged: load_configs + pre_process_emmyrc + serialisation return without panic, and load(all files) == load(files minus the known-invalid ones); non-trivial = the case has a value/prefix collision, a value the Emmyrc type rejects, or a path string that starts with `~` (before or after env expansion); distinct = distinct case digest".into()
    }
    fn assumptions(&self) -> Vec<String> {
        vec![
            "non-return within 30 s is a violation only for Lua sources that are non-terminating by construction (the loader promises a 1 s cut-off); every other watchdog hit is inconclusive".into(),
            "Lua sources that call os.exit or allocate without bound are not generated (deliberate process exit / machine safety)".into(),
            "a file whose JSON root is not an object counts as valid content (not required to be skipped)".into(),
        ]
    }
    fn cases(&self, tier: Tier) -> u32 {
        tier.pick(12_000, 600_000)
    }
    fn isolated(&self) -> bool {
        true
    }
    fn case_timeout_s(&self) -> u64 {
        30
    }
    fn timeout_verdict(&self, case: &Case) -> Option<Verdict> {
        if case.has_hang() {
            Some(Verdict::fail("lua-config-hang", "load_configs did not return within 30 s on a .emmyrc.lua that never terminates (the loader promises a 1 s timeout)"))
        } else {
            None
        }
    }
    fn max_shrink_iters(&self, tier: Tier) -> u32 {
        tier.pick(600, 3000)
    }
    fn strategy(&self, _tier: Tier) -> BoxedStrategy<Case> {
        let normal = (proptest::collection::vec(any_file(), 1..4), proptest::collection::vec(entries_depth(100).prop_map(|es| entries_object(&es)), 0..3), 0u8..12)
            .prop_map(|(files, partials, root)| Case { files, partials: if root % 3 == 0 { partials } else { vec![] }, root: if root < 6 { root } else { 0 } });
        // the companion file is a constant: should the hang ever come back, every shrink step costs a 30 s watchdog,
        // so this class must have next to nothing to shrink
        let companion = FileSpec { name: ".emmyrc.json".into(), body: Body::Text("{\"diagnostics.enable\":false}".into()), lua: None, src: "json".into() };
        let hang = (hang_file(), proptest::option::of(Just(companion)), any::<bool>()).prop_map(|(h, j, first)| {
            let mut files = vec![h];
            if let Some(j) = j {
                if first { files.insert(0, j) } else { files.push(j) }
            }
            Case { files, partials: vec![], root: 0 }
        });
        prop_oneof![1500 => normal, 1 => hang].boxed()
    }
    fn fixed_cases(&self, _tier: Tier) -> Vec<Case> {
        let lib = |p: &str| text_case(".emmyrc.json", &json!({"workspace": {"library": [p]}}).to_string());
        vec![
            hang_case(0, true),
            hang_case(1, false),
            text_case(".luarc.json", "{\"a\":1,\"a.b\":2}"),
            text_case(".luarc.json", "{\"a\":1,\"a.b.c\":2}"),
            text_case(".emmyrc.json", "{\"diagnostics\":true,\"diagnostics.enable\":false}"),
            text_case(".emmyrc.json", "{\"runtime.version\":\"Lua5.4\",\"runtime\":{\"version.x\":1}}"),
            lib("~"),
            lib("~é"),
            lib("~x"),
            lib("$VERIF_P_TILDE"),
            text_case(".emmyrc.json", &json!({"workspace": {"library": [{"path": "~", "ignoreDir": ["~", "~é"]}], "ignoreDir": ["~"], "workspaceRoots": ["~名"]}, "resource": {"paths": ["~"]}}).to_string()),
        ]
    }
    fn simplify(&self, c: &Case) -> Vec<Case> {
        let mut out = vec![];
        for i in 0..c.files.len() {
            if c.files.len() > 1 {
                let mut d = c.clone();
                d.files.remove(i);
                out.push(d);
            }
        }
        if !c.partials.is_empty() {
            let mut d = c.clone();
            d.partials.clear();
            out.push(d);
        }
        if c.root != 0 {
            out.push(Case { root: 0, ..c.clone() });
        }
        for (i, f) in c.files.iter().enumerate() {
            if let Body::Text(t) = &f.body {
                if f.lua.is_none() {
                    for t2 in util::text_simplify(t).into_iter().take(60) {
                        // keep the simplified text valid JSON so that the failure stays the same kind
                        if serde_json::from_str::<Value>(&t2).is_ok() {
                            let mut d = c.clone();
                            d.files[i].body = Body::Text(t2);
                            out.push(d);
                        }
                    }
                }
            }
        }
        out
    }
    fn local(&self) -> Local {
        let root = PathBuf::from(std::env::var("VERIF_ROOT").unwrap_or_else(|_| "/verif".into()));
        let work = root.join("work");
        let _ = std::fs::create_dir_all(&work);
        // sweep directories left behind by workers that were killed by the watchdog
        if let Ok(rd) = std::fs::read_dir(&work) {
            for e in rd.flatten() {
                let n = e.file_name().to_string_lossy().to_string();
                if let Some(pid) = n.strip_prefix("c31-") {
                    if !Path::new(&format!("/proc/{pid}")).exists() {
                        let _ = std::fs::remove_dir_all(e.path());
                    }
                }
            }
        }
        // SAFETY: the worker's main thread is blocked in join() while this thread runs
        unsafe {
            std::env::set_var("VERIF_P_TILDE", "~");
            std::env::set_var("VERIF_P_TILDE_UNI", "~é");
            std::env::set_var("VERIF_P_EMPTY", "");
            std::env::set_var("VERIF_P_UNI", "é名");
            std::env::set_var("VERIF_P_DOLLAR", "$VERIF_P_TILDE{env:HOME}");
            std::env::remove_var("VERIF_P_UNSET");
            // pre_process_emmyrc spawns `luarocks config deploy_lua_dir` on every call; keep the failing lookup short
            std::env::set_var("PATH", "/nonexistent-verif-path");
        }
        Local { dir: work.join(format!("c31-{}", std::process::id())) }
    }
    fn check(&self, c: &Case, local: &mut Local, obs: &mut Obs) -> Verdict {
        let dir = local.dir.clone();
        if !dir.is_dir() && std::fs::create_dir_all(&dir).is_err() {
            return Verdict::Skip("cannot-create-workdir".into());
        }
        self.judge(c, &dir, obs)
    }
}

impl C31 {
    fn judge(&self, c: &Case, dir: &Path, obs: &mut Obs) -> Verdict {
        let mut paths = vec![];
        let mut valid_paths = vec![];
        let mut n_invalid = 0;
        let mut parsed: Vec<Value> = vec![];
        let mut lua_unknown = false;
        for (i, f) in c.files.iter().enumerate() {
            // flat names in the per-process directory (the loader only looks at the extension); names are chosen so that
            // nothing has to be deleted between cases: text files are overwritten, directories stay, missing files never exist
            let p = match &f.body {
                Body::Text(_) | Body::Bytes(_) => dir.join(format!("f{i}{}", f.name)),
                Body::Missing => dir.join(format!("missing{i}{}", f.name)),
                Body::Dir => dir.join(format!("dir{i}{}", f.name)),
            };
            let io = match &f.body {
                Body::Text(t) => std::fs::write(&p, t),
                Body::Bytes(b) => std::fs::write(&p, b),
                Body::Missing => Ok(()),
                Body::Dir => {
                    if p.is_dir() {
                        Ok(())
                    } else {
                        std::fs::create_dir_all(&p)
                    }
                }
            };
            if io.is_err() {
                return Verdict::Skip("cannot-write-file".into());
            }
            obs.class(&format!("file:{}", f.src));
            // independent validity judgement
            let valid: Option<bool> = match (&f.body, f.lua) {
                (Body::Missing, _) | (Body::Dir, _) => Some(false),
                (Body::Bytes(b), _) => {
                    if std::str::from_utf8(b).is_ok() {
                        None
                    } else {
                        Some(false)
                    }
                }
                (Body::Text(_), Some(LuaClass::Valid)) => Some(true),
                (Body::Text(_), Some(LuaClass::Error)) | (Body::Text(_), Some(LuaClass::NonTable)) | (Body::Text(_), Some(LuaClass::Hang)) => Some(false),
                (Body::Text(_), Some(LuaClass::Odd)) => None,
                (Body::Text(t), None) => {
                    let t = t.strip_prefix('\u{feff}').unwrap_or(t);
                    match serde_json::from_str::<Value>(t) {
                        Ok(v) => {
                            parsed.push(v);
                            Some(true)
                        }
                        Err(_) => Some(false),
                    }
                }
            };
            if f.lua.is_some() && valid != Some(false) {
                lua_unknown = true;
            }
            match valid {
                Some(false) => {
                    n_invalid += 1;
                    obs.class("has-invalid-file");
                }
                _ => valid_paths.push(p.clone()),
            }
            paths.push(p);
        }
        for p in &c.partials {
            parsed.push(p.clone());
        }
        obs.class_if(!c.partials.is_empty(), "has-partials");
        obs.class(&format!("files:{}", c.files.len()));
        obs.class_if(c.has_hang(), "lua-hang");

        // mechanical classification
        let mut leafs = vec![];
        for v in &parsed {
            cfgmodel::leaf_paths(v, "", &mut leafs);
        }
        let collision = cfgmodel::has_collision(&leafs);
        obs.class_if(collision, "collision");
        let mut strs = vec![];
        parsed.iter().for_each(|v| strings_of(v, &mut strs));
        let tilde = strs.iter().any(|s| s.starts_with('~') || s.starts_with("$VERIF_P_TILDE") || s.starts_with("{env:VERIF_P_TILDE}"));
        obs.class_if(tilde, "tilde-path");
        obs.class_if(strs.iter().any(|s| !s.is_ascii()), "non-ascii-string");
        obs.class_if(strs.iter().any(|s| s.contains('$') || s.contains('{')), "placeholder-or-env");

        let root: PathBuf = match c.root {
            1 => PathBuf::from("/"),
            2 => PathBuf::new(),
            3 => PathBuf::from("."),
            4 => {
                use std::os::unix::ffi::OsStringExt;
                PathBuf::from(std::ffi::OsString::from_vec(b"/ws/\xff\xfe".to_vec()))
            }
            5 => PathBuf::from("/ws/名前 é"),
            _ => dir.to_path_buf(),
        };
        obs.class(&format!("root:{}", c.root));

        // when hash order can matter (collisions) the load is repeated so that an order-dependent panic cannot hide
        let reps = if collision || lua_unknown { 8 } else { 1 };
        let partials = if c.partials.is_empty() { None } else { Some(c.partials.clone()) };
        let mut first: Option<Emmyrc> = None;
        for _ in 0..reps {
            match catch(|| load_configs(paths.clone(), partials.clone())) {
                Ok(e) => {
                    if first.is_none() {
                        first = Some(e)
                    }
                }
                Err(m) => return Verdict::fail(format!("panic:{}", site(&m)), format!("load_configs panicked: {}; files={}", m, describe(c))),
            }
        }
        let loaded = first.unwrap();
        let before = match canon(&loaded) {
            Ok(v) => v,
            Err(e) => return Verdict::fail("serialise", format!("loaded config does not serialise: {e}; files={}", describe(c))),
        };
        let mut processed = loaded.clone();
        // path expansion is costly (it compiles two regexes and spawns `luarocks` on every call): when the loaded
        // configuration holds no path at all there is nothing to expand, so only every 8th such case runs it
        let has_paths = !(loaded.workspace.workspace_roots.is_empty()
            && loaded.workspace.library.is_empty()
            && loaded.workspace.packages.is_empty()
            && loaded.workspace.ignore_dir.is_empty()
            && loaded.resource.paths.is_empty());
        obs.class_if(has_paths, "loaded-config-has-paths");
        let run_pp = has_paths || fnv64(before.to_string().as_bytes()).wrapping_add(c.files.len() as u64 + c.root as u64) % 8 == 0;
        obs.class_if(run_pp, "pre-process-run");
        if !run_pp {
            // nothing to expand
        } else if let Err(m) = catch(|| processed.pre_process_emmyrc(&root)) {
            return Verdict::fail(format!("panic:{}", site(&m)), format!("pre_process_emmyrc panicked: {}; files={}", m, describe(c)));
        }
        if let Err(e) = canon(&processed) {
            return Verdict::fail("serialise", format!("pre-processed config does not serialise: {e}; files={}", describe(c)));
        }

        // wrong-typed classification through the raw loader (same public API)
        let typed_reject = match catch(|| load_configs_raw(paths.clone(), partials.clone())) {
            Ok(raw) => serde_json::from_value::<Emmyrc>(raw).is_err(),
            Err(_) => false,
        };
        obs.class_if(typed_reject, "rejected-by-type");

        // invalid files are skipped: same result as loading without them
        if n_invalid > 0 && !collision {
            let mut differs = None;
            for _attempt in 0..2 {
                let subset = match catch(|| load_configs(valid_paths.clone(), partials.clone())) {
                    Ok(e) => e,
                    Err(m) => return Verdict::fail(format!("panic:{}", site(&m)), format!("load_configs panicked on the valid subset: {}; files={}", m, describe(c))),
                };
                let sub = canon(&subset).unwrap_or(Value::Null);
                if sub == before {
                    differs = None;
                    break;
                }
                differs = Some(sub);
                // a Lua file is evaluated under a wall-clock limit: re-evaluate once before believing a difference
                if !c.files.iter().any(|f| f.lua.is_some()) {
                    break;
                }
                match catch(|| load_configs(paths.clone(), partials.clone())) {
                    Ok(e) if canon(&e).ok().as_ref() == Some(&before) => {}
                    _ => return Verdict::Skip("lua-result-unstable".into()),
                }
            }
            if let Some(sub) = differs {
                let (path, _) = cfgmodel::first_diff(&before, &sub, "").unwrap_or(("?".into(), "scalar"));
                return Verdict::fail(
                    "invalid-not-skipped",
                    format!("loading all files differs from loading without the invalid ones at `{path}`: all={} without-invalid={} files={}", cfgmodel::at(&before, &path), cfgmodel::at(&sub, &path), describe(c)),
                );
            }
            obs.class("skip-equality-judged");
        }
        Verdict::pass(collision || typed_reject || tilde)
    }
}

fn describe(c: &Case) -> String {
    let mut s = String::new();
    for f in &c.files {
        let body = match &f.body {
            Body::Text(t) => one_line(t, 300),
            Body::Bytes(b) => format!("<{} bytes>", b.len()),
            Body::Missing => "<missing>".into(),
            Body::Dir => "<dir>".into(),
        };
        s.push_str(&format!("[{} {}] ", f.name, body));
    }
    if !c.partials.is_empty() {
        s.push_str(&format!("partials={} ", one_line(&Value::Array(c.partials.clone()).to_string(), 300)));
    }
    s.push_str(&format!("root={}", c.root));
    s
}
