//! C03 — Valid Lua is never reported as a syntax error; programs rejected for syntax reasons produce ≥1 error.
//!
//! References: (R1) `gens::lua_ast` – valid by construction per level; (R2) `luars`, a port of the Lua 5.5
//! compiler (compile only).  Direction 1 judges generated programs; direction 2 judges by-construction
//! invalid mutations of them (see `MUTS`).
use crate::engine::*;
use crate::gens::lua_ast::{self as la, Layout, LayoutMode, Level, Mask, Program, Rendered, Size, TokKind};
use crate::gens::util;
use crate::oracle::luavm::Lua55;
use emmylua_code_analysis::{Emmyrc, EmmyrcLuaVersion, VirtualWorkspace};
use emmylua_parser::LuaParser;
use proptest::prelude::*;
use serde::{Deserialize, Serialize};
use tokio_util::sync::CancellationToken;

#[derive(Clone, Debug, Serialize, Deserialize)]
pub enum Case {
    /// generated program; `mutation` = None: direction 1 (valid), Some((kind_raw, pos_raw)): direction 2
    Gen { prog: Program, layout: Layout, mutation: Option<(u16, u16)> },
    /// literal text (regressions / witnesses): `invalid_class` = None: must be accepted at `level`,
    /// Some(class): must be rejected at `level`
    Text { text: String, level: Level, invalid_class: Option<String> },
}

pub struct C03;

pub struct Local {
    vm: Lua55,
    ws: Vec<Option<VirtualWorkspace>>,
}

pub fn emmyrc_for(level_idx: u8) -> Emmyrc {
    let mut e = Emmyrc::default();
    e.runtime.version = match level_idx % 8 {
        0 => EmmyrcLuaVersion::Lua55,
        1 => EmmyrcLuaVersion::Lua54,
        2 => EmmyrcLuaVersion::Lua53,
        3 => EmmyrcLuaVersion::Lua52,
        4 => EmmyrcLuaVersion::Lua51,
        5 => EmmyrcLuaVersion::LuaJIT,
        6 => EmmyrcLuaVersion::LuaJIT2,
        _ => EmmyrcLuaVersion::LuaJIT3,
    };
    e
}

fn fresh_ws(level_idx: u8) -> VirtualWorkspace {
    let mut ws = VirtualWorkspace::new();
    ws.update_emmyrc(emmyrc_for(level_idx));
    ws
}

/// (parser error messages, `syntax-error` diagnostic messages) of `text` at analyzer level `level_idx`
pub fn syntax_reports(ws: &mut VirtualWorkspace, text: &str, level_idx: u8) -> (Vec<String>, Vec<String>) {
    let cfg = crate::props::c01::parser_config(level_idx, true, 0, None);
    let tree = LuaParser::parse(text, cfg);
    let perr: Vec<String> = tree
        .get_errors()
        .iter()
        .filter(|e| matches!(e.kind, emmylua_parser::LuaParseErrorKind::SyntaxError))
        .map(|e| format!("{} @{:?}", e.message, e.range))
        .collect();
    let id = ws.def_file("c03.lua", text);
    let diags = ws.analysis.diagnose_file(id, CancellationToken::new()).unwrap_or_default();
    let derr: Vec<String> = diags
        .iter()
        .filter(|d| matches!(&d.code, Some(lsp_types::NumberOrString::String(s)) if s == "syntax-error"))
        .map(|d| format!("{} @{}:{}", d.message, d.range.start.line, d.range.start.character))
        .collect();
    (perr, derr)
}

/// mechanical root-cause key of an error message: quoted parts, numbers and positions removed, first five words
pub fn slug(msg: &str) -> String {
    let msg = msg.split(" @").next().unwrap_or(msg);
    let mut out = String::new();
    let mut quote: Option<char> = None;
    for c in msg.chars() {
        match quote {
            Some(q) => {
                if c == q {
                    quote = None;
                }
            }
            None => {
                if c == '\'' || c == '`' || c == '"' {
                    quote = Some(c);
                    out.push(' ');
                } else if c.is_ascii_alphabetic() {
                    out.push(c.to_ascii_lowercase());
                } else {
                    out.push(' ');
                }
            }
        }
    }
    out.split_whitespace().take(5).collect::<Vec<_>>().join("-")
}

// ---------------------------------------------------------------------------------------------
// direction 2: mutation classes
// ---------------------------------------------------------------------------------------------

#[derive(Clone, Copy, PartialEq, Eq, Debug)]
enum Judge {
    /// invalid at every level the class applies to; judged when R2 (luars) also rejects the mutated text
    R2,
    /// version-gated syntax below its version: the manual is the only reference (separate evidence class)
    Gated,
    /// rejected by the reference for scoping rather than grammar reasons: counted, never a violation
    Info,
}

#[derive(Clone, Copy, Debug)]
enum Op {
    /// replace one token (kind, exact text or "" = any) by `with` ("" = delete)
    Replace { kind: TokKind, text: &'static str, with: &'static str },
    /// drop the last character of a token of this kind whose text starts with `prefix`
    ChopLast { kind: TokKind, prefix: &'static str },
    /// insert after the opening quote of a short string
    InString(&'static str),
    /// insert a statement in front of a top-level statement
    Insert(&'static str),
    /// insert at the very beginning of the text
    Prepend(&'static str),
    /// insert directly after the first `break` that is followed by `end`
    AfterBreak(&'static str),
}

struct Mut {
    class: &'static str,
    judge: Judge,
    op: Op,
    applies: fn(Level) -> bool,
}

fn any_level(_: Level) -> bool {
    true
}
fn not51(l: Level) -> bool {
    l != Level::Lua51
}
fn ge53(l: Level) -> bool {
    matches!(l, Level::Lua53 | Level::Lua54 | Level::Lua55)
}
fn ge53_or_jit(l: Level) -> bool {
    ge53(l) || l == Level::LuaJIT
}
fn ge54(l: Level) -> bool {
    matches!(l, Level::Lua54 | Level::Lua55)
}
fn le52_or_jit(l: Level) -> bool {
    matches!(l, Level::Lua51 | Level::Lua52 | Level::LuaJIT)
}
fn le53_or_jit(l: Level) -> bool {
    !ge54(l)
}
fn is51(l: Level) -> bool {
    l == Level::Lua51
}
fn is51_or_jit(l: Level) -> bool {
    matches!(l, Level::Lua51 | Level::LuaJIT)
}
fn is52(l: Level) -> bool {
    l == Level::Lua52
}
fn is53_or_jit(l: Level) -> bool {
    matches!(l, Level::Lua53 | Level::LuaJIT)
}
fn le54(l: Level) -> bool {
    l != Level::Lua55
}
fn goto_levels(l: Level) -> bool {
    l != Level::Lua51
}

const KW: TokKind = TokKind::Keyword;
const PU: TokKind = TokKind::Punct;
const NUM: TokKind = TokKind::Number;

static MUTS: &[Mut] = &[
    Mut { class: "drop-end", judge: Judge::R2, op: Op::Replace { kind: KW, text: "end", with: "" }, applies: any_level },
    Mut { class: "drop-then", judge: Judge::R2, op: Op::Replace { kind: KW, text: "then", with: "" }, applies: any_level },
    Mut { class: "drop-do", judge: Judge::R2, op: Op::Replace { kind: KW, text: "do", with: "" }, applies: any_level },
    Mut { class: "drop-until", judge: Judge::R2, op: Op::Replace { kind: KW, text: "until", with: "" }, applies: any_level },
    Mut { class: "drop-assign", judge: Judge::R2, op: Op::Replace { kind: PU, text: "=", with: "" }, applies: any_level },
    Mut { class: "drop-close-paren", judge: Judge::R2, op: Op::Replace { kind: PU, text: ")", with: "" }, applies: any_level },
    Mut { class: "drop-close-brace", judge: Judge::R2, op: Op::Replace { kind: PU, text: "}", with: "" }, applies: any_level },
    Mut { class: "drop-close-bracket", judge: Judge::R2, op: Op::Replace { kind: PU, text: "]", with: "" }, applies: any_level },
    Mut { class: "keyword-as-name", judge: Judge::R2, op: Op::Replace { kind: TokKind::Name, text: "", with: "end" }, applies: any_level },
    Mut { class: "keyword-as-name", judge: Judge::R2, op: Op::Replace { kind: TokKind::Name, text: "", with: "until" }, applies: any_level },
    Mut { class: "method-without-call", judge: Judge::R2, op: Op::Insert("a:b"), applies: any_level },
    Mut { class: "return-not-last", judge: Judge::R2, op: Op::Insert("return;"), applies: any_level },
    Mut { class: "return-not-last", judge: Judge::R2, op: Op::Insert("return 1"), applies: any_level },
    Mut { class: "double-assign", judge: Judge::R2, op: Op::Insert("x = = 1"), applies: any_level },
    Mut { class: "stray-operator", judge: Judge::R2, op: Op::Insert("x = 1 +"), applies: any_level },
    Mut { class: "call-as-lvalue", judge: Judge::R2, op: Op::Insert("f() = 1"), applies: any_level },
    Mut { class: "unfinished-string", judge: Judge::R2, op: Op::ChopLast { kind: TokKind::String, prefix: "" }, applies: any_level },
    Mut { class: "unfinished-long-string", judge: Judge::R2, op: Op::ChopLast { kind: TokKind::LongString, prefix: "" }, applies: any_level },
    Mut { class: "unfinished-long-comment", judge: Judge::R2, op: Op::ChopLast { kind: TokKind::Comment, prefix: "--[" }, applies: any_level },
    Mut { class: "invalid-escape", judge: Judge::R2, op: Op::InString("\\q"), applies: not51 },
    Mut { class: "decimal-escape-too-large", judge: Judge::R2, op: Op::InString("\\300"), applies: any_level },
    Mut { class: "hex-escape-malformed", judge: Judge::R2, op: Op::InString("\\xZ1"), applies: not51 },
    Mut { class: "unicode-escape-missing-brace", judge: Judge::R2, op: Op::InString("\\u41"), applies: ge53_or_jit },
    Mut { class: "unicode-escape-too-large", judge: Judge::R2, op: Op::InString("\\u{80000000}"), applies: ge53_or_jit },
    Mut { class: "malformed-number-hex-no-digits", judge: Judge::R2, op: Op::Replace { kind: NUM, text: "", with: "0x" }, applies: any_level },
    Mut { class: "malformed-number-exponent", judge: Judge::R2, op: Op::Replace { kind: NUM, text: "", with: "1e" }, applies: any_level },
    Mut { class: "malformed-number-exponent", judge: Judge::R2, op: Op::Replace { kind: NUM, text: "", with: "2.5e+" }, applies: any_level },
    Mut { class: "malformed-number-two-dots", judge: Judge::R2, op: Op::Replace { kind: NUM, text: "", with: "3..2" }, applies: any_level },
    Mut { class: "malformed-number-letter-suffix", judge: Judge::R2, op: Op::Replace { kind: NUM, text: "", with: "3x" }, applies: any_level },
    Mut { class: "malformed-number-hex-exponent", judge: Judge::R2, op: Op::Replace { kind: NUM, text: "", with: "0x1p" }, applies: not51 },
    // ---- version-gated (manual only) ----
    Mut { class: "gated-bitwise-operator", judge: Judge::Gated, op: Op::Replace { kind: PU, text: "+", with: "&" }, applies: le52_or_jit },
    Mut { class: "gated-bitwise-operator", judge: Judge::Gated, op: Op::Replace { kind: PU, text: "*", with: "<<" }, applies: le52_or_jit },
    Mut { class: "gated-integer-division", judge: Judge::Gated, op: Op::Replace { kind: PU, text: "*", with: "//" }, applies: le52_or_jit },
    Mut { class: "gated-integer-division", judge: Judge::Gated, op: Op::Replace { kind: PU, text: "/", with: "//" }, applies: le52_or_jit },
    Mut { class: "gated-label", judge: Judge::Gated, op: Op::Insert("::gated_::"), applies: is51 },
    Mut { class: "gated-goto", judge: Judge::Gated, op: Op::Insert("do goto gated_ ::gated_:: end"), applies: is51 },
    Mut { class: "gated-attrib", judge: Judge::Gated, op: Op::Insert("local K_ <const> = 1"), applies: le53_or_jit },
    Mut { class: "gated-empty-statement", judge: Judge::Gated, op: Op::Prepend(";"), applies: is51_or_jit },
    Mut { class: "gated-break-not-last", judge: Judge::Gated, op: Op::AfterBreak(" x = 1"), applies: is51_or_jit },
    Mut { class: "gated-named-vararg", judge: Judge::Gated, op: Op::Insert("local function f_(...va_) end"), applies: le54 },
    Mut { class: "gated-global-declaration", judge: Judge::Gated, op: Op::Insert("global gated_"), applies: le54 },
    Mut { class: "gated-unicode-escape", judge: Judge::Gated, op: Op::InString("\\u{41}"), applies: is52 },
    Mut { class: "gated-unicode-escape-range", judge: Judge::Gated, op: Op::InString("\\u{110000}"), applies: is53_or_jit },
    // ---- informational ----
    Mut { class: "info-break-outside-loop", judge: Judge::Info, op: Op::Insert("do break end"), applies: any_level },
    Mut { class: "info-goto-without-label", judge: Judge::Info, op: Op::Insert("goto nolabel_"), applies: goto_levels },
    Mut { class: "info-duplicate-label", judge: Judge::Info, op: Op::Insert("::dup_:: ::dup_::"), applies: goto_levels },
    Mut { class: "info-const-assign", judge: Judge::Info, op: Op::Insert("do local K_ <const> = 1 K_ = 2 end"), applies: ge54 },
    Mut { class: "info-vararg-outside", judge: Judge::Info, op: Op::Insert("local function f_() return ... end"), applies: any_level },
];

/// applies mutation `m` to the rendered program; None when the text has no place for it
fn apply(m: &Mut, r: &Rendered, pos: u16) -> Option<String> {
    let t = &r.text;
    let pick = |cands: Vec<usize>| -> Option<usize> {
        if cands.is_empty() {
            None
        } else {
            Some(cands[util::idx(pos, cands.len())])
        }
    };
    match m.op {
        Op::Replace { kind, text, with } => {
            let c: Vec<usize> = r.tokens.iter().enumerate().filter(|(_, (rg, k))| *k == kind && (text.is_empty() || &t[rg.clone()] == text)).map(|x| x.0).collect();
            let i = pick(c)?;
            let rg = r.tokens[i].0.clone();
            Some(format!("{} {} {}", &t[..rg.start], with, &t[rg.end..]))
        }
        Op::ChopLast { kind, prefix } => {
            let c: Vec<usize> = r.tokens.iter().enumerate().filter(|(_, (rg, k))| *k == kind && t[rg.clone()].starts_with(prefix)).map(|x| x.0).collect();
            let i = pick(c)?;
            let rg = r.tokens[i].0.clone();
            Some(format!("{}{}", &t[..rg.end - 1], &t[rg.end..]))
        }
        Op::InString(ins) => {
            let c: Vec<usize> = r.tokens.iter().enumerate().filter(|(_, (_, k))| *k == TokKind::String).map(|x| x.0).collect();
            let i = pick(c)?;
            let at = r.tokens[i].0.start + 1;
            Some(format!("{}{}{}", &t[..at], ins, &t[at..]))
        }
        Op::Insert(stmt) => {
            let c: Vec<usize> = r.top_stats.iter().filter(|x| x.start < x.end).map(|x| r.tokens[x.start].0.start).collect();
            let at = pick(c)?;
            Some(format!("{}{} {}", &t[..at], stmt, &t[at..]))
        }
        Op::Prepend(s) => Some(format!("{} {}", s, t)),
        Op::AfterBreak(s) => {
            let c: Vec<usize> = r
                .tokens
                .iter()
                .enumerate()
                .filter(|(_, (rg, k))| *k == KW && &t[rg.clone()] == "break")
                .map(|x| x.0)
                .collect();
            let i = pick(c)?;
            let at = r.tokens[i].0.end;
            Some(format!("{}{}{}", &t[..at], s, &t[at..]))
        }
    }
}

// ---------------------------------------------------------------------------------------------
// program statistics (classes, non-triviality)
// ---------------------------------------------------------------------------------------------

#[derive(Default)]
struct Shape {
    stat_kinds: std::collections::BTreeSet<&'static str>,
    corner: std::collections::BTreeSet<&'static str>,
    non55: bool,
}

fn shape_str(s: &la::StrLit, sh: &mut Shape) {
    match s {
        la::StrLit::Long { level, .. } => {
            sh.corner.insert(if *level > 0 { "lit:long-string-level" } else { "lit:long-string" });
        }
        la::StrLit::Short { pieces, .. } => {
            for p in pieces {
                if let la::StrPiece::Esc(e) = p {
                    let c = e.chars().next().unwrap_or(' ');
                    let k = match c {
                        'x' if e.len() == 3 && e[1..].bytes().all(|b| b.is_ascii_hexdigit()) => "lit:esc-x",
                        'z' if e.len() > 1 || true => {
                            if e == "z" || e.chars().skip(1).all(|c| c.is_whitespace()) {
                                "lit:esc-z"
                            } else {
                                "lit:esc-lenient"
                            }
                        }
                        'u' if e.starts_with("u{") => {
                            let v = u32::from_str_radix(e.trim_start_matches("u{").trim_end_matches('}'), 16).unwrap_or(0);
                            if v > 0x10FFFF {
                                "lit:esc-u>10FFFF"
                            } else if (0xD800..0xE000).contains(&v) {
                                "lit:esc-u-surrogate"
                            } else {
                                "lit:esc-u"
                            }
                        }
                        '0'..='9' => "lit:esc-decimal",
                        '\n' | '\r' => "lit:esc-newline",
                        'n' | 't' | '\\' | '"' | '\'' | 'a' | 'b' | 'f' | 'r' | 'v' => "lit:esc-simple",
                        _ => "lit:esc-lenient",
                    };
                    if k == "lit:esc-lenient" {
                        sh.non55 = true;
                    }
                    sh.corner.insert(k);
                }
            }
        }
    }
}

fn shape_expr(e: &la::Expr, sh: &mut Shape) {
    use la::Expr::*;
    match e {
        Number(n) => {
            let lower = n.to_ascii_lowercase();
            let hex = lower.starts_with("0x");
            let k = if lower.starts_with("0b") || lower.ends_with("ll") || lower.ends_with('i') {
                sh.non55 = true;
                "lit:num-luajit"
            } else if hex && (lower.contains('.') || lower.contains('p')) {
                "lit:num-hex-float"
            } else if hex {
                if lower.len() > 17 { "lit:num-hex-wide" } else { "lit:num-hex" }
            } else if lower.starts_with('.') || lower.ends_with('.') || lower.contains(".e") {
                "lit:num-dot-edge"
            } else if lower.contains('e') {
                "lit:num-exponent"
            } else if lower.len() >= 19 && !lower.contains('.') {
                "lit:num-int-overflow"
            } else {
                ""
            };
            if !k.is_empty() {
                sh.corner.insert(k);
            }
        }
        Str(s) => shape_str(s, sh),
        Name(n) => {
            if n == "goto" {
                sh.non55 = true;
            }
            if matches!(n.as_str(), "goto" | "continue" | "const" | "global") {
                sh.corner.insert("name:soft-keyword");
            }
        }
        Index { obj, key } => {
            shape_expr(obj, sh);
            shape_expr(key, sh);
        }
        Field { obj, .. } => shape_expr(obj, sh),
        Call { f, args } => {
            shape_expr(f, sh);
            shape_args(args, sh);
        }
        Method { obj, args, .. } => {
            sh.corner.insert("expr:method-call");
            shape_expr(obj, sh);
            shape_args(args, sh);
        }
        Function(fb) => shape_func(fb, sh),
        Table(t) => shape_table(t, sh),
        Binary(op, l, r) => {
            if op.is_bitop() {
                sh.corner.insert("expr:bitop");
            }
            if *op == la::BinOp::IDiv {
                sh.corner.insert("expr:idiv");
            }
            shape_expr(l, sh);
            shape_expr(r, sh);
        }
        Unary(_, x) | Paren(x) => shape_expr(x, sh),
        Vararg => {
            sh.corner.insert("expr:vararg");
        }
        _ => {}
    }
}

fn shape_table(t: &la::Table, sh: &mut Shape) {
    for it in &t.items {
        match it {
            la::TableItem::Pos(e) | la::TableItem::Named(_, e) => shape_expr(e, sh),
            la::TableItem::Keyed(k, v) => {
                shape_expr(k, sh);
                shape_expr(v, sh);
            }
        }
    }
}

fn shape_args(a: &la::Args, sh: &mut Shape) {
    match a {
        la::Args::List(v) => v.iter().for_each(|e| shape_expr(e, sh)),
        la::Args::Str(s) => {
            sh.corner.insert("expr:string-call");
            shape_str(s, sh)
        }
        la::Args::Table(t) => {
            sh.corner.insert("expr:table-call");
            shape_table(t, sh)
        }
    }
}

fn shape_func(fb: &la::FuncBody, sh: &mut Shape) {
    if matches!(fb.vararg, Some(la::Vararg::Named(_))) {
        sh.corner.insert("fn:named-vararg");
    }
    for p in &fb.params {
        if p == "goto" {
            sh.non55 = true;
        }
    }
    shape_block(&fb.body, sh);
}

fn shape_block(b: &la::Block, sh: &mut Shape) {
    use la::Stat::*;
    for s in &b.stats {
        let k = match s {
            Empty => "st:empty",
            Assign { targets, values } => {
                targets.iter().chain(values.iter()).for_each(|e| shape_expr(e, sh));
                "st:assign"
            }
            Call(e) => {
                shape_expr(e, sh);
                "st:call"
            }
            Label(_) => "st:label",
            Goto(_) => "st:goto",
            Break => "st:break",
            Do(b) => {
                shape_block(b, sh);
                "st:do"
            }
            While { cond, body } => {
                shape_expr(cond, sh);
                shape_block(body, sh);
                "st:while"
            }
            Repeat { body, cond } => {
                shape_expr(cond, sh);
                shape_block(body, sh);
                "st:repeat"
            }
            If { cond, then, elseifs, els } => {
                shape_expr(cond, sh);
                shape_block(then, sh);
                for (e, b) in elseifs {
                    shape_expr(e, sh);
                    shape_block(b, sh);
                }
                if let Some(b) = els {
                    shape_block(b, sh);
                }
                "st:if"
            }
            NumFor { start, stop, step, body, .. } => {
                shape_expr(start, sh);
                shape_expr(stop, sh);
                if let Some(e) = step {
                    shape_expr(e, sh);
                }
                shape_block(body, sh);
                "st:numeric-for"
            }
            GenFor { exprs, body, .. } => {
                exprs.iter().for_each(|e| shape_expr(e, sh));
                shape_block(body, sh);
                "st:generic-for"
            }
            Function { name, body } => {
                if name.base == "goto" {
                    sh.non55 = true;
                }
                if name.method.is_some() {
                    sh.corner.insert("fn:method-name");
                } else if !name.path.is_empty() {
                    sh.corner.insert("fn:field-name");
                }
                shape_func(body, sh);
                "st:function"
            }
            LocalFunction { body, .. } => {
                shape_func(body, sh);
                "st:local-function"
            }
            GlobalFunction { body, .. } => {
                shape_func(body, sh);
                "st:global-function"
            }
            Local { prefix, names, values } => {
                values.iter().for_each(|e| shape_expr(e, sh));
                if names.iter().any(|n| n.0 == "goto") {
                    sh.non55 = true;
                }
                if prefix.is_some() {
                    sh.corner.insert("attrib:prefix");
                }
                if names.iter().any(|n| n.1 == Some(la::Attrib::Close)) {
                    sh.corner.insert("attrib:close");
                }
                if names.iter().any(|n| n.1 == Some(la::Attrib::Const)) {
                    sh.corner.insert("attrib:const");
                }
                "st:local"
            }
            Global { values, .. } => {
                values.iter().for_each(|e| shape_expr(e, sh));
                "st:global"
            }
            GlobalAll { .. } => "st:global-all",
        };
        sh.stat_kinds.insert(k);
    }
    if let Some(r) = &b.ret {
        r.exprs.iter().for_each(|e| shape_expr(e, sh));
        sh.stat_kinds.insert("st:return");
    }
}

fn shape(p: &Program) -> Shape {
    let mut sh = Shape::default();
    shape_block(&la::Block { stats: p.prologue.clone(), ret: None }, &mut sh);
    shape_block(&p.block, &mut sh);
    sh
}

// ---------------------------------------------------------------------------------------------

impl C03 {
    fn ws<'a>(&self, local: &'a mut Local, level_idx: u8) -> &'a mut VirtualWorkspace {
        let i = (level_idx % 8) as usize;
        if local.ws[i].is_none() {
            local.ws[i] = Some(fresh_ws(level_idx));
        }
        local.ws[i].as_mut().unwrap()
    }

    /// reports at one analyzer level; a report that a fresh workspace does not reproduce is not charged
    fn reports(&self, local: &mut Local, text: &str, level_idx: u8, obs: &mut Obs) -> Result<(Vec<String>, Vec<String>), String> {
        let ws = self.ws(local, level_idx);
        let r = catch(|| syntax_reports(ws, text, level_idx));
        match r {
            Ok(x) => {
                let mut fresh = fresh_ws(level_idx);
                let again = catch(|| syntax_reports(&mut fresh, text, level_idx))?;
                if again != x {
                    obs.class("reused-workspace-differs(C04/C08)");
                }
                Ok(again)
            }
            Err(e) => {
                local.ws[(level_idx % 8) as usize] = None;
                Err(e)
            }
        }
    }

    fn judge_valid(&self, text: &str, level: Level, local: &mut Local, obs: &mut Obs) -> Result<(), Verdict> {
        for &li in level.parser_levels() {
            let (perr, derr) = match self.reports(local, text, li, obs) {
                Ok(x) => x,
                Err(e) => {
                    obs.class(&format!("panic:{}", panic_site(&e)));
                    return Err(Verdict::Skip("analyzer-panic(C02/C12)".into()));
                }
            };
            if let Some(m) = perr.first().or(derr.first()) {
                let from = if perr.is_empty() { "diagnostic" } else { "parser" };
                return Err(Verdict::fail(
                    format!("false-error:{}", slug(m)),
                    format!("valid Lua {} program reported at analyzer level {} ({from}): {:?} {:?}\n--- text ---\n{}", level.name(), util::level_name(li), perr, derr, text),
                ));
            }
        }
        Ok(())
    }

    fn judge_invalid(&self, text: &str, level: Level, class: &str, judge: Judge, local: &mut Local, obs: &mut Obs) -> Verdict {
        // gated classes are about the plain level only (the extended LuaJIT levels add the operators)
        let li = level.parser_level();
        let (perr, derr) = match self.reports(local, text, li, obs) {
            Ok(x) => x,
            Err(e) => {
                obs.class(&format!("panic:{}", panic_site(&e)));
                return Verdict::Skip("analyzer-panic(C02/C12)".into());
            }
        };
        let reported = !perr.is_empty() || !derr.is_empty();
        match judge {
            Judge::Info => {
                obs.class(&format!("{}:{}", class, if reported { "reported-as-syntax-error" } else { "not-a-syntax-error" }));
                Verdict::pass(false)
            }
            _ => {
                obs.class(&format!("judged:{}", class));
                if reported {
                    Verdict::pass(true)
                } else {
                    Verdict::fail(
                        format!("missed-error:{}", class),
                        format!("Lua {} rejects this text ({class}) but the analyzer at level {} reports no syntax error\n--- text ---\n{}", level.name(), util::level_name(li), text),
                    )
                }
            }
        }
    }
}

const D2_MASK: Mask = Mask(u32::MAX & !(Mask::ODD_NAMES | Mask::LENIENT_ESCAPES));

impl Property for C03 {
    type Case = Case;
    type Local = Local;
    fn id(&self) -> &'static str {
        "C03"
    }
    fn rule(&self) -> String {
        "direction 1: AST-generated programs valid by construction at level 5.1/5.2/5.3/5.4/5.5/LuaJIT x 5 layouts, judged when luars (Lua 5.5) agrees where it applies (5.5-compatible text), oracle = no parser error and no syntax-error diagnostic at the matching analyzer level(s); direction 2: one by-construction-invalid mutation (50 classes: judged = lexical/grammatical and confirmed by luars, gated = version-gated syntax below its version judged by the manual, info = scoping errors, never a violation), oracle = at least one parser error or syntax-error diagnostic. non-trivial = judged case whose program has >=3 distinct statement kinds or a literal/expression corner form".into()
    }
    fn assumptions(&self) -> Vec<String> {
        vec![
            "no reference implementation of Lua 5.1-5.4 / LuaJIT is available: for those levels validity rests on construction from the manuals (and on luars for text that is also valid 5.5)".into(),
            "luars 0.26 is a faithful port of the Lua 5.5 compiler".into(),
        ]
    }
    fn cases(&self, tier: Tier) -> u32 {
        tier.pick(100_000, 5_000_000)
    }
    fn strategy(&self, tier: Tier) -> BoxedStrategy<Case> {
        let size = Size::for_tier(tier);
        let d1 = la::any_program(size).prop_map(|(prog, layout)| Case::Gen { prog, layout, mutation: None });
        let progs: Vec<BoxedStrategy<Program>> = Level::ALL
            .iter()
            .map(|l| {
                let m = if *l == Level::LuaJIT { D2_MASK.without(Mask::NUM_CORNERS) } else { D2_MASK };
                la::program_with(*l, Size::small(), m)
            })
            .collect();
        let d2 = (proptest::strategy::Union::new(progs), la::layout(), any::<u16>(), any::<u16>()).prop_map(|(prog, layout, k, p)| Case::Gen { prog, layout, mutation: Some((k, p)) });
        prop_oneof![3 => d1, 1 => d2].boxed()
    }
    fn fixed_cases(&self, _tier: Tier) -> Vec<Case> {
        let ok = |t: &str, l: Level| Case::Text { text: t.into(), level: l, invalid_class: None };
        let bad = |t: &str, l: Level, c: &str| Case::Text { text: t.into(), level: l, invalid_class: Some(c.into()) };
        vec![
            ok("local s = '\\u{7FFFFFFF}'", Level::Lua54),
            ok("local s = '\\u{D800}'", Level::Lua53),
            ok("local x = 9223372036854775808 + 0xffffffffffffffffff + 1e400 ;;; return x", Level::Lua54),
            ok("global x; global<const> *", Level::Lua55),
            ok("local function f(...t) return t end", Level::Lua55),
            ok("goto = 1 local continue, const = goto", Level::Lua51),
            bad("x = '\\q'", Level::Lua54, "invalid-escape"),
            bad("x = 1e", Level::Lua54, "malformed-number-exponent"),
            bad("x = 0x", Level::Lua54, "malformed-number-hex-no-digits"),
            bad("x = 3..2", Level::Lua54, "malformed-number-two-dots"),
            bad("a:b", Level::Lua54, "method-without-call"),
            bad("return return", Level::Lua54, "return-not-last"),
        ]
    }
    fn simplify(&self, c: &Case) -> Vec<Case> {
        match c {
            Case::Gen { prog, layout, mutation } => {
                let mut out = vec![];
                if layout.mode != LayoutMode::Plain || !layout.choices.is_empty() || layout.eol != 0 {
                    out.push(Case::Gen { prog: prog.clone(), layout: Layout::plain(), mutation: *mutation });
                }
                for p in la::simplify(prog) {
                    out.push(Case::Gen { prog: p, layout: layout.clone(), mutation: *mutation });
                }
                out
            }
            Case::Text { text, level, invalid_class } => util::text_simplify(text).into_iter().map(|t| Case::Text { text: t, level: *level, invalid_class: invalid_class.clone() }).collect(),
        }
    }
    fn local(&self) -> Local {
        Local { vm: Lua55::new(), ws: (0..8).map(|_| None).collect() }
    }
    fn check(&self, c: &Case, local: &mut Local, obs: &mut Obs) -> Verdict {
        match c {
            Case::Text { text, level, invalid_class: None } => {
                obs.class("fixed:valid");
                match self.judge_valid(text, *level, local, obs) {
                    Ok(()) => Verdict::pass(true),
                    Err(v) => v,
                }
            }
            Case::Text { text, level, invalid_class: Some(class) } => {
                obs.class("fixed:invalid");
                if class.starts_with("gated-") {
                    return self.judge_invalid(text, *level, class, Judge::Gated, local, obs);
                }
                // shrunk texts must still be rejected by the reference (where it can speak)
                if local.vm.compile(text).is_ok() {
                    return Verdict::Skip("mutation-still-valid".into());
                }
                self.judge_invalid(text, *level, class, Judge::R2, local, obs)
            }
            Case::Gen { prog, layout, mutation } => {
                let level = prog.level;
                let mut prog = prog.clone();
                if mutation.is_some() {
                    // inserted statements use undeclared names: no strict-globals mode in direction 2
                    prog.strict_globals = false;
                }
                la::sanitize(&mut prog);
                let r = la::render(&prog, layout);
                let sh = shape(&prog);
                obs.class(&format!("level:{}", level.name()));
                obs.class(&format!("layout:{:?}", layout.mode));
                let base55 = if sh.non55 { None } else { Some(local.vm.compile(&r.text)) };
                match base55 {
                    None => obs.class("r2:not-applicable(non-5.5 form)"),
                    Some(Ok(())) => obs.class("r2:accepts"),
                    Some(Err(Some(msg))) => {
                        // 5.5-compatible by construction but luars rejects: generator or luars bug, not judged
                        obs.class(&format!("oracle_disagreement:{}", slug(msg.rsplit(':').next().unwrap_or(&msg))));
                        return Verdict::Skip("oracle_disagreement".into());
                    }
                    Some(Err(None)) => return Verdict::Skip("r2-internal-failure".into()),
                }
                match mutation {
                    None => {
                        obs.class("dir1");
                        for k in &sh.stat_kinds {
                            obs.class(k);
                        }
                        for k in &sh.corner {
                            obs.class(k);
                        }
                        obs.class_if(prog.strict_globals, "strict-globals");
                        match self.judge_valid(&r.text, level, local, obs) {
                            Ok(()) => Verdict::pass(sh.stat_kinds.len() >= 3 || !sh.corner.is_empty()),
                            Err(v) => v,
                        }
                    }
                    Some((kraw, pos)) => {
                        obs.class("dir2");
                        // choose among the mutations that have a place in this text
                        let cands: Vec<(&Mut, String)> = MUTS.iter().filter(|m| (m.applies)(level)).filter_map(|m| apply(m, &r, *pos).map(|t| (m, t))).collect();
                        if cands.is_empty() {
                            return Verdict::Skip("no-applicable-mutation".into());
                        }
                        let (m, text) = &cands[util::idx(*kraw, cands.len())];
                        match m.judge {
                            Judge::R2 | Judge::Info => {
                                if base55.is_none() {
                                    return Verdict::Skip("r2-not-applicable".into());
                                }
                                match local.vm.compile(text) {
                                    Ok(()) => {
                                        obs.class(&format!("mutation-still-valid:{}", m.class));
                                        return Verdict::Skip("mutation-still-valid".into());
                                    }
                                    Err(None) => return Verdict::Skip("r2-internal-failure".into()),
                                    Err(Some(msg)) => {
                                        // a judged class needs a *syntactic* rejection by the reference
                                        let scoping = ["not declared", "attempt to assign to const", "jumps into the scope", "no visible label", "break outside", "already defined", "outside a vararg"];
                                        if m.judge == Judge::R2 && scoping.iter().any(|k| msg.contains(k)) {
                                            obs.class(&format!("r2-rejects-for-scoping:{}", m.class));
                                            return Verdict::Skip("r2-rejects-for-scoping".into());
                                        }
                                    }
                                }
                            }
                            Judge::Gated => {}
                        }
                        let v = self.judge_invalid(text, level, m.class, m.judge, local, obs);
                        match v {
                            Verdict::Pass { nontrivial: true } => Verdict::pass(sh.stat_kinds.len() >= 3 || !sh.corner.is_empty()),
                            v => v,
                        }
                    }
                }
            }
        }
    }
}
