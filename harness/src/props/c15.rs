//! C15 — Flow-narrowed types always contain the runtime value's type.
//!
//! Also hosts the machinery shared with C41 (probe inference, admission table, VM/interpreter runs).
use crate::engine::*;
use crate::gens::flow_frag::{self as ff, Prog};
use crate::oracle::luaexec::{End, Vm};
use emmylua_code_analysis::{LuaType, RenderLevel, VirtualWorkspace, humanize_type};
use emmylua_parser::{LuaAssignStat, LuaAstNode, LuaCallExpr, LuaExpr, LuaLocalStat};
use proptest::prelude::*;
use serde::{Deserialize, Serialize};
use std::collections::{BTreeMap, BTreeSet, HashMap};

#[derive(Clone, Debug, Serialize, Deserialize)]
pub struct Case {
    pub prog: Prog,
    /// analyse with the bundled std library loaded (the shipped configuration) or without
    pub std: bool,
}

pub struct Local {
    pub ws_std: VirtualWorkspace,
    pub vm: Vm,
}

impl Local {
    pub fn new() -> Local {
        Local { ws_std: VirtualWorkspace::new_with_init_std_lib(), vm: Vm::new() }
    }
}

#[derive(Clone, Copy, Debug, PartialEq, Eq)]
pub enum Admit {
    Yes,
    No,
    /// a variant outside the fragment's vocabulary: admits everything (can only weaken the check)
    Wild,
}

/// DESIGN §5 C15 admission table: does the static type admit a runtime value of Lua type `rt`?
pub fn admits(ty: &LuaType, rt: &str) -> Admit {
    let yes = |b: bool| if b { Admit::Yes } else { Admit::No };
    match ty {
        LuaType::Nil => yes(rt == "nil"),
        LuaType::Boolean | LuaType::BooleanConst(_) | LuaType::DocBooleanConst(_) => yes(rt == "boolean"),
        LuaType::String | LuaType::StringConst(_) | LuaType::DocStringConst(_) => yes(rt == "string"),
        LuaType::Integer | LuaType::Number | LuaType::IntegerConst(_) | LuaType::FloatConst(_) | LuaType::DocIntegerConst(_) => yes(rt == "number"),
        LuaType::Table | LuaType::TableConst(_) | LuaType::Array(_) | LuaType::Tuple(_) | LuaType::Object(_) | LuaType::TableGeneric(_) => yes(rt == "table"),
        LuaType::Function | LuaType::DocFunction(_) | LuaType::Signature(_) => yes(rt == "function"),
        LuaType::Union(u) => fold(u.into_vec().iter().map(|m| admits(m, rt))),
        LuaType::MultiLineUnion(u) => fold(u.get_unions().iter().map(|(m, _)| admits(m, rt))),
        LuaType::Never => Admit::No,
        _ => Admit::Wild,
    }
}

/// the static type *definitely* contains a value of Lua type `rt` with the given truthiness
/// (wildcards do not count; `true` does not contain `false`)
pub fn admits_strict(ty: &LuaType, rt: u8, truthy: bool) -> bool {
    match ty {
        LuaType::BooleanConst(b) | LuaType::DocBooleanConst(b) => rt == 1 && *b == truthy,
        LuaType::Union(u) => u.into_vec().iter().any(|m| admits_strict(m, rt, truthy)),
        LuaType::MultiLineUnion(u) => u.get_unions().iter().any(|(m, _)| admits_strict(m, rt, truthy)),
        _ => admits(ty, ff::TYPE_NAMES[rt as usize]) == Admit::Yes,
    }
}

fn fold(it: impl Iterator<Item = Admit>) -> Admit {
    let mut out = Admit::No;
    for a in it {
        match a {
            Admit::Yes => return Admit::Yes,
            Admit::Wild => out = Admit::Wild,
            Admit::No => {}
        }
    }
    out
}

pub fn show_type(ws: &VirtualWorkspace, ty: &LuaType) -> String {
    let s = humanize_type(ws.analysis.compilation.get_db(), ty, RenderLevel::Detailed);
    // union member order follows a hash set: sort for stable messages
    if let LuaType::Union(_) = ty {
        let inner = s.trim_start_matches('(').trim_end_matches(')');
        let mut parts: Vec<&str> = inner.split('|').map(|x| x.trim()).collect();
        parts.sort();
        return format!("({})", parts.join("|"));
    }
    s
}

pub enum Inferred {
    Type(LuaType),
    Err(String),
}

/// analyses `text` and infers the type of the second argument of every `__probe(id, x)` call
pub fn infer_probes(ws: &mut VirtualWorkspace, text: &str) -> Result<HashMap<u32, Inferred>, String> {
    Ok(analyse(ws, text)?.0)
}

/// (probe id → inferred type, 0-based lines of `x = y` / `local x = y` statements whose `y` is inferred as a union)
pub fn analyse(ws: &mut VirtualWorkspace, text: &str) -> Result<(HashMap<u32, Inferred>, BTreeSet<u32>), String> {
    let fid = ws.def_file("flow_case.lua", text);
    let sm = ws.analysis.compilation.get_semantic_model(fid).ok_or("no semantic model")?;
    let root = sm.get_root().clone();
    let line_of = |pos: rowan::TextSize| text[..usize::from(pos)].bytes().filter(|b| *b == b'\n').count() as u32;
    let mut union_rhs_lines = BTreeSet::new();
    let mut rhs_exprs: Vec<LuaExpr> = vec![];
    for st in root.descendants::<LuaAssignStat>() {
        rhs_exprs.extend(st.get_var_and_expr_list().1);
    }
    for st in root.descendants::<LuaLocalStat>() {
        rhs_exprs.extend(st.get_value_exprs());
    }
    for e in rhs_exprs {
        if let LuaExpr::NameExpr(_) = &e {
            if let Ok(LuaType::Union(_) | LuaType::MultiLineUnion(_)) = sm.infer_expr(e.clone()) {
                union_rhs_lines.insert(line_of(e.get_position()));
            }
        }
    }
    let mut out = HashMap::new();
    for call in root.descendants::<LuaCallExpr>() {
        let Some(LuaExpr::NameExpr(name)) = call.get_prefix_expr() else { continue };
        if name.get_name_text().as_deref() != Some("__probe") {
            continue;
        }
        let Some(args) = call.get_args_list() else { continue };
        let args: Vec<LuaExpr> = args.get_args().collect();
        if args.len() != 2 {
            continue;
        }
        let Ok(id) = args[0].syntax().text().to_string().trim().parse::<u32>() else { continue };
        let inf = match sm.infer_expr(args[1].clone()) {
            Ok(t) => Inferred::Type(t),
            Err(e) => Inferred::Err(format!("{:?}", e)),
        };
        out.insert(id, inf);
    }
    Ok((out, union_rhs_lines))
}

/// One reached probe, merged over all runs.
#[derive(Clone, Debug, Default)]
pub struct Observed {
    pub var: u8,
    /// (runtime type index, truthiness) → one provenance seen with it
    pub types: BTreeMap<(u8, bool), ff::Origin>,
}

pub struct Execution {
    pub norm: Prog,
    pub text: String,
    pub ids: HashMap<usize, u32>,
    pub site_lines: HashMap<usize, u32>,
    pub n_probes: u32,
    /// probe id → observations (only probes reached in some run)
    pub observed: BTreeMap<u32, Observed>,
    pub loop_stats: HashMap<usize, ff::LoopStat>,
    pub runs: u32,
    pub diverged_runs: u32,
}

/// Runs the program under every relevant assignment of the opaque booleans in `luars` and in the
/// reference interpreter.  Err(category) = the case cannot be judged.
pub fn execute(prog: &Prog, vm: &mut Vm, obs: &mut Obs) -> Result<Execution, String> {
    let norm = ff::normalize(prog);
    let r = ff::render(&norm);
    let mut observed: BTreeMap<u32, Observed> = BTreeMap::new();
    let mut loop_stats = HashMap::new();
    let mut site_types = HashMap::new();
    let mut runs = 0;
    let mut diverged_runs = 0;
    for env in ff::envs(&norm) {
        let mine = ff::interpret(&norm, &r.probe_ids, env, &mut loop_stats, &mut site_types);
        let opaque: Vec<bool> = (0..ff::N_OPAQUE).map(|k| env >> k & 1 == 1).collect();
        let (ev, end) = vm.run(&r.text, &opaque, 200_000);
        runs += 1;
        match &end {
            End::CompileError(m) => {
                obs.class("luars-compile-error");
                return Err(format!("luars-compile-error: {}", one_line(m, 120)));
            }
            End::RuntimeError(m) => {
                obs.class("luars-runtime-error");
                return Err(format!("luars-runtime-error: {}", one_line(m, 120)));
            }
            _ => {}
        }
        let vm_limit = matches!(end, End::Limit);
        if mine.diverged || vm_limit {
            diverged_runs += 1;
            // both must agree on the common prefix; the run is then dropped
            let n = ev.len().min(mine.events.len());
            let same = (0..n).all(|i| ev[i].0 == mine.events[i].id as i64 && ev[i].1 == ff::TYPE_NAMES[mine.events[i].val.ty as usize]);
            if !same {
                return Err("oracle_disagreement".into());
            }
            continue;
        }
        if ev.len() != mine.events.len() || !ev.iter().zip(mine.events.iter()).all(|(a, b)| a.0 == b.id as i64 && a.1 == ff::TYPE_NAMES[b.val.ty as usize]) {
            return Err("oracle_disagreement".into());
        }
        for e in &mine.events {
            let o = observed.entry(e.id).or_default();
            o.var = e.var;
            o.types.entry((e.val.ty, e.val.truthy)).or_insert(e.val.origin);
        }
    }
    Ok(Execution { norm, text: r.text, ids: r.probe_ids, site_lines: r.site_lines, n_probes: r.n_probes, observed, loop_stats, runs, diverged_runs })
}

/// A probe whose inferred type does not admit an observed runtime type.
pub struct Mismatch {
    pub id: u32,
    pub var: u8,
    pub inferred: String,
    pub is_never: bool,
    pub rt: u8,
    pub origin: ff::Origin,
    /// the value was copied by `x = y` from a variable whose static type is a union
    pub from_union_var: bool,
    /// not a violation: the Lua type is admitted, but not *definitely* (wildcard variant) or not at the
    /// literal level (`true` vs a runtime `false`).  Only recorded for values assigned in loop bodies;
    /// C41 uses it to recognise consequences of a lost loop-body assignment.
    pub soft: bool,
}

pub struct Judged {
    pub mismatches: Vec<Mismatch>,
    pub reached: u32,
    pub wild: u32,
    pub infer_err: u32,
}

pub fn judge(ws: &mut VirtualWorkspace, ex: &Execution, obs: &mut Obs) -> Result<Judged, String> {
    let (inferred, union_rhs_lines) = analyse(ws, &ex.text)?;
    let mut j = Judged { mismatches: vec![], reached: 0, wild: 0, infer_err: 0 };
    for (id, o) in &ex.observed {
        j.reached += 1;
        let Some(inf) = inferred.get(id) else {
            return Err("probe-not-found-in-tree".into());
        };
        let ty = match inf {
            Inferred::Type(t) => t,
            Inferred::Err(_) => {
                j.infer_err += 1;
                continue;
            }
        };
        for ((rt, truthy), origin) in &o.types {
            let mk = |soft: bool, ws: &VirtualWorkspace| {
                let from_union_var = origin.copied && ex.site_lines.get(&origin.site).map(|l| union_rhs_lines.contains(l)).unwrap_or(false);
                Mismatch { id: *id, var: o.var, inferred: show_type(ws, ty), is_never: ty.is_never(), rt: *rt, origin: *origin, from_union_var, soft }
            };
            match admits(ty, ff::TYPE_NAMES[*rt as usize]) {
                Admit::No => {
                    // one hard mismatch per (probe, Lua type)
                    if !j.mismatches.iter().any(|m| !m.soft && m.id == *id && m.rt == *rt) {
                        j.mismatches.push(mk(false, ws));
                    }
                }
                a => {
                    if a == Admit::Wild {
                        j.wild += 1;
                    }
                    if origin.in_loop.is_some() && !admits_strict(ty, *rt, *truthy) {
                        j.mismatches.push(mk(true, ws));
                    }
                }
            }
        }
    }
    obs.count("probes_reached", j.reached as u64);
    obs.count("admitted_by_wildcard", j.wild as u64);
    obs.count("infer_err_admitted", j.infer_err as u64);
    Ok(j)
}

/// the innermost enclosing guard that mentions `var`, as a skeleton with its polarity
pub fn guard_skeleton(ctx: &ff::ProbeCtx, var: u8) -> String {
    match ctx.guards.iter().rev().find(|(c, _)| ff::cond_mentions(c, var)) {
        Some((c, pol)) => format!("{}{}", if *pol { "" } else { "else:" }, ff::cond_skeleton(c, var)),
        None => "unguarded".into(),
    }
}

/// `x = y` where the analyzer types `y` as a union
pub fn copied_from_union(_ex: &Execution, m: &Mismatch) -> bool {
    m.from_union_var
}

pub fn c15_sig(ex: &Execution, m: &Mismatch, ctx: &ff::ProbeCtx) -> String {
    let what = if m.is_never { "never" } else { "excluded" };
    if copied_from_union(ex, m) {
        // root cause independent of guards and of which member got lost
        return format!("assign-from-union-var:{}", what);
    }
    format!(
        "{}:{}:{}{}{}",
        what,
        ff::TYPE_NAMES[m.rt as usize],
        guard_skeleton(ctx, m.var),
        if ctx.in_closure { ":in-closure" } else { "" },
        if m.origin.copied { ":var-copy" } else { "" }
    )
}

pub struct C15;

impl Property for C15 {
    type Case = Case;
    type Local = Local;
    fn id(&self) -> &'static str {
        "C15"
    }
    fn level(&self) -> &'static str {
        "exploration"
    }
    fn rule(&self) -> String {
        "cases = flow_frag programs (1-4 locals initialised with literals of every Lua type, reassignments from literals/other locals, shadowing locals, if/elseif/else with guards type(x)==/~=T, x==nil, x~=nil, truthiness, not/and/or/parentheses, opaque globals __c1..__c5, do-blocks, immediately-called closures, early return; probes __probe(id,x)) x std library on/off; each program is executed in luars under every assignment of the opaque booleans it reads and in an independent reference interpreter; every reached probe's infer_expr type must admit every observed runtime type. non-trivial = some reached probe sits under a guard mentioning its variable and observes a value that came from a reassignment".into()
    }
    fn assumptions(&self) -> Vec<String> {
        vec![
            "luars implements type(), truthiness, scoping and control flow of the fragment correctly; cross-checked per run against an independent interpreter written from the reference manual (disagreement = case dropped as oracle_disagreement)".into(),
            "closures in the fragment are called immediately and never assign outer locals (normalize rewrites such assignments into shadowing locals): the property's fragment has no closures, so upvalue mutation is outside its domain".into(),
            "type variants outside the fragment's vocabulary (any, unknown, ref, ...) and infer errors admit every runtime type (counted)".into(),
        ]
    }
    fn cases(&self, tier: Tier) -> u32 {
        tier.pick(60_000, 1_500_000)
    }
    fn strategy(&self, tier: Tier) -> BoxedStrategy<Case> {
        (ff::prog(tier.pick(8, 12)), prop::bool::weighted(0.8)).prop_map(|(prog, std)| Case { prog, std }).boxed()
    }
    fn simplify(&self, c: &Case) -> Vec<Case> {
        ff::simplify(&c.prog).into_iter().map(|prog| Case { prog, std: c.std }).collect()
    }
    fn render(&self, c: &Case) -> serde_json::Value {
        serde_json::json!({"std": c.std, "program": ff::render(&ff::normalize(&c.prog)).text})
    }
    fn local(&self) -> Local {
        Local::new()
    }
    fn fixed_cases(&self, _tier: Tier) -> Vec<Case> {
        vec![]
    }
    fn check(&self, c: &Case, local: &mut Local, obs: &mut Obs) -> Verdict {
        let ex = match execute(&c.prog, &mut local.vm, obs) {
            Ok(x) => x,
            Err(cat) => return Verdict::Skip(cat.split(':').next().unwrap_or("skip").to_string()),
        };
        let mut fresh;
        let ws = if c.std {
            &mut local.ws_std
        } else {
            fresh = VirtualWorkspace::new();
            &mut fresh
        };
        let j = match judge(ws, &ex, obs) {
            Ok(j) => j,
            Err(cat) => return Verdict::Skip(cat),
        };
        let ctxs = ff::probe_contexts(&ex.norm, &ex.ids);
        obs.class(if c.std { "std" } else { "no-std" });
        obs.class_if(ex.runs > 1, "opaque-conditions");
        obs.class_if(ex.runs >= 8, "runs>=8");
        obs.class_if(ff::has_loops(&ex.norm.body), "has-loops");
        let mut nontrivial = false;
        let mut kinds: BTreeSet<String> = BTreeSet::new();
        for (id, o) in &ex.observed {
            let ctx = &ctxs[id];
            let guarded = ctx.guards.iter().any(|(g, _)| ff::cond_mentions(g, o.var));
            if guarded {
                obs.class("probe-under-guard");
                kinds.insert(guard_skeleton(ctx, o.var));
            }
            obs.class_if(ctx.in_closure, "probe-in-closure");
            obs.class_if(o.types.len() > 1, "probe-sees-several-types");
            if guarded && o.types.values().any(|or| or.reassigned) {
                nontrivial = true;
            }
        }
        obs.class_if(ex.observed.len() < ex.n_probes as usize, "has-unreached-probe");
        for k in kinds.iter() {
            if k.contains(" and ") || k.contains(" or ") {
                obs.class(if k.starts_with("else:") { "guard:else:compound" } else { "guard:compound" });
            } else {
                obs.class(&format!("guard:{}", k));
            }
        }
        // report a mismatch of the broad, known root-cause class only when there is no other one
        let hard: Vec<&Mismatch> = j.mismatches.iter().filter(|m| !m.soft).collect();
        let pick = hard.iter().find(|m| !copied_from_union(&ex, m)).or(hard.first()).copied();
        if let Some(m) = pick {
            let ctx = &ctxs[&m.id];
            let sig = c15_sig(&ex, m, ctx);
            return Verdict::fail(
                sig,
                format!(
                    "probe {} of `{}`: inferred {} but the VM observed a {} value ({} mismatching probe/type pairs; std={})\n{}",
                    m.id,
                    ff::VAR_NAMES[m.var as usize],
                    m.inferred,
                    ff::TYPE_NAMES[m.rt as usize],
                    hard.len(),
                    c.std,
                    ex.text
                ),
            );
        }
        Verdict::pass(nontrivial)
    }
}
