//! C36 — The checker's exit status and reports match the diagnostics (black box: real `emmylua_check`).
use crate::engine::*;
use crate::ls::disk::TempWs;
use proptest::prelude::*;
use serde::{Deserialize, Serialize};
use serde_json::Value;
use std::collections::BTreeMap;
use std::path::{Path, PathBuf};
use std::process::{Command, Stdio};

#[derive(Clone, Debug, Serialize, Deserialize)]
pub struct Case {
    /// per file: list of statement kinds (0 undefined global, 1 unused local, 2 syntax error, 3 clean statement, 4 deprecated-free call)
    pub files: Vec<Vec<u8>>,
    /// severity override for undefined-global / unused in .emmyrc.json: 0 none, 1 error, 2 warning, 3 information, 4 hint
    pub sev_ug: u8,
    pub sev_unused: u8,
    /// also put a file in a library root (must never be reported)
    pub library: bool,
    /// variants to run: (severity filter 0 none/1 error/2 warn/3 info/4 hint, warnings_as_errors, format 0 text/1 json/2 json-file/3 sarif/4 sarif-file)
    pub variants: Vec<(u8, bool, u8)>,
    /// file naming: 0 = m<i>.lua / sub/m<i>.lua; 1 = the first two files are `foo.lua` and `foo/init.lua` (one module
    /// name, two files); 2 = `init.lua` in the root and in sub/; 3 = same base name in two directories
    #[serde(default)]
    pub layout: u8,
}

pub struct C36;

fn bin() -> PathBuf {
    let root = std::env::var("VERIF_ROOT").unwrap_or_else(|_| "/verif".into());
    Path::new(&root).join("harness/target-bins/release/emmylua_check")
}

const SEV_NAMES: [&str; 5] = ["", "error", "warning", "information", "hint"];

fn file_text(fi: usize, kinds: &[u8]) -> String {
    let mut s = String::new();
    for (k, kind) in kinds.iter().enumerate() {
        match kind % 5 {
            0 => s.push_str(&format!("UG_{fi}_{k}()\n")),
            1 => s.push_str(&format!("local unused_{fi}_{k} = {k}\n")),
            2 => s.push_str("local = 1\n"),
            3 => s.push_str(&format!("local used_{fi}_{k} = {k}\nprint(used_{fi}_{k})\n")),
            _ => s.push_str(&format!("  UG_{fi}_{k}_b(UG_{fi}_{k}_c)\n")),
        }
    }
    s
}

/// (file path, start line, start char, end line, end char, code, severity 1..4, message)
type D = (String, u32, u32, u32, u32, String, u8, String);

fn parse_json(v: &Value) -> Option<Vec<D>> {
    let mut out = vec![];
    for f in v.as_array()? {
        let file = f.get("file")?.as_str()?.to_string();
        for d in f.get("diagnostics")?.as_array()? {
            let r = d.get("range")?;
            out.push((
                file.clone(),
                r["start"]["line"].as_u64()? as u32,
                r["start"]["character"].as_u64()? as u32,
                r["end"]["line"].as_u64()? as u32,
                r["end"]["character"].as_u64()? as u32,
                d.get("code").and_then(|c| c.as_str()).unwrap_or("").to_string(),
                d.get("severity").and_then(|c| c.as_u64()).unwrap_or(0) as u8,
                d.get("message")?.as_str()?.to_string(),
            ));
        }
    }
    out.sort();
    Some(out)
}

fn parse_sarif(v: &Value) -> Option<Vec<D>> {
    let mut out = vec![];
    for run in v.get("runs")?.as_array()? {
        for r in run.get("results")?.as_array()? {
            let loc = r.get("locations")?.as_array()?.first()?.get("physicalLocation")?;
            let uri = loc.get("artifactLocation")?.get("uri")?.as_str()?;
            let file = uri.strip_prefix("file://").unwrap_or(uri).to_string();
            let reg = loc.get("region")?;
            let sev = match r.get("level").and_then(|l| l.as_str()).unwrap_or("") {
                "error" => 1,
                "warning" => 2,
                "note" => 0, // information and hint are both rendered as note
                _ => 0,
            };
            out.push((
                file,
                reg["startLine"].as_u64()? as u32 - 1,
                reg["startColumn"].as_u64()? as u32 - 1,
                reg["endLine"].as_u64()? as u32 - 1,
                reg["endColumn"].as_u64()? as u32 - 1,
                r.get("ruleId").and_then(|c| c.as_str()).unwrap_or("").to_string(),
                sev,
                r.get("message")?.get("text")?.as_str()?.to_string(),
            ));
        }
    }
    out.sort();
    Some(out)
}

/// text report: (file relative, line 0-based, col 0-based, code, severity, message)
fn parse_text(s: &str) -> Vec<(String, u32, u32, String, u8, String)> {
    let mut out = vec![];
    let lines: Vec<&str> = s.lines().collect();
    let mut i = 0;
    while i < lines.len() {
        let l = lines[i];
        let sev = if l.starts_with("error: ") {
            1
        } else if l.starts_with("warning: ") {
            2
        } else if l.starts_with("info: ") {
            3
        } else if l.starts_with("hint: ") {
            4
        } else {
            0
        };
        if sev != 0 && l.ends_with(']') && i + 1 < lines.len() && lines[i + 1].trim_start().starts_with("--> ") {
            let body = &l[l.find(": ").unwrap() + 2..];
            if let Some(b) = body.rfind(" [") {
                let msg = body[..b].to_string();
                let code = body[b + 2..body.len() - 1].to_string();
                let loc = lines[i + 1].trim_start().trim_start_matches("--> ");
                let mut parts = loc.rsplitn(3, ':');
                let col: u32 = parts.next().and_then(|x| x.parse().ok()).unwrap_or(0);
                let line: u32 = parts.next().and_then(|x| x.parse().ok()).unwrap_or(0);
                let file = parts.next().unwrap_or("").to_string();
                out.push((file, line.saturating_sub(1), col.saturating_sub(1), code, sev, msg));
            }
            i += 2;
            continue;
        }
        i += 1;
    }
    out.sort();
    out
}

struct Run {
    code: i32,
    stdout: String,
}

fn run(ws_root: &Path, args: &[String]) -> Option<Run> {
    let out = Command::new(bin()).arg(ws_root).args(args).stdin(Stdio::null()).stderr(Stdio::null()).output().ok()?;
    Some(Run { code: out.status.code().unwrap_or(-1), stdout: String::from_utf8_lossy(&out.stdout).into_owned() })
}

impl Property for C36 {
    type Case = Case;
    type Local = (TempWs, TempWs);
    fn id(&self) -> &'static str {
        "C36"
    }
    fn rule(&self) -> String {
        "cases = on-disk workspaces of 2-5 files (also `foo.lua` next to `foo/init.lua`, i.e. two files with one module name, init.lua files, equal base names in two directories) whose lines carry constructed diagnostics (uniquely named undefined globals, unused locals, syntax errors, clean code), a generated .emmyrc.json overriding the severity of undefined-global/unused, optionally a library root with diagnostics that must never be reported; the real emmylua_check binary is run once as baseline (`-f json --severity hint`) and then for 4-8 generated variants of (--severity filter, --warnings-as-errors, output format text/json/json-file/sarif/sarif-file); oracle: ground-truth diagnostics are in the baseline under their own file, exactly once; every variant reports exactly the baseline filtered by severity (json/sarif: full (file, range, code, message) multiset; text: (file, line, col, code, severity, message) multiset), nothing from the library root; exit status is non-zero iff the filtered set has an error, or a warning under --warnings-as-errors; non-trivial = baseline has >=3 severities in >=2 files".into()
    }
    fn assumptions(&self) -> Vec<String> {
        vec!["SARIF renders information and hint both as level note, so severities are compared for error/warning only in SARIF".into()]
    }
    fn cases(&self, tier: Tier) -> u32 {
        tier.pick(48, 1500)
    }
    fn strategy(&self, tier: Tier) -> BoxedStrategy<Case> {
        (
            proptest::collection::vec(proptest::collection::vec(0u8..5, 1..7), 2..5),
            0u8..5,
            0u8..5,
            any::<bool>(),
            proptest::collection::vec((0u8..5, any::<bool>(), 0u8..5), tier.pick(4, 8)..tier.pick(8, 16)),
            prop_oneof![3 => Just(0u8), 2 => Just(1u8), 1 => Just(2u8), 1 => Just(3u8)],
        )
            .prop_map(|(files, sev_ug, sev_unused, library, variants, layout)| Case { files, sev_ug, sev_unused, library, variants, layout })
            .boxed()
    }
    fn max_shrink_iters(&self, _tier: Tier) -> u32 {
        60
    }
    fn local(&self) -> (TempWs, TempWs) {
        (TempWs::new("c36"), TempWs::new("c36out"))
    }
    fn check(&self, c: &Case, (ws, outdir): &mut (TempWs, TempWs), obs: &mut Obs) -> Verdict {
        if !bin().exists() {
            return Verdict::Skip("emmylua_check-binary-missing".into());
        }
        ws.clear();
        outdir.clear();
        let root = ws.root.canonicalize().unwrap_or(ws.root.clone());
        let mut diag_cfg = serde_json::Map::new();
        let mut sev = serde_json::Map::new();
        if c.sev_ug != 0 {
            sev.insert("undefined-global".into(), Value::String(SEV_NAMES[c.sev_ug as usize].into()));
        }
        if c.sev_unused != 0 {
            sev.insert("unused".into(), Value::String(SEV_NAMES[c.sev_unused as usize].into()));
        }
        diag_cfg.insert("severity".into(), Value::Object(sev));
        let mut cfg = serde_json::Map::new();
        cfg.insert("diagnostics".into(), Value::Object(diag_cfg));
        if c.library {
            ws.write("lib_root/libfile.lua", "UG_LIBRARY_ONLY()\nlocal = 2\n");
            cfg.insert("workspace".into(), serde_json::json!({"library": [root.join("lib_root").to_string_lossy()], "ignoreDir": ["lib_root"]}));
        }
        ws.write(".emmyrc.json", &serde_json::to_string_pretty(&Value::Object(cfg)).unwrap());
        let mut truth: Vec<(String, u32, String, String)> = vec![]; // (file, line, code, marker in message)
        for (fi, kinds) in c.files.iter().enumerate() {
            let name = match (c.layout, fi) {
                (1, 0) => "foo.lua".to_string(),
                (1, 1) => "foo/init.lua".to_string(),
                (2, 0) => "init.lua".to_string(),
                (2, 1) => "sub/init.lua".to_string(),
                (3, 0) => "a/same.lua".to_string(),
                (3, 1) => "b/same.lua".to_string(),
                _ if fi % 2 == 1 => format!("sub/m{fi}.lua"),
                _ => format!("m{fi}.lua"),
            };
            obs.class_if(c.layout == 1 && fi == 1, "two-files-one-module-name");
            ws.write(&name, &file_text(fi, kinds));
            let path = root.join(&name).to_string_lossy().to_string();
            let mut line = 0u32;
            for (k, kind) in kinds.iter().enumerate() {
                match kind % 5 {
                    0 => {
                        truth.push((path.clone(), line, "undefined-global".into(), format!("UG_{fi}_{k}")));
                        line += 1;
                    }
                    1 => {
                        truth.push((path.clone(), line, "unused".into(), format!("unused_{fi}_{k}")));
                        line += 1;
                    }
                    2 => {
                        truth.push((path.clone(), line, "syntax-error".into(), String::new()));
                        line += 1;
                    }
                    3 => line += 2,
                    _ => {
                        truth.push((path.clone(), line, "undefined-global".into(), format!("UG_{fi}_{k}_b")));
                        truth.push((path.clone(), line, "undefined-global".into(), format!("UG_{fi}_{k}_c")));
                        line += 1;
                    }
                }
            }
        }
        // baseline
        let Some(b) = run(&root, &["-f".into(), "json".into(), "--severity".into(), "hint".into()]) else {
            return Verdict::Skip("cannot-run-binary".into());
        };
        let base_v: Value = match serde_json::from_str(if b.stdout.trim().is_empty() { "[]" } else { &b.stdout }) {
            Ok(v) => v,
            Err(e) => return Verdict::fail("json-report-does-not-parse", format!("baseline json output does not parse: {e}: {}", one_line(&b.stdout, 300))),
        };
        let Some(base) = parse_json(&base_v) else {
            return Verdict::fail("json-report-malformed", format!("baseline json has an unexpected shape: {}", one_line(&b.stdout, 300)));
        };
        if base.iter().any(|d| d.0.contains("lib_root") || d.7.contains("UG_LIBRARY_ONLY")) {
            return Verdict::fail("library-file-reported", format!("a diagnostic of the library root is reported: {:?}", base.iter().find(|d| d.0.contains("lib_root"))));
        }
        for (file, line, code, marker) in &truth {
            let n = base.iter().filter(|d| &d.0 == file && d.1 == *line && &d.5 == code && d.7.contains(marker.as_str())).count();
            // a syntax error can produce follow-up errors on the same line; require at least one, exactly one for the uniquely named ones
            let ok = if marker.is_empty() { n >= 1 } else { n == 1 };
            if !ok {
                return Verdict::fail(format!("constructed-diagnostic-count:{code}"), format!("constructed {code} diagnostic ({marker}) at {file}:{line} appears {n} times in the baseline report"));
            }
        }
        let sevs: std::collections::BTreeSet<u8> = base.iter().map(|d| d.6).collect();
        let files: std::collections::BTreeSet<&String> = base.iter().map(|d| &d.0).collect();
        let nontrivial = sevs.len() >= 3 && files.len() >= 2;
        // duplicates in the baseline itself
        for w in base.windows(2) {
            if w[0] == w[1] {
                return Verdict::Skip("duplicate-diagnostic-in-baseline(C21)".into());
            }
        }
        for (vi, (filter, wae, format)) in c.variants.iter().enumerate() {
            let mut args: Vec<String> = vec![];
            let out_file = outdir.path(&format!("report{vi}.out"));
            match format % 5 {
                0 => {}
                1 => args.extend(["-f".into(), "json".into()]),
                2 => args.extend(["-f".into(), "json".into(), "--output".into(), out_file.to_string_lossy().to_string()]),
                3 => args.extend(["-f".into(), "sarif".into()]),
                _ => args.extend(["-f".into(), "sarif".into(), "--output".into(), out_file.to_string_lossy().to_string()]),
            }
            let fname = ["", "error", "warn", "info", "hint"][*filter as usize % 5];
            if !fname.is_empty() {
                args.extend(["--severity".into(), fname.into()]);
            }
            if *wae {
                args.push("--warnings-as-errors".into());
            }
            let Some(r) = run(&root, &args) else { return Verdict::Skip("cannot-run-binary".into()) };
            let limit = if *filter % 5 == 0 { 4 } else { *filter % 5 };
            let expected: Vec<D> = base.iter().filter(|d| d.6 >= 1 && d.6 <= limit).cloned().collect();
            let want_fail = expected.iter().any(|d| d.6 == 1 || (*wae && d.6 == 2));
            let desc = format!("variant {:?} (args {:?})", (filter, wae, format), args);
            obs.class(&format!("format:{}", ["text", "json", "json-file", "sarif", "sarif-file"][*format as usize % 5]));
            if (r.code != 0) != want_fail {
                return Verdict::fail(
                    format!("exit-status:{}", if want_fail { "zero-despite-errors" } else { "nonzero-without-errors" }),
                    format!("{desc}: exit code {} but the filtered report has {} errors and {} warnings", r.code, expected.iter().filter(|d| d.6 == 1).count(), expected.iter().filter(|d| d.6 == 2).count()),
                );
            }
            let report_text = match format % 5 {
                2 | 4 => std::fs::read_to_string(&out_file).unwrap_or_default(),
                _ => r.stdout.clone(),
            };
            match format % 5 {
                0 => {
                    let got = parse_text(&report_text);
                    let mut want: Vec<(String, u32, u32, String, u8, String)> = expected
                        .iter()
                        .map(|d| (Path::new(&d.0).strip_prefix(&root).map(|p| p.to_string_lossy().to_string()).unwrap_or(d.0.clone()), d.1, d.2, d.5.clone(), d.6, d.7.clone()))
                        .collect();
                    want.sort();
                    // multi-line messages cannot be parsed back from the text report: compare only single-line ones
                    let want1: Vec<_> = want.iter().filter(|w| !w.5.contains('\n')).cloned().collect();
                    let got1: Vec<_> = got.iter().filter(|g| want.iter().any(|w| w.5.contains('\n') && w.5.starts_with(&g.5)) == false).cloned().collect();
                    if got1 != want1 {
                        let missing: Vec<_> = want1.iter().filter(|w| !got1.contains(w)).take(3).collect();
                        let extra: Vec<_> = got1.iter().filter(|g| !want1.contains(g)).take(3).collect();
                        return Verdict::fail("text-report-differs", format!("{desc}: text report differs from the filtered baseline; missing {missing:?}, extra {extra:?}"));
                    }
                }
                1 | 2 => {
                    let v: Value = match serde_json::from_str(if report_text.trim().is_empty() { "[]" } else { &report_text }) {
                        Ok(v) => v,
                        Err(e) => return Verdict::fail("json-report-does-not-parse", format!("{desc}: {e}: {}", one_line(&report_text, 200))),
                    };
                    let Some(got) = parse_json(&v) else { return Verdict::fail("json-report-malformed", desc) };
                    if got != expected {
                        let missing: Vec<_> = expected.iter().filter(|w| !got.contains(w)).take(3).collect();
                        let extra: Vec<_> = got.iter().filter(|g| !expected.contains(g)).take(3).collect();
                        return Verdict::fail("json-report-differs", format!("{desc}: json report differs from the filtered baseline; missing {missing:?}, extra {extra:?}"));
                    }
                }
                _ => {
                    let v: Value = match serde_json::from_str(&report_text) {
                        Ok(v) => v,
                        Err(e) => return Verdict::fail("sarif-report-does-not-parse", format!("{desc}: {e}: {}", one_line(&report_text, 200))),
                    };
                    let Some(got) = parse_sarif(&v) else { return Verdict::fail("sarif-report-malformed", format!("{desc}: {}", one_line(&report_text, 300))) };
                    let mut want: Vec<D> = expected.iter().map(|d| (d.0.clone(), d.1, d.2, d.3, d.4, d.5.clone(), if d.6 <= 2 { d.6 } else { 0 }, d.7.clone())).collect();
                    want.sort();
                    if got != want {
                        let missing: Vec<_> = want.iter().filter(|w| !got.contains(w)).take(3).collect();
                        let extra: Vec<_> = got.iter().filter(|g| !want.contains(g)).take(3).collect();
                        return Verdict::fail("sarif-report-differs", format!("{desc}: sarif report differs from the filtered baseline; missing {missing:?}, extra {extra:?}"));
                    }
                }
            }
        }
        let mut per: BTreeMap<u8, usize> = BTreeMap::new();
        for d in &base {
            *per.entry(d.6).or_default() += 1;
        }
        obs.count("baseline-diagnostics", base.len() as u64);
        obs.count("binary-runs", c.variants.len() as u64 + 1);
        Verdict::pass(nontrivial)
    }
}
