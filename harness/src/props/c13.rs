//! C13 — Names resolve to the declaration Lua's scoping rules select.
use crate::engine::*;
use crate::gens::scope_frag::{self, Frame, NameTok, Program};
use crate::oracle::scoping::{self, Actual};
use emmylua_code_analysis::{LuaSemanticDeclId, SemanticDeclLevel, SemanticModel, VirtualWorkspace};
use emmylua_parser::LuaAstNode;
use proptest::prelude::*;
use rowan::{NodeOrToken, TextSize};
use serde::{Deserialize, Serialize};
use std::collections::HashMap;

#[derive(Clone, Debug, Serialize, Deserialize)]
pub struct Case {
    pub prog: Program,
}

pub struct C13;

/// What `find_decl` answers for the name token at `tok`, mapped onto the token list.
pub fn observe(model: &SemanticModel, toks: &[NameTok], by_off: &HashMap<usize, usize>, i: usize, level: SemanticDeclLevel) -> Result<Actual, String> {
    let t = &toks[i];
    let root = model.get_root().syntax().clone();
    let Some(tok) = root.token_at_offset(TextSize::new(t.offset as u32)).right_biased() else {
        return Err(format!("no token at offset {}", t.offset));
    };
    if tok.text() != t.name || usize::from(tok.text_range().start()) != t.offset {
        return Err(format!("token at offset {} is {:?}, expected {:?}", t.offset, tok.text(), t.name));
    }
    let r = model.find_decl(NodeOrToken::Token(tok), level);
    Ok(match r {
        Some(LuaSemanticDeclId::LuaDecl(id)) => {
            let db = model.get_db();
            match db.get_decl_index().get_decl(&id) {
                Some(d) if d.is_local() || d.is_param() => {
                    let off = usize::from(id.position);
                    match by_off.get(&off) {
                        Some(k) if toks[*k].is_decl => Actual::Local(*k),
                        _ => Actual::LocalAt(off),
                    }
                }
                _ => Actual::NonLocal,
            }
        }
        _ => Actual::NonLocal,
    })
}

fn describe(toks: &[NameTok], a: &Actual) -> String {
    match a {
        Actual::Local(k) => format!("local declared at offset {} ({})", toks[*k].offset, toks[*k].kind.map(|x| x.name()).unwrap_or("?")),
        Actual::LocalAt(o) => format!("local at offset {o} (not a declaring token)"),
        Actual::NonLocal => "no local declaration (global/unresolved)".into(),
    }
}

impl Property for C13 {
    type Case = Case;
    /// signatures of open known findings (used only to choose WHICH of several failing uses of one program is reported)
    type Local = Vec<String>;
    fn id(&self) -> &'static str {
        "C13"
    }
    fn rule(&self) -> String {
        "cases = scope_frag programs (names a-d skewed to collide; multi-local with duplicates, `local x = x`, local functions, closures with (duplicate) parameters, numeric/generic for with names and closures in header expressions, repeat-until, while, do, if/elseif/else, plain/dotted/method function statements; nesting <=3 quick / <=4 thorough). Every name-use token is compared: SemanticModel::find_decl at NoTrace must be the declaring token chosen by the reference resolver (Lua manual 3.5), or a non-local when the reference says global; at the default trace level the same unless the answer differs from the NoTrace answer (go-to-definition alias tracing, not judged). non-trivial = program has >=1 use that sees >=2 visible declarations of its name (shadowing) and >=1 use inside a loop header, an until condition or a function body; distinct = distinct case digest".into()
    }
    fn assumptions(&self) -> Vec<String> {
        vec![
            "Duplicate names inside one declaration list (local a, a / function(a, a) / for a, a in) resolve to the LAST one, as the property statement says for `local` and as Lua's active-variable search does for the other lists.".into(),
            "Only SemanticModel::find_decl is observed (the LSP definition handler needs hook H3, which is C14's); answers at the default trace level that differ from the NoTrace answer are alias tracing and are not judged.".into(),
        ]
    }
    fn cases(&self, tier: Tier) -> u32 {
        tier.pick(60_000, 600_000)
    }
    fn strategy(&self, tier: Tier) -> BoxedStrategy<Case> {
        scope_frag::program(tier.pick(3, 4), tier.pick(8, 10)).prop_map(|prog| Case { prog }).boxed()
    }
    fn simplify(&self, c: &Case) -> Vec<Case> {
        c.prog.simplify().into_iter().map(|prog| Case { prog }).collect()
    }
    fn fixed_cases(&self, _tier: Tier) -> Vec<Case> {
        use scope_frag::{Block, Expr, Stmt};
        let pr = |e: Vec<Expr>| Stmt::CallStat(Expr::Call(Box::new(Expr::Global(0)), e));
        let blk = |stmts: Vec<Stmt>| Block { stmts, ret: None };
        vec![
            // local a = 1; for a = a, 9 do print(a) end
            Case { prog: Program { body: blk(vec![Stmt::Local(vec![0], vec![Expr::Num(1)]), Stmt::NumFor(0, Expr::Name(0), Expr::Num(9), None, blk(vec![pr(vec![Expr::Name(0)])]))]) } },
            // local a, a = 1, 2; print(a)
            Case { prog: Program { body: blk(vec![Stmt::Local(vec![0, 0], vec![Expr::Num(1), Expr::Num(2)]), pr(vec![Expr::Name(0)])]) } },
            // local a = 1; local a = a; repeat local b = a until b
            Case {
                prog: Program {
                    body: blk(vec![
                        Stmt::Local(vec![0], vec![Expr::Num(1)]),
                        Stmt::Local(vec![0], vec![Expr::Name(0)]),
                        Stmt::Repeat(blk(vec![Stmt::Local(vec![1], vec![Expr::Name(0)])]), Expr::Name(1)),
                    ]),
                },
            },
        ]
    }
    fn local(&self) -> Vec<String> {
        let root = std::path::PathBuf::from(std::env::var("VERIF_ROOT").unwrap_or_else(|_| "/verif".into()));
        findings::load(&root).into_iter().filter(|e| e.property == "C13" && e.status == "open").map(|e| e.signature).collect()
    }
    fn render(&self, c: &Case) -> serde_json::Value {
        serde_json::Value::String(c.prog.render_raw().0)
    }
    fn check(&self, c: &Case, known: &mut Vec<String>, obs: &mut Obs) -> Verdict {
        let (text, toks) = c.prog.render();
        let mut ws = VirtualWorkspace::new();
        let file_id = ws.def_file("c13.lua", &text);
        let Some(model) = ws.analysis.compilation.get_semantic_model(file_id) else {
            return Verdict::Skip("no-semantic-model".into());
        };
        if let Some(tree) = model.get_db().get_vfs().get_syntax_tree(&file_id) {
            if !tree.get_errors().is_empty() {
                // the generator only emits valid Lua; a syntax error here is the parser's business (C03)
                return Verdict::Skip("syntax-error".into());
            }
        }
        let by_off: HashMap<usize, usize> = toks.iter().enumerate().map(|(i, t)| (t.offset, i)).collect();

        let mut shadow = false;
        let mut special = false;
        let mut fails: Vec<(String, String)> = vec![];
        let mut uses = 0u64;
        for (i, t) in toks.iter().enumerate() {
            if t.is_decl {
                continue;
            }
            uses += 1;
            if t.visible >= 2 {
                shadow = true;
                obs.class("use:shadowed");
            }
            let mut in_closure = false;
            for f in &t.frames {
                match f {
                    Frame::NumHdr(_) => {
                        special = true;
                        obs.class(if in_closure { "use:in-numeric-for-header-closure" } else { "use:in-numeric-for-header" });
                    }
                    Frame::GenHdr(_) => {
                        special = true;
                        obs.class("use:in-generic-for-header");
                    }
                    Frame::Until(v, _, _) => {
                        special = true;
                        obs.class("use:in-until");
                        if t.expected_decl.map(|e| v.contains(&e)).unwrap_or(false) {
                            obs.class("use:until-sees-body-local");
                        }
                    }
                    Frame::LocalInit(v) => {
                        if v.iter().any(|d| toks[*d].name == t.name) {
                            obs.class("use:local-x-eq-x");
                        }
                    }
                    Frame::Closure(_) => {
                        special = true;
                        in_closure = true;
                    }
                    Frame::Block(_) => {}
                }
            }
            if in_closure && t.expected_decl.map(|e| toks[e].frames.len() < t.frames.len()).unwrap_or(false) {
                obs.class("use:upvalue-or-outer");
            }
            match t.expected_decl {
                None => obs.class("expect:global"),
                Some(e) => {
                    obs.class(&format!("expect:{}", toks[e].kind.map(|k| k.name()).unwrap_or("?")));
                    let dups = toks.iter().filter(|x| x.is_decl && x.group == toks[e].group && x.name == toks[e].name).count();
                    if dups >= 2 {
                        obs.class(&format!("expect:dup-{}", toks[e].kind.map(|k| k.name()).unwrap_or("?")));
                    }
                }
            }
            obs.class_if(t.is_write, "use:write");

            let strict = match observe(&model, &toks, &by_off, i, SemanticDeclLevel::NoTrace) {
                Ok(a) => a,
                Err(e) => return Verdict::fail("harness:token-lookup", e),
            };
            let traced = match observe(&model, &toks, &by_off, i, SemanticDeclLevel::default()) {
                Ok(a) => a,
                Err(e) => return Verdict::fail("harness:token-lookup", e),
            };
            if traced != strict {
                obs.class("alias-trace-differs(not judged)");
            }
            let ok = match t.expected_decl {
                Some(e) => strict == Actual::Local(e),
                None => strict == Actual::NonLocal,
            };
            if !ok && fails.len() < 64 {
                let sig = scoping::classify(&toks, i, &strict);
                let exp = match t.expected_decl {
                    Some(e) => format!("local declared at offset {} ({})", toks[e].offset, toks[e].kind.map(|k| k.name()).unwrap_or("?")),
                    None => "global (no local visible)".into(),
                };
                let line = text[..t.offset].matches('\n').count() + 1;
                fails.push((
                    sig,
                    format!("use of `{}` at offset {} (line {line}): reference = {exp}; find_decl = {}; program:\n{}", t.name, t.offset, describe(&toks, &strict), text),
                ));
            }
        }
        obs.count("uses", uses);
        obs.count("decls", toks.len() as u64 - uses);
        obs.count("statements", c.prog.stmt_count() as u64);
        // a program may contain several wrong answers: report one whose root cause is not a known finding if there is one
        if std::env::var_os("VERIF_SURVEY").is_some() {
            // development aid: histogram of all failure signatures instead of stopping at the first
            for f in &fails {
                obs.class(&format!("survey-fail:{}", f.0));
            }
            fails.clear();
        }
        if let Some((sig, msg)) = fails.iter().find(|f| !known.contains(&f.0)).or(fails.first()) {
            return Verdict::fail(sig.clone(), msg.clone());
        }
        Verdict::pass(shadow && special)
    }
}
