//! C30 — Published diagnostics converge to the current content.
use crate::engine::*;
use crate::ls::disk::TempWs;
use crate::ls::{did_change, did_close, did_open, Ls, LsOpts};
use proptest::prelude::*;
use serde::{Deserialize, Serialize};
use serde_json::json;
use tokio_util::sync::CancellationToken;

#[derive(Clone, Debug, Serialize, Deserialize)]
pub enum Op {
    Edit(u8, u8),
    Close(u8),
    Save(u8),
    /// watched-file event for an on-disk doc: 2 changed on disk, 3 deleted
    Watched(u8, u8),
    Advance(u16),
    /// let time pass until the debounce timer of doc `d`'s last edit is due (500 ms after it), `delta` - 1 ms off:
    /// the next operation then meets the diagnostic task at its start
    AdvanceToDebounce(u8, u8),
}

#[derive(Clone, Debug, Serialize, Deserialize)]
pub struct Case {
    pub ops: Vec<Op>,
    pub schedule: Vec<u8>,
}

pub struct C30;
const NDOCS: u8 = 3;

fn op_strategy() -> impl Strategy<Value = Op> {
    prop_oneof![
        7 => (0..NDOCS, 0u8..4).prop_map(|(d, k)| Op::Edit(d, k)),
        1 => (0..NDOCS).prop_map(Op::Close),
        1 => (0..NDOCS).prop_map(Op::Save),
        1 => (0..NDOCS, 2u8..4).prop_map(|(d, t)| Op::Watched(d, t)),
        4 => prop_oneof![0u16..120, 300u16..720, 0u16..2500].prop_map(Op::Advance),
        2 => (0..NDOCS, 0u8..3).prop_map(|(d, delta)| Op::AdvanceToDebounce(d, delta)),
    ]
}

/// one operation, or "wait until doc d's debounce timer is due, then operate on d" (the operation meets the starting task)
fn phrase_strategy() -> impl Strategy<Value = Vec<Op>> {
    let on_doc = |d: u8| prop_oneof![(0u8..4).prop_map(move |k| Op::Edit(d, k)), Just(Op::Close(d)), Just(Op::Save(d)), (2u8..4).prop_map(move |t| Op::Watched(d, t))];
    prop_oneof![
        12 => op_strategy().prop_map(|o| vec![o]),
        3 => (0..NDOCS, 0u8..3).prop_flat_map(move |(d, delta)| on_doc(d).prop_map(move |o| vec![Op::AdvanceToDebounce(d, delta), o])),
    ]
}

fn body(i: usize, kind: u8) -> String {
    match kind % 4 {
        0 => format!("local v{i} = undefined_g{i}\nreturn v{i}\n"),
        1 => format!("local ok{i} = 1\nreturn ok{i}\n"),
        2 => format!("local t{i} = {{}}\nt{i}.x = undefined_a{i} + undefined_b{i}\nlocal unused{i}\n"),
        _ => format!("local s{i} = (\n"),
    }
}

fn norm(ds: &[lsp_types::Diagnostic]) -> Vec<String> {
    let mut v: Vec<String> = ds
        .iter()
        .map(|d| format!("{}:{}-{}:{} {:?} {:?} {}", d.range.start.line, d.range.start.character, d.range.end.line, d.range.end.character, d.code, d.severity, d.message))
        .collect();
    v.sort();
    v
}

impl Property for C30 {
    type Case = Case;
    type Local = TempWs;
    fn id(&self) -> &'static str {
        "C30"
    }
    fn rule(&self) -> String {
        "cases = edit/close/save/watched-file histories (3-30 ops) over 3 documents (1 not on disk, 2 on disk) of a push-diagnostics client with virtual-time gaps around the 500 ms debounce (0-120, 300-720, 0-2500 ms, or exactly up to the due time of a pending debounce timer -1/0/+1 ms) and a schedule vector for task starts/lock acquisitions, played in-process; oracle = after quiescence, for every open workspace file the LAST textDocument/publishDiagnostics for its uri equals diagnose_file of its current content (sorted (range, code, severity, message)); a file removed from the analysis (closed while not on disk, or deleted) ends with an empty published set; non-trivial = two edits of one file less than 500 virtual ms apart (overlapping debounce windows)".into()
    }
    fn assumptions(&self) -> Vec<String> {
        vec!["'fresh diagnosis' is computed on the server's own settled analysis (index staleness is C08/C09's concern)".into()]
    }
    fn cases(&self, tier: Tier) -> u32 {
        tier.pick(12_000, 300_000)
    }
    fn strategy(&self, tier: Tier) -> BoxedStrategy<Case> {
        (proptest::collection::vec(phrase_strategy(), 3..tier.pick(30, 60)).prop_map(|v| v.into_iter().flatten().collect::<Vec<Op>>()), prop_oneof![1 => Just(vec![]), 2 => proptest::collection::vec(any::<u8>(), 0..80)])
            .prop_map(|(ops, schedule)| Case { ops, schedule })
            .boxed()
    }
    fn local(&self) -> TempWs {
        TempWs::new("c30")
    }
    fn check(&self, c: &Case, ws: &mut TempWs, obs: &mut Obs) -> Verdict {
        let _ = take_panics();
        ws.clear();
        ws.write("d1.lua", "local a = 1\nreturn a\n");
        ws.write("d2.lua", "return undefined_on_disk\n");
        let names = ["virt.lua", "d1.lua", "d2.lua"];
        let uris: Vec<_> = names.iter().map(|n| crate::ls::uri_for(ws.path(n).to_str().unwrap())).collect();
        let mut ls = Ls::new(LsOpts { pull_diagnostics: false, schedule: c.schedule.clone(), roots: vec![ws.root.clone()], load_disk: true, ..Default::default() });
        let mut open = [false; NDOCS as usize];
        let mut last_edit_at: [Option<u64>; NDOCS as usize] = [None; NDOCS as usize];
        let mut now: u64 = 0;
        let mut version = 0;
        let mut nontrivial = false;
        for (i, op) in c.ops.iter().enumerate() {
            match op {
                Op::Edit(d, k) => {
                    let d = *d as usize;
                    version += 1;
                    let text = body(i, *k);
                    if open[d] {
                        ls.notify("textDocument/didChange", did_change(&uris[d], version, &text));
                    } else {
                        ls.notify("textDocument/didOpen", did_open(&uris[d], &text));
                        open[d] = true;
                    }
                    if let Some(t) = last_edit_at[d] {
                        if now - t < 500 {
                            nontrivial = true;
                            obs.class("overlapping-debounce");
                        }
                    }
                    last_edit_at[d] = Some(now);
                }
                Op::Close(d) => {
                    let d = *d as usize;
                    if open[d] {
                        ls.notify("textDocument/didClose", did_close(&uris[d]));
                        open[d] = false;
                        obs.class("close");
                    }
                }
                Op::Save(d) => {
                    let d = *d as usize;
                    if open[d] {
                        ls.notify("textDocument/didSave", json!({"textDocument": {"uri": uris[d]}}));
                    }
                }
                Op::Watched(d, t) => {
                    let d = *d as usize;
                    if d >= 1 {
                        if *t == 3 {
                            ws.remove(names[d]);
                            obs.class("deleted-on-disk");
                        } else {
                            ws.write(names[d], &format!("return undefined_w{i}\n"));
                        }
                        ls.notify("workspace/didChangeWatchedFiles", json!({"changes": [{"uri": uris[d], "type": *t}]}));
                    }
                }
                Op::Advance(ms) => {
                    ls.advance(*ms as u64);
                    now += *ms as u64;
                }
                Op::AdvanceToDebounce(d, delta) => {
                    if let Some(t) = last_edit_at[*d as usize % NDOCS as usize] {
                        let due = (t + 500 + *delta as u64).saturating_sub(1);
                        if due > now {
                            ls.advance(due - now);
                            now = due;
                            obs.class("next-op-meets-due-debounce-timer");
                        }
                    }
                }
            }
        }
        ls.settle();
        if let Some(w) = &ls.wedged {
            return Verdict::fail(format!("wedged:{w}"), format!("main loop wedged while handling {w}"));
        }
        let panics = take_panics();
        if let Some(p) = panics.first() {
            return Verdict::Skip(format!("server-task-panic:{}", panic_site(p)));
        }
        let published = ls.published();
        for d in 0..NDOCS as usize {
            let uri = &uris[d];
            let last = published.iter().rev().find(|p| &p.uri == uri);
            let current: Option<Option<Vec<lsp_types::Diagnostic>>> = ls.with_analysis(|a| {
                let id = a.get_file_id(uri)?;
                a.compilation.get_db().get_vfs().get_file_content(&id)?;
                Some(a.diagnose_file(id, CancellationToken::new()))
            });
            match current {
                Some(Some(expected)) => {
                    if !open[d] {
                        // closed on-disk file: the property speaks about open files only
                        continue;
                    }
                    let got = last.map(|p| norm(&p.diagnostics));
                    let want = norm(&expected);
                    if got.as_ref() != Some(&want) {
                        let kind = if last.is_none() { "never-published" } else { "stale" };
                        return Verdict::fail(
                            format!("published-diagnostics-{kind}"),
                            format!("doc {} is open; last published = {:?}; fresh diagnosis of the current content = {:?}", names[d], got, want),
                        );
                    }
                }
                Some(None) => {
                    // diagnostics disabled for this file (not a workspace file): nothing to compare
                }
                None => {
                    // file is not in the analysis: whatever was published last must be empty
                    if let Some(p) = last {
                        if !p.diagnostics.is_empty() {
                            return Verdict::fail(
                                "removed-file-keeps-diagnostics",
                                format!("doc {} is no longer in the analysis but its last published diagnostics are {:?}", names[d], norm(&p.diagnostics)),
                            );
                        }
                    }
                }
            }
        }
        Verdict::pass(nontrivial)
    }
}
