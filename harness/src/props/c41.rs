//! C41 — Narrowing after loops accounts for what the loop body does.
use crate::engine::*;
use crate::gens::flow_frag::{self as ff, Lit, LoopKind, Prog, ShapeProg};
use crate::oracle::luaexec::End;
use crate::props::c15::{self, Local};
use emmylua_code_analysis::VirtualWorkspace;
use proptest::prelude::*;
use serde::{Deserialize, Serialize};
use tokio_util::sync::CancellationToken;

#[derive(Clone, Debug, Serialize, Deserialize)]
pub enum Case {
    /// generated program with loops; probes after the loops are judged against the VM
    Loop { prog: Prog, std: bool },
    /// "correct code" shape: must not get a nil / non-callable / never diagnostic
    Shape(ShapeProg),
}

pub struct C41;

/// the literal the shape assigns: always truthy (so every shape's loop ends after one assignment)
fn shape_lit(l: Lit) -> Lit {
    match l {
        Lit::Nil => Lit::Str(0),
        Lit::False => Lit::True,
        x => x,
    }
}

pub fn shape_name(s: &ShapeProg) -> &'static str {
    match s.shape % 5 {
        0 => "while-not-v",
        1 => "while-v-eq-nil",
        2 => "repeat-until-v",
        3 => "repeat-until-v-ne-nil",
        _ => "while-type-ne",
    }
}

pub fn render_shape(s: &ShapeProg) -> String {
    let l = shape_lit(s.lit);
    let shape = s.shape % 5;
    let init = match (s.init % 3, shape) {
        (0, _) => "local v = nil",
        (1, 0 | 2 | 4) => "local v = false",
        (1, _) => "local v = nil",
        _ => "local v",
    };
    let mut out = String::new();
    out.push_str(init);
    out.push('\n');
    let pad = |out: &mut String| {
        for k in 0..(s.pad % 3) {
            out.push_str(&format!("  if __c{} then __probe(0, v) end\n", k + 1));
        }
    };
    match shape {
        0 => out.push_str("while not v do\n"),
        1 => out.push_str("while v == nil do\n"),
        2 | 3 => out.push_str("repeat\n"),
        _ => out.push_str(&format!("while type(v) ~= \"{}\" do\n", ff::TYPE_NAMES[l.ty() as usize])),
    }
    pad(&mut out);
    out.push_str(&format!("  v = {}\n", l.text()));
    match shape {
        2 => out.push_str("until v\n"),
        3 => out.push_str("until v ~= nil\n"),
        _ => out.push_str("end\n"),
    }
    // use(v): an operation that is valid for the literal's type and invalid for nil
    let use_v = match l {
        Lit::Str(_) => "local u = v:upper()",
        Lit::Int(_) | Lit::Float(_) => "local u = v + 1",
        Lit::Table(_) => "local u = v.k",
        Lit::Func => "local u = v()",
        _ => "local u = not v",
    };
    out.push_str(use_v);
    out.push_str("\n__probe(1, v)\n");
    out
}

fn loop_sig(m: &c15::Mismatch, ctx: &ff::ProbeCtx) -> String {
    match m.origin.in_loop {
        // the value was assigned inside a loop body (kind = the outermost loop around the assignment)
        // and is seen after that loop; a `never` here is the same loss followed by a guard
        // `while true`: a value first assigned in a later iteration is lost for want of back edges (the known cause);
        // one assigned on the first pass through the body is not explained by that
        // (a loss in any other loop before the probe - nested or earlier - can make a branch of the `while true` body look
        // dead, so with other loops around the known causes cannot be told apart from a new one)
        Some(LoopKind::WhileTrue) => format!(
            "postloop:while-true:body-assign-lost:{}",
            if ctx.loops_before.iter().any(|(k, _)| *k != LoopKind::WhileTrue) {
                "with-other-loops"
            } else if m.origin.first_pass {
                "assigned-on-first-pass"
            } else {
                "assigned-in-later-iteration-only"
            }
        ),
        Some(kind) => format!("postloop:{}:body-assign-lost", kind.name()),
        None => {
            // the value was assigned outside every loop: the type after the loop lost it
            let what = if m.is_never { ":never" } else { "" };
            let (kind, cond) = ctx.loops_before.last().cloned().unwrap_or((LoopKind::While, None));
            let on_var = cond.as_ref().map(|c| ff::cond_mentions(c, m.var)).unwrap_or(false);
            format!("postloop:{}:outer-value-lost:{}{}", kind.name(), if on_var { "cond-on-var" } else { "cond-other" }, what)
        }
    }
}

impl C41 {
    fn check_loop(&self, prog: &Prog, std: bool, local: &mut Local, obs: &mut Obs) -> Verdict {
        let ex = match c15::execute(prog, &mut local.vm, obs) {
            Ok(x) => x,
            Err(cat) => return Verdict::Skip(cat.split(':').next().unwrap_or("skip").to_string()),
        };
        let mut fresh;
        let ws = if std {
            &mut local.ws_std
        } else {
            fresh = VirtualWorkspace::new();
            &mut fresh
        };
        let j = match c15::judge(ws, &ex, obs) {
            Ok(j) => j,
            Err(cat) => return Verdict::Skip(cat),
        };
        let ctxs = ff::probe_contexts(&ex.norm, &ex.ids);
        obs.class(if std { "std" } else { "no-std" });
        obs.class_if(ex.diverged_runs > 0, "some-run-hit-step-limit");
        obs.class_if(ex.diverged_runs == ex.runs, "all-runs-hit-step-limit");
        let mut nontrivial = false;
        // hash-map iteration order only feeds commutative class labels / a boolean
        for st in ex.loop_stats.values() {
            let Some(kind) = st.kind else { continue };
            obs.class(&format!("loop:{}", kind.name()));
            if st.zero > 0 && st.some > 0 {
                obs.class(&format!("loop:{}:zero-and-some-iterations", kind.name()));
                if st.new_type {
                    nontrivial = true;
                }
            }
            obs.class_if(st.new_type, &format!("loop:{}:assigns-new-type", kind.name()));
        }
        let mut post_probes = 0u64;
        for (id, o) in &ex.observed {
            let ctx = &ctxs[id];
            if !ctx.in_loop && !ctx.loops_before.is_empty() {
                post_probes += 1;
                obs.class_if(o.types.values().any(|or| or.in_loop.is_some()), "post-loop-probe-sees-body-value");
                obs.class_if(o.types.values().any(|or| or.in_loop.is_none()), "post-loop-probe-sees-outer-value");
            }
        }
        obs.count("post_loop_probes_reached", post_probes);
        // Mismatches in probe (= execution) order (soft ones only taint).  Class A: the value was assigned in a loop body and is
        // not admitted after the loop.  Consequence: a later mismatch of a variable that already had a
        // class-A mismatch (or was copied from such a variable): the wrong post-loop type made the analyzer
        // prune or mistype what follows.  Anything else is reported first.
        let mut first_a: Option<(String, &c15::Mismatch)> = None;
        let mut other: Option<(String, &c15::Mismatch)> = None;
        let mut tainted = [false; 4];
        for m in &j.mismatches {
            let ctx = &ctxs[&m.id];
            if m.soft && (ctx.in_loop || ctx.loops_before.is_empty()) {
                continue;
            }
            if ctx.in_loop {
                // inside a loop body: not what C41 states (only the type *after* the loop) – counted
                obs.count("mismatch_inside_loop_body(not judged)", 1);
                continue;
            }
            if ctx.loops_before.is_empty() {
                obs.count("mismatch_before_any_loop(C15 territory, not judged)", 1);
                continue;
            }
            let v = m.var as usize;
            if m.soft {
                // admitted at the type level, but the analyzer does not really know the body's value
                tainted[v] = true;
                continue;
            }
            if m.origin.in_loop.is_some() {
                tainted[v] = true;
                if first_a.is_none() {
                    first_a = Some((loop_sig(m, ctx), m));
                }
            } else if tainted[v] || m.origin.copied_from.map(|w| tainted[w as usize]).unwrap_or(false) {
                tainted[v] = true;
                obs.count("mismatch_downstream_of_lost_body_assignment", 1);
            } else if other.is_none() {
                other = Some((loop_sig(m, ctx), m));
            }
        }
        let first = other.or(first_a);
        if let Some((sig, m)) = first {
            return Verdict::fail(
                sig,
                format!(
                    "post-loop probe {} of `{}`: inferred {} but the VM observed a {} value (assigned {}; std={})\n{}",
                    m.id,
                    ff::VAR_NAMES[m.var as usize],
                    m.inferred,
                    ff::TYPE_NAMES[m.rt as usize],
                    match m.origin.in_loop {
                        Some(k) => format!("inside a {} body", k.name()),
                        None => "outside every loop".to_string(),
                    },
                    std,
                    ex.text
                ),
            );
        }
        Verdict::pass(nontrivial)
    }

    fn check_shape(&self, s: &ShapeProg, local: &mut Local, obs: &mut Obs) -> Verdict {
        let text = render_shape(s);
        obs.class(&format!("shape:{}", shape_name(s)));
        // the program must really be correct code: it runs to completion under every opaque assignment
        let npad = (s.pad % 3) as u32;
        for env in 0u8..(1 << npad) {
            let opaque: Vec<bool> = (0..ff::N_OPAQUE).map(|k| env >> k & 1 == 1).collect();
            let (ev, end) = local.vm.run(&text, &opaque, 100_000);
            if end != End::Done {
                return Verdict::Skip(format!("shape-not-runnable:{}", shape_name(s)));
            }
            let want = ff::TYPE_NAMES[shape_lit(s.lit).ty() as usize];
            if ev.last().map(|e| e.1) != Some(want) {
                return Verdict::Skip("shape-oracle-disagreement".into());
            }
        }
        let ws = &mut local.ws_std;
        let fid = ws.def_file("flow_case.lua", &text);
        let diags = ws.analysis.diagnose_file(fid, CancellationToken::new()).unwrap_or_default();
        let mut bad: Vec<String> = vec![];
        for d in &diags {
            let code = match &d.code {
                Some(lsp_types::NumberOrString::String(s)) => s.clone(),
                _ => String::new(),
            };
            if code == "need-check-nil" || code == "call-non-callable" || d.message.contains("`never`") {
                bad.push(format!("{}@{}:{} {}", code, d.range.start.line, d.range.start.character, d.message));
            }
        }
        if !bad.is_empty() {
            bad.sort();
            let kind = if s.shape % 5 == 2 || s.shape % 5 == 3 { "repeat" } else { "while" };
            return Verdict::fail(format!("shape:{}:nil-or-never-diagnostic", kind), format!("correct code gets {:?}\n{}", bad, text));
        }
        Verdict::pass(true)
    }
}

impl Property for C41 {
    type Case = Case;
    type Local = Local;
    fn id(&self) -> &'static str {
        "C41"
    }
    fn rule(&self) -> String {
        "cases = (85%) flow_frag programs with a top-level while / repeat / numeric for / generic for (optionally under an if) whose body assigns literals of other types, has conditional breaks, nested ifs and nested loops; loop conditions opaque, `not v`, `v == nil`, `type(v) ~= T`, truthiness or compound; loops bounded by counters (break-after-k or `and __n < k`), statically or dynamically (opaque) sized for-ranges and iterated tables; probes of every variable after the loop; executed in luars under every assignment of the opaque booleans and in a reference interpreter; every reached probe lexically after a loop (and not inside one) must admit every observed runtime type. (15%) 'correct code' shapes `while not v do v = L end; use(v)`, `while v == nil`, `while type(v) ~= T`, `repeat v = L until v [~= nil]` which must run cleanly in luars and get no need-check-nil / call-non-callable / never-typed diagnostic. non-trivial = some loop ran its body 0 times in one execution and >=1 times in another and a body assignment gave a variable a type it did not have at loop entry (shape cases are always counted)".into()
    }
    fn assumptions(&self) -> Vec<String> {
        let mut a = c15::C15.assumptions();
        a.push("mismatches at probes inside loop bodies or before any loop are outside C41's statement and only counted".into());
        a
    }
    fn cases(&self, tier: Tier) -> u32 {
        tier.pick(60_000, 1_500_000)
    }
    fn strategy(&self, tier: Tier) -> BoxedStrategy<Case> {
        prop_oneof![
            17 => (ff::loop_prog(tier.pick(4, 8)), prop::bool::weighted(0.8)).prop_map(|(prog, std)| Case::Loop { prog, std }),
            3 => ff::shape_prog().prop_map(Case::Shape),
        ]
        .boxed()
    }
    fn simplify(&self, c: &Case) -> Vec<Case> {
        match c {
            Case::Loop { prog, std } => ff::simplify(prog).into_iter().map(|prog| Case::Loop { prog, std: *std }).collect(),
            Case::Shape(s) => {
                let mut v = vec![];
                if s.pad % 3 > 0 {
                    v.push(Case::Shape(ShapeProg { pad: 0, ..s.clone() }));
                }
                if s.init % 3 != 0 {
                    v.push(Case::Shape(ShapeProg { init: 0, ..s.clone() }));
                }
                v
            }
        }
    }
    fn render(&self, c: &Case) -> serde_json::Value {
        match c {
            Case::Loop { prog, std } => serde_json::json!({"std": std, "program": ff::render(&ff::normalize(prog)).text}),
            Case::Shape(s) => serde_json::json!({"shape": shape_name(s), "program": render_shape(s)}),
        }
    }
    fn local(&self) -> Local {
        Local::new()
    }
    fn check(&self, c: &Case, local: &mut Local, obs: &mut Obs) -> Verdict {
        match c {
            Case::Loop { prog, std } => self.check_loop(prog, *std, local, obs),
            Case::Shape(s) => self.check_shape(s, local, obs),
        }
    }
}
