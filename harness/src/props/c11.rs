//! C11 — Analysis results do not depend on file order or hash seeds.
//!
//! One fixed list of files (fixed registration order) and one configuration are analysed by N fresh
//! `EmmyLuaAnalysis` instances in this process (every instance's std `HashSet` / hashbrown maps get new
//! random states) and by two separate worker processes; all observable dumps must be identical modulo
//! the listing order of members in rendered types (the dump normalises that).
use crate::engine::worker::{self, Reply};
use crate::engine::*;
use crate::gens::history::{self as hist, Cfg, Setup};
use crate::gens::workspace::{self as wsgen, Workspace};
use crate::oracle::dump::{classify, render_diffs, Dump};
use proptest::prelude::*;
use serde::{Deserialize, Serialize};
use std::collections::BTreeMap;

#[derive(Clone, Debug, Serialize, Deserialize)]
pub struct Case {
    pub ws: Workspace,
    pub setup: Setup,
    pub cfg: Cfg,
    /// load through `update_files_by_path` (what emmylua_check's loader calls) instead of `update_files_by_uri`
    pub by_path: bool,
    /// follow the batch by `reindex()`
    pub reindex: bool,
    /// internal: 1 = "only return the dump" (request sent to the worker processes)
    #[serde(default)]
    pub mode: u8,
    /// number of EXTRA library workspaces (`lib2`, `lib3`, ...) each holding one file whose globals are inferred
    /// from the previous library's globals (cross-library chains; analysis order of libraries must not be hash order)
    #[serde(default)]
    pub libs: u8,
}

fn lib_chain_files(n: u8) -> Vec<wsgen::WsFile> {
    let mut out = vec![];
    for k in 0..n {
        let dir = format!("lib{}", k + 2);
        let text = if k == 0 {
            "local function mk() return { v = 1 } end\nL0 = mk()\nfunction lf0(x) return L0 end\n".to_string()
        } else {
            format!("L{k} = L{}\nM{k} = lf{}(1)\nfunction lf{k}(x) return M{k} end\n", k - 1, k - 1)
        };
        out.push(wsgen::WsFile { name: format!("{dir}/x{k}.lua"), text });
    }
    if n > 0 {
        out.push(wsgen::WsFile { name: "uses_libs.lua".into(), text: format!("local q = L{}\nlocal r = M{}\n---@type string\nlocal s = L{}\n", n - 1, (n - 1).max(1), n - 1) });
    }
    out
}

pub struct C11;

pub struct Local {
    children: Vec<worker::Child>,
    root: std::path::PathBuf,
}

fn analyse(c: &Case) -> Dump {
    let mut a = hist::new_analysis(&c.cfg, &c.setup);
    let mut files = c.ws.files.clone();
    for k in 0..c.libs {
        a.add_library_workspace(&emmylua_code_analysis::WorkspaceFolder::new(hist::base().join(format!("lib{}", k + 2)), true));
    }
    files.extend(lib_chain_files(c.libs));
    if c.by_path {
        a.update_files_by_path(files.iter().map(|f| (hist::base().join(&f.name), Some(f.text.clone()))).collect());
    } else {
        hist::load_batch(&mut a, &files);
    }
    if c.reindex {
        a.reindex();
    }
    hist::dump_full(&a)
}

/// which of two runs shows a line and which does not is arbitrary: the signature has no direction
fn nondet_sig(diffs: &[crate::oracle::dump::Diff]) -> String {
    // differences that involve the generated cross-library chain (files libN/xK.lua, uses_libs.lua) get their own
    // signature: they are about the order in which library workspaces are analysed, not the open overload/unresolve families
    let lib_chain = diffs.iter().any(|d| d.only_left.iter().chain(d.only_right.iter()).any(|l| l.contains("uses_libs.lua") || (2..8).any(|k| l.contains(&format!("lib{k}/x")))));
    if lib_chain {
        return "nondet:library-workspace-order".to_string();
    }
    format!("nondet:{}", classify(diffs)).replace(":added", ":presence").replace(":removed", ":presence")
}

fn dump_from_text(t: &str) -> Dump {
    let mut sections: BTreeMap<String, Vec<String>> = BTreeMap::new();
    for s in crate::oracle::dump::SECTIONS {
        sections.entry(s.to_string()).or_default();
    }
    for l in t.lines() {
        if let Some((sec, rest)) = l.split_once('\t') {
            sections.entry(sec.to_string()).or_default().push(rest.to_string());
        }
    }
    Dump { sections }
}

impl Property for C11 {
    type Case = Case;
    type Local = Local;
    fn id(&self) -> &'static str {
        "C11"
    }
    fn rule(&self) -> String {
        "case = workspace of 2-8 generated files (small shared name alphabet; injected cross-file conflicts: global assigned integer/string in two files, class documented in one file and re-declared in another, same field with two types, require cycles) x setup (std lib on/off, lib/ as library root) x load path (by uri / by path, optional reindex); the same registration order is analysed by N fresh in-process analyses (8 quick / 12 thorough) and by 2 worker processes and all observable dumps (oracle::dump, member listing order normalised) must be equal; non-trivial = at least 2 files define the same symbol (class/alias/enum/global) or a global gets conflicting literal kinds in two files; distinct = distinct case digest".into()
    }
    fn assumptions(&self) -> Vec<String> {
        vec![
            "hash seeds cannot be set from outside: every fresh analysis / process samples new random states (std RandomState, foldhash); a dependence that needs a rare seed combination can be missed".into(),
            "emmylua_check's loader is represented by its analysis entry point update_files_by_path (the directory walk itself is not exercised here)".into(),
        ]
    }
    fn cases(&self, tier: Tier) -> u32 {
        tier.pick(3000, 100_000)
    }
    fn strategy(&self, tier: Tier) -> BoxedStrategy<Case> {
        (wsgen::workspace(2, tier.pick(6, 8), tier.pick(5, 8)), hist::setup_strategy(), prop_oneof![4 => Just(Cfg::base()), 1 => hist::cfg_strategy()], any::<bool>(), prop_oneof![3 => Just(false), 1 => Just(true)], prop_oneof![3 => Just(0u8), 1 => Just(2u8), 1 => Just(3u8), 1 => Just(5u8)])
            .prop_map(|(ws, setup, cfg, by_path, reindex, libs)| Case { ws, setup, cfg, by_path, reindex, mode: 0, libs })
            .boxed()
    }
    fn simplify(&self, c: &Case) -> Vec<Case> {
        let mut out: Vec<Case> = wsgen::simplify(&c.ws, 1).into_iter().map(|ws| Case { ws, ..c.clone() }).collect();
        if c.setup.std || c.setup.lib_root {
            out.push(Case { setup: Setup::default(), ..c.clone() });
        }
        if c.cfg != Cfg::base() {
            out.push(Case { cfg: Cfg::base(), ..c.clone() });
        }
        if c.reindex {
            out.push(Case { reindex: false, ..c.clone() });
        }
        out
    }
    fn max_shrink_iters(&self, tier: Tier) -> u32 {
        tier.pick(300, 2000)
    }
    fn local(&self) -> Local {
        let root = std::path::PathBuf::from(std::env::var("VERIF_ROOT").unwrap_or_else(|_| "/verif".into()));
        Local { children: vec![], root }
    }
    fn check(&self, c: &Case, local: &mut Local, obs: &mut Obs) -> Verdict {
        let v = self.check_strict(c, local, obs);
        // Thorough tier only (see C08): an unclassified shape of the known hash-order nondeterminism families is
        // tolerated under one family signature so that long runs keep searching; the quick tier stays strict.
        if let Verdict::Fail(f) = &v {
            let thorough = std::env::var("VERIF_TIER_EFFECTIVE").map(|t| t == "thorough").unwrap_or(false);
            let open = crate::gens::history::open_sigs("C11");
            if thorough && f.sig.starts_with("nondet:") && !open.contains(&f.sig) {
                return Verdict::fail("family:nondet-unclassified-shape", format!("[unclassified shape {}] {}", f.sig, f.msg));
            }
        }
        v
    }
}

impl C11 {
    fn check_strict(&self, c: &Case, local: &mut Local, obs: &mut Obs) -> Verdict {
        if c.mode == 1 {
            // worker side: just hand back the dump
            return match catch(|| analyse(c)) {
                Ok(d) => Verdict::Skip(format!("dump:{}", d.to_text())),
                Err(e) => Verdict::Skip(format!("panic:{e}")),
            };
        }
        hist::ws_label(&c.ws, obs);
        obs.class_if(c.setup.std, "std");
        obs.class_if(c.setup.lib_root, "lib-root");
        obs.class_if(c.by_path, "by-path");
        obs.class_if(c.reindex, "reindex");
        let n = if std::env::var("VERIF_C11_RUNS").is_ok() { std::env::var("VERIF_C11_RUNS").unwrap().parse().unwrap_or(8) } else { 8 };
        let first = match catch(|| analyse(c)) {
            Ok(d) => d,
            Err(_) => return Verdict::Skip("analysis-panic(C12)".into()),
        };
        for k in 1..n {
            let d = match catch(|| analyse(c)) {
                Ok(d) => d,
                Err(_) => return Verdict::Skip("analysis-panic(C12)".into()),
            };
            if d != first {
                let diffs = first.diff(&d);
                return Verdict::fail(nondet_sig(&diffs), format!("in-process run #{k} differs from run #0 (same files, same registration order):\n{}", render_diffs(&diffs, 12)));
            }
        }
        // two separate processes
        if std::env::var("VERIF_C11_NO_CHILD").is_err() {
            while local.children.len() < 2 {
                local.children.push(worker::Child::spawn("C11", &local.root));
            }
            let req = serde_json::to_string(&Case { mode: 1, ..c.clone() }).expect("case serialises");
            for (k, ch) in local.children.iter_mut().enumerate() {
                match ch.call(&req, 120) {
                    Reply::Line(line) => {
                        let Ok((v, _)) = serde_json::from_str::<(Verdict, Obs)>(&line) else { return Verdict::Skip("worker-protocol".into()) };
                        match v {
                            Verdict::Skip(s) if s.starts_with("dump:") => {
                                let d = dump_from_text(&s[5..]);
                                if d != first {
                                    let diffs = first.diff(&d);
                                    return Verdict::fail(
                                        nondet_sig(&diffs),
                                        format!("worker process #{k} differs from the in-process run (same files, same registration order):\n{}", render_diffs(&diffs, 12)),
                                    );
                                }
                            }
                            _ => return Verdict::Skip("worker-analysis-panic(C12)".into()),
                        }
                    }
                    _ => {
                        ch.respawn();
                        return Verdict::Skip("worker-died".into());
                    }
                }
            }
        }
        obs.count("dump-lines", first.lines() as u64);
        let nontrivial = !wsgen::shared_symbols(&c.ws).is_empty() || wsgen::has_conflicting_global(&c.ws);
        Verdict::pass(nontrivial)
    }
}
