//! C12 — Indexing and semantic queries never crash on any program.
use crate::engine::*;
use crate::gens::{lua_ast, soup, util, workspace};
use crate::props::c03::emmyrc_for;
use emmylua_code_analysis::{humanize_type, DiagnosticCode, RenderLevel, VirtualWorkspace};
use emmylua_parser::{LuaAstNode, LuaExpr};
use proptest::prelude::*;
use serde::{Deserialize, Serialize};
use tokio_util::sync::CancellationToken;

#[derive(Clone, Debug, Serialize, Deserialize)]
pub struct Case {
    pub files: Vec<(String, String)>,
    pub src: String,
    pub level: u8,
    /// bit 0 strict.requirePath, 1 strict.typeCall, 2 strict.arrayIndex, 3 strict.metaOverrideFileDefine, 4 strict.docBaseConstMatchBaseType
    pub strict: u8,
    pub std: bool,
}

pub struct C12;

/// annotation blocks biased to the dangerous shapes: recursion, cycles, malformed generics
pub const DANGER: &[&str] = &[
    "---@alias A A[]\n",
    "---@alias A B\n---@alias B A\n",
    "---@alias A A|A[]\n",
    "---@alias A fun(): A\n",
    "---@alias A table<A, A>\n",
    "---@alias A { x: A, [1]: A }\n",
    "---@alias A<T> A<A<T>>\n",
    "---@alias A<T> T extends A<T> and A<T> or A<T>\n",
    "---@alias A keyof A\n",
    "---@alias A `A`\n",
    "---@alias A [A, A]\n",
    "---@alias A A?\n",
    "---@class C: C\n",
    "---@class C: D\n---@class D: C\n",
    "---@class C: D\n---@class D: E\n---@class E: C\n---@field x C\n",
    "---@class C<T>: C<C<T>>\n---@field v T\n",
    "---@class C<T>\n---@field next C<C<T>>\n---@field v T\n",
    "---@class C<T: C<T>>\n",
    "---@class C: A\n---@alias A C\n",
    "---@class C\n---@field [C] C\n---@field [string] C\n---@operator add(C): C\n---@operator call(C): C\n---@operator index(string): C\n---@operator unm: C\n---@operator concat(C): C\n",
    "---@class C\n---@overload fun(a: C): C\n---@overload fun(...: C): C...\n",
    "---@enum E\nlocal E = { A = E, B = 2 }\n",
    "---@enum (key) E: E\nlocal E = { A = 1 }\n",
    "---@enum E\nE = { A = 1, B = E.A, C = E.C }\n",
    "---@generic T : T\n---@param a T\n---@return T\nlocal function g(a) return a end\n",
    "---@generic T, T\n---@param a T[]\n---@return T...\nfunction g(a) end\n",
    "---@generic T<\n---@param a T<T>\nfunction g(a) end\n",
    "---@generic K, V\n---@param t table<K, V>\n---@return fun(): K, V\nfunction g(t) end\n",
    "---@generic T\n---@param f fun(x: T): T\n---@return T\nfunction g(f) return f(g(f)) end\n",
    "---@class C\n---@field f fun(self: C): C\nlocal C = {}\n---@return C\nfunction C:f() return self:f():f():f() end\n",
    "---@type A<A<A<integer>>>\nlocal x\n",
    "---@type table<C, table<C, C>>\nlocal x\n",
    "---@type fun(a: A, ...: A): A, A...\nlocal x\n",
    "---@type { [A]: A }\nlocal x\n",
    "---@type C<C>\nlocal x\n",
    "---@cast x +A\n---@cast x -A\n---@cast x A?\n",
    "---@namespace N\n---@using N\n---@class N.C: N.C\n",
    "---@meta m\n",
    "---@module 'self'\n",
    "---@see C#x\n---@source x:1\n---@version >5.1, <5.4, JIT\n---@nodiscard\n---@deprecated\n---@async\n",
    "---@attribute a(x: A)\n---@[a(1)]\n",
    "---@class (partial) C\n---@class (exact) C\n---@class (constructor) C\n",
    "---@param self C\n---@param ... C\n---@return C ...\n",
    "---@type integer|A|C|E|nil\nlocal x\n",
    "---@as C\n",
    "---@export namespace\n",
    "---@readonly\n---@field public private x C\n",
    // aliases that reach themselves through index-access / field types (survive the index-time alias-cycle collapse)
    "---@class H\n---@field next A\n---@alias A H[\"next\"]\n",
    "---@class H\n---@field next A\n---@field [1] A\n---@alias A H[1]\n",
    "---@alias A { next: A }[\"next\"]\n",
    "---@class H<T>\n---@field v T\n---@alias A H<A>[\"v\"]\n",
    "---@alias A B[\"k\"]\n---@alias B { k: A }\n",
    "---@class H\n---@field next H[\"next\"]\n",
    "---@alias A table<string, A>[string]\n",
    "---@alias A [A, A][1]\n",
];

pub const USES: &[&str] = &[
    "local x ---@type A\n",
    "---@type C\nlocal x = {}\n",
    "local y = x.y.z.w\n",
    "local y = x[1][2][x]\n",
    "local y = x + x .. x\n",
    "local y = -x\n",
    "local y = #x\n",
    "local y = x()()\n",
    "local y = x:f():f()\n",
    "for k, v in pairs(x) do local _ = k[v] end\n",
    "for i, v in ipairs(x) do v.x = i end\n",
    "for k, v in x do end\n",
    "x.y = x\nx.y.y = x.y\n",
    "x = x.x or x and x\n",
    "setmetatable(x, { __index = x, __call = x, __add = function(a, b) return a end })\n",
    "setmetatable(x, x)\n",
    "local t = { x, x = x, [x] = x, [1] = x }\nt = { t, t = t }\n",
    "function x.f(...) return ... end\nfunction x:g(a, b) return self, a, b end\n",
    "local function r(a) return r(r(a)) end\nlocal z = r(x)\n",
    "local a, b, c = g(x), g(g(x)), select('#', g(x))\n",
    "return x, y, E, E.A, C, g\n",
    "if x == nil then x = y elseif type(x) == 'table' then y = x.y else x = 1 end\n",
    "while x do x = x.next end\n",
    "repeat local q = x.next until q\n",
    "local s = ('%s'):format(x) .. x:rep(2)\n",
    "local r = require('self')\nlocal r2 = require(x)\n",
    "local u = E.A + E.B\nlocal w = E[x]\n",
    "---@type C\nlocal c\nlocal d = c.next.next.next.v\nc:f().x = c\n",
    "local n = x ---@as C\n",
    "goto l\n::l::\n",
    "local e <const>, f <close> = x, nil\n",
    "---@type string\nlocal s1 = x\n---@type integer[]\nlocal s2 = x\n",
    "---@param p string\nlocal function tk(p) end\ntk(x)\ntk(x.next)\n",
    "---@return string\nlocal function rt() return x end\n---@return A\nlocal function ra() return 1 end\n",
    "---@type H\nlocal h\nlocal hn = h.next.next\n---@type string\nlocal s3 = h.next\n",
    "pcall(x, x)\nxpcall(x, x, x)\nassert(x, x)\nerror(x)\ntostring(x)\nrawget(x, x)\nnext(x)\nunpack(x)\ntable.unpack(x)\ntable.insert(x, x)\n",
];

fn danger_file(max: usize) -> impl Strategy<Value = String> {
    proptest::collection::vec(prop_oneof![3 => (0..DANGER.len()).prop_map(|i| DANGER[i].to_string()), 3 => (0..USES.len()).prop_map(|i| USES[i].to_string()), 1 => workspace::block()], 1..max).prop_map(|v| v.concat())
}

fn sources(tier: Tier) -> BoxedStrategy<(Vec<(String, String)>, String)> {
    let corpus = std::sync::Arc::new(util::corpus_files());
    let n = corpus.len().max(1);
    prop_oneof![
        4 => proptest::collection::vec(danger_file(tier.pick(10, 20)), 1..4).prop_map(|fs| (fs.into_iter().enumerate().map(|(i, t)| (if i == 0 { "self.lua".to_string() } else { format!("m/f{i}.lua") }, t)).collect(), "danger".to_string())),
        2 => workspace::workspace(2, 5, 6).prop_map(|w| (w.files.into_iter().map(|f| (f.name, f.text)).collect(), "workspace".to_string())),
        2 => (lua_ast::any_program(lua_ast::Size::small()), danger_file(5)).prop_map(|((p, l), d)| (vec![("a.lua".to_string(), format!("{}{}", d, lua_ast::render(&p, &l).text))], "valid+danger".to_string())),
        1 => (danger_file(8), proptest::collection::vec(util::mut_strategy(), 1..4)).prop_map(|(t, muts)| {
            let mut t = t;
            for m in &muts { t = util::apply_mut(&t, m); }
            (vec![("a.lua".to_string(), t)], "mutated-danger".to_string())
        }),
        1 => soup::soup(tier.pick(60, 200)).prop_map(|s| (vec![("a.lua".to_string(), s)], "soup".to_string())),
        1 => (0..n, proptest::collection::vec(util::mut_strategy(), 0..3), any::<u16>(), 200usize..3000).prop_map(move |(i, muts, start, len)| {
            let base = corpus.get(i).map(|x| x.1.as_str()).unwrap_or("local x = 1\n");
            let mut a = util::idx(start, base.len());
            while !base.is_char_boundary(a) { a -= 1; }
            while a > 0 && base.as_bytes()[a - 1] != b'\n' { a -= 1; }
            let mut b = (a + len).min(base.len());
            while !base.is_char_boundary(b) { b -= 1; }
            let mut t = base[a..b].to_string();
            for m in &muts { t = util::apply_mut(&t, m); }
            (vec![("a.lua".to_string(), t)], "corpus-window".to_string())
        }),
    ]
    .boxed()
}

impl Property for C12 {
    type Case = Case;
    type Local = ();
    fn id(&self) -> &'static str {
        "C12"
    }
    fn rule(&self) -> String {
        "cases = 1-5 files: (a) files assembled from an alphabet of dangerous annotation blocks (recursive and mutually recursive aliases, self/cyclic inheritance, generic classes instantiated with themselves, `T : T`, malformed generics, operators, overloads, casts, enums of enums, namespaces) interleaved with code that uses the declared names in every expression/statement position, (b) the multi-file workspace generator (classes split across files, require cycles, conflicting globals), (c) valid lua_ast programs prefixed with danger blocks, (d) mutated danger files, (e) token soup, (f) mutated windows of std/*.lua; x 8 language levels x strict.* flags x std lib on/off; each case runs in a worker child on a 2 MiB-stack thread: batch index, diagnose every file with every diagnostic code enabled, get_semantic_info for every token (cap 600/file), humanize_type of every inferred type at 5 render levels, infer_expr for every expression node, get_member_infos of every inferred type; oracle = all return: no panic (catch_unwind, sig = panic site) and the worker survives (stack overflow / abort); non-trivial = an annotation references another declared type, or a file has a parse error".into()
    }
    fn assumptions(&self) -> Vec<String> {
        vec!["a watchdog hit is INCONCLUSIVE, not a violation".into()]
    }
    fn cases(&self, tier: Tier) -> u32 {
        tier.pick(40_000, 2_000_000)
    }
    fn isolated(&self) -> bool {
        true
    }
    fn stack_bytes(&self) -> usize {
        2 << 20
    }
    fn case_timeout_s(&self) -> u64 {
        120
    }
    // C12 forbids crashes; a case whose analysis does not return within the per-case limit is neither a crash nor a
    // clean return: it is counted as not judged (category in `excluded`), it does not make the whole run inconclusive
    fn timeout_verdict(&self, _case: &Case) -> Option<Verdict> {
        Some(Verdict::Skip("analysis-did-not-return-within-120s(not judged)".into()))
    }
    fn strategy(&self, tier: Tier) -> BoxedStrategy<Case> {
        (sources(tier), 0u8..8, 0u8..32, proptest::bool::weighted(0.15)).prop_map(|((files, src), level, strict, std)| Case { files, src, level, strict, std }).boxed()
    }
    fn simplify(&self, c: &Case) -> Vec<Case> {
        let mut out = vec![];
        if c.files.len() > 1 {
            for i in 0..c.files.len() {
                let mut f = c.files.clone();
                f.remove(i);
                out.push(Case { files: f, ..c.clone() });
            }
        }
        if c.std {
            out.push(Case { std: false, ..c.clone() });
        }
        for (i, (_, t)) in c.files.iter().enumerate() {
            // line-level ddmin first, then char-level
            let lines: Vec<&str> = t.split_inclusive('\n').collect();
            if lines.len() > 1 {
                for k in 0..lines.len() {
                    let mut l = lines.clone();
                    l.remove(k);
                    let mut f = c.files.clone();
                    f[i].1 = l.concat();
                    out.push(Case { files: f, ..c.clone() });
                }
            }
            for s in util::text_simplify(t).into_iter().take(80) {
                let mut f = c.files.clone();
                f[i].1 = s;
                out.push(Case { files: f, ..c.clone() });
            }
        }
        out
    }
    /// a dead worker is almost always a stack overflow: find the recursing function with gdb (only runs on failures)
    fn on_abort(&self, case: &Case, how: &str, stderr: &str, msg: String) -> Verdict {
        if !stderr.contains("overflowed its stack") {
            return Verdict::fail(format!("abort:{how}"), msg);
        }
        if has_recursive_generic_alias(case) {
            // one root cause (no cycle guard when a generic / keyof alias that mentions itself is instantiated),
            // many recursing functions: family-level signature
            return Verdict::fail("stack-overflow:recursive-generic-alias-instantiation", format!("{msg}; the case declares a generic or keyof alias that refers to itself"));
        }
        let site = overflow_site(case).unwrap_or_else(|| "unknown-site".to_string());
        Verdict::fail(format!("stack-overflow:{site}"), format!("{msg}; recursing function (gdb): {site}"))
    }
    fn on_uncaught_panic(&self, msg: &str) -> Verdict {
        Verdict::fail(format!("panic:{}", panic_site(msg)), msg.to_string())
    }
    fn local(&self) {}
    fn check(&self, c: &Case, _: &mut (), obs: &mut Obs) -> Verdict {
        obs.class(&format!("src:{}", c.src));
        obs.class_if(c.std, "std-lib");
        let mut ws = if c.std { VirtualWorkspace::new_with_init_std_lib() } else { VirtualWorkspace::new() };
        let mut e = emmyrc_for(c.level);
        e.diagnostics.enables = DiagnosticCode::all().to_vec();
        e.strict.require_path = c.strict & 1 != 0;
        e.strict.type_call = c.strict & 2 != 0;
        e.strict.array_index = c.strict & 4 != 0;
        e.strict.meta_override_file_define = c.strict & 8 != 0;
        e.strict.doc_base_const_match_base_type = c.strict & 16 != 0;
        ws.update_emmyrc(e);
        let mut stage = "index";
        let r = catch(|| {
            let files: Vec<(&str, &str)> = c.files.iter().map(|(n, t)| (n.as_str(), t.as_str())).collect();
            let ids = ws.def_files(files);
            let mut has_err = false;
            let mut queries = 0u64;
            for id in &ids {
                stage = "diagnose";
                let _ = ws.analysis.diagnose_file(*id, CancellationToken::new());
                let Some(model) = ws.analysis.compilation.get_semantic_model(*id) else { continue };
                let db = model.get_db();
                if let Some(tree) = db.get_vfs().get_syntax_tree(id) {
                    has_err |= !tree.get_errors().is_empty();
                }
                let root = model.get_root().syntax().clone();
                stage = "semantic-info";
                let mut n = 0;
                for el in root.descendants_with_tokens() {
                    if let rowan::NodeOrToken::Token(t) = el {
                        if t.text().trim().is_empty() {
                            continue;
                        }
                        n += 1;
                        if n > 600 {
                            break;
                        }
                        if let Some(info) = model.get_semantic_info(rowan::NodeOrToken::Token(t)) {
                            queries += 1;
                            for lvl in [RenderLevel::Documentation, RenderLevel::Detailed, RenderLevel::Simple, RenderLevel::Brief, RenderLevel::Minimal] {
                                let _ = humanize_type(db, &info.typ, lvl);
                            }
                            let _ = model.get_member_infos(&info.typ);
                        }
                    }
                }
                stage = "infer-expr";
                for (k, expr) in model.get_root().descendants::<LuaExpr>().enumerate() {
                    if k > 400 {
                        break;
                    }
                    if let Ok(t) = model.infer_expr(expr) {
                        queries += 1;
                        let _ = humanize_type(db, &t, RenderLevel::Detailed);
                    }
                }
            }
            (has_err, queries)
        });
        match r {
            Ok((has_err, queries)) => {
                obs.count("semantic-queries", queries);
                obs.class_if(has_err, "has-parse-error");
                let refs_types = c.files.iter().any(|(_, t)| t.contains("---@"));
                Verdict::pass(has_err || refs_types)
            }
            Err(msg) => Verdict::fail(format!("panic:{}", panic_site(&msg)), format!("panic during {stage}: {msg}")),
        }
    }
}

/// most frequent function in the crash backtrace of the worker running `case` (via gdb in batch mode)
fn overflow_site(case: &Case) -> Option<String> {
    use std::io::Write;
    use std::process::{Command, Stdio};
    let root = std::env::var("VERIF_ROOT").unwrap_or_else(|_| "/verif".into());
    let dir = std::path::Path::new(&root).join("work");
    let _ = std::fs::create_dir_all(&dir);
    let input = dir.join(format!("c12-gdb-{}-{:?}.json", std::process::id(), std::thread::current().id()).replace(['(', ')'], ""));
    let mut f = std::fs::File::create(&input).ok()?;
    writeln!(f, "{}", serde_json::to_string(case).ok()?).ok()?;
    drop(f);
    let exe = std::env::current_exe().ok()?;
    let out = Command::new("timeout")
        .arg("120")
        .arg("gdb")
        .args(["-batch", "-ex", &format!("run --worker C12 < {}", input.display()), "-ex", "bt 80"])
        .arg(exe)
        .env("VERIF_ROOT", &root)
        .stdin(Stdio::null())
        .stderr(Stdio::null())
        .output()
        .ok()?;
    let _ = std::fs::remove_file(&input);
    let text = String::from_utf8_lossy(&out.stdout);
    let mut counts: std::collections::BTreeMap<String, usize> = Default::default();
    for l in text.lines().filter(|l| l.starts_with('#')) {
        let Some(i) = l.find(" in ") else { continue };
        let f = l[i + 4..].split(" (").next().unwrap_or("");
        // strip the hash suffix ::h0123...
        let f = match f.rfind("::h") {
            Some(k) if f.len() - k == 19 => &f[..k],
            _ => f,
        };
        if f.starts_with("emmylua_") {
            *counts.entry(f.to_string()).or_default() += 1;
        }
    }
    counts.into_iter().max_by_key(|(name, n)| (*n, std::cmp::Reverse(name.clone()))).map(|(name, _)| name)
}

/// `---@alias N<...> <body mentioning N>` or `---@alias N keyof N` somewhere in the case
fn has_recursive_generic_alias(case: &Case) -> bool {
    for (_, text) in &case.files {
        let mut rest = text.as_str();
        while let Some(i) = rest.find("@alias") {
            let after = rest[i + 6..].trim_start();
            let name: String = after.chars().take_while(|c| c.is_alphanumeric() || *c == '_' || *c == '.').collect();
            let tail = &after[name.len()..];
            let body_end = tail.find('\n').unwrap_or(tail.len());
            let body = &tail[..body_end];
            if !name.is_empty() {
                let generic = body.trim_start().starts_with('<');
                let mentions_self = {
                    let b = if generic { body.split_once('>').map(|x| x.1).unwrap_or(body) } else { body };
                    b.match_indices(name.as_str()).any(|(k, _)| {
                        let before = b[..k].chars().next_back();
                        let after = b[k + name.len()..].chars().next();
                        !before.map(|c| c.is_alphanumeric() || c == '_').unwrap_or(false) && !after.map(|c| c.is_alphanumeric() || c == '_').unwrap_or(false)
                    })
                };
                if mentions_self && (generic || body.contains("keyof") || body.contains("extends")) {
                    return true;
                }
            }
            rest = &rest[i + 6..];
        }
    }
    false
}
