//! C19 — Diagnostic suppression comments affect exactly their scope.
//!
//! Programs are line-structured: every line is a one-line statement, a blank line or the header/footer of a
//! block (`do`, `if … then/else`, `while … do`, `for … do`, `local function`, `repeat/until`), most of them
//! producing diagnostics confined to their own line (undefined globals with unique names at column 0 or
//! indented, unused locals, unbalanced assignments, …).  One or two suppression comments are placed on own
//! lines or trailing.  Metamorphic oracle: the same text with each suppression comment replaced by a plain
//! comment of identical length is the baseline; a baseline diagnostic must be absent iff its code is covered
//! and its line is in the stated scope, everything else must be unchanged.
use crate::engine::*;
use emmylua_code_analysis::VirtualWorkspace;
use proptest::prelude::*;
use serde::{Deserialize, Serialize};
use tokio_util::sync::CancellationToken;

pub const CODES: [&str; 4] = ["undefined-global", "unused", "unbalanced-assignments", "need-check-nil"];

#[derive(Clone, Debug, Serialize, Deserialize, PartialEq)]
pub enum Node {
    /// one-line statement of kind k with `indent` leading spaces
    Stmt(u8, u8),
    Blank,
    /// block kind, indent of header/footer, body, optional else body (kind 1 = if only)
    Block(u8, u8, Vec<Node>, Option<Vec<Node>>),
}

#[derive(Clone, Debug, Serialize, Deserialize, PartialEq)]
pub struct Sup {
    /// 0 = disable-next-line, 1 = disable-line, 2 = disable
    pub action: u8,
    /// None = no code list; Some(indices into CODES)
    pub codes: Option<Vec<u8>>,
    /// position among the flattened program lines (monotone mapping of a raw u16)
    pub pos: u16,
    pub trailing: bool,
    pub indent: u8,
    /// spelling variant: bit0 = no space after ':', bit1 = no space after ','
    pub style: u8,
}

#[derive(Clone, Debug, Serialize, Deserialize)]
pub struct Case {
    pub nodes: Vec<Node>,
    pub sups: Vec<Sup>,
    pub final_newline: bool,
}

pub struct C19;

#[derive(Clone, Debug)]
struct Line {
    text: String,
    /// block path (ids) the line itself lies in; header/footer lines belong to the parent
    path: Vec<u32>,
    /// block path in effect for a line inserted directly after this one
    after: Vec<u32>,
    /// header / footer / else line of a block
    structural: bool,
    /// index into the active suppression list if the line carries a (possibly neutralised) suppression comment
    sup: Option<usize>,
    /// the line consists of the comment only
    own_line_comment: bool,
    /// byte column where the comment starts
    comment_col: usize,
}

fn flatten(nodes: &[Node], path: &mut Vec<u32>, next_block: &mut u32, counter: &mut u32, out: &mut Vec<Line>) {
    let mk = |text: String, path: &Vec<u32>, after: Vec<u32>, structural: bool| Line { text, path: path.clone(), after, structural, sup: None, own_line_comment: false, comment_col: 0 };
    for n in nodes {
        match n {
            Node::Blank => out.push(mk(String::new(), path, path.clone(), false)),
            Node::Stmt(k, ind) => {
                *counter += 1;
                let c = *counter;
                let body = match k % 8 {
                    0 => format!("G{c}()"),
                    1 => format!("local u{c} = 1"),
                    2 => format!("local u{c} = G{c}"),
                    3 => format!("print(G{c})"),
                    4 => format!("Y{c} = G{c}"),
                    5 => format!("local p{c}, q{c} = 1"),
                    6 => format!("G{c}(H{c}, 1)"),
                    _ => format!("G{c}.f = 1"),
                };
                out.push(mk(format!("{}{}", " ".repeat(*ind as usize), body), path, path.clone(), false));
            }
            Node::Block(kind, ind, body, els) => {
                *counter += 1;
                let c = *counter;
                let sp = " ".repeat(*ind as usize);
                let kind = kind % 7;
                let (head, foot) = match kind {
                    0 => ("do".to_string(), "end".to_string()),
                    1 => (format!("if G{c} then"), "end".to_string()),
                    2 => (format!("while G{c} do"), "end".to_string()),
                    3 => (format!("for i{c} = 1, G{c} do"), "end".to_string()),
                    4 => (format!("local function f{c}(a{c})"), "end".to_string()),
                    5 => ("repeat".to_string(), "until true".to_string()),
                    _ => (format!("Y{c} = function()"), "end".to_string()),
                };
                let id = *next_block;
                *next_block += 1;
                let mut inner = path.clone();
                inner.push(id);
                out.push(mk(format!("{sp}{head}"), path, inner.clone(), true));
                let mut p2 = inner.clone();
                flatten(body, &mut p2, next_block, counter, out);
                if kind == 1 {
                    if let Some(e) = els {
                        let id2 = *next_block;
                        *next_block += 1;
                        let mut inner2 = path.clone();
                        inner2.push(id2);
                        out.push(mk(format!("{sp}else"), path, inner2.clone(), true));
                        let mut p3 = inner2;
                        flatten(e, &mut p3, next_block, counter, out);
                    }
                }
                out.push(mk(format!("{sp}{foot}"), path, path.clone(), true));
            }
        }
    }
}

fn comment_text(s: &Sup) -> String {
    let action = match s.action % 3 {
        0 => "disable-next-line",
        1 => "disable-line",
        _ => "disable",
    };
    let mut t = format!("---@diagnostic {action}");
    if let Some(cs) = &s.codes {
        t.push(':');
        if s.style & 1 == 0 {
            t.push(' ');
        }
        for (i, c) in cs.iter().enumerate() {
            if i > 0 {
                t.push(',');
                if s.style & 2 == 0 {
                    t.push(' ');
                }
            }
            t.push_str(CODES[*c as usize % CODES.len()]);
        }
    }
    t
}

fn neutral(len: usize) -> String {
    format!("--{}", "x".repeat(len.saturating_sub(2)))
}

/// Final line list with the suppression comments placed.  Suppressions that would put two comment-bearing
/// lines next to each other (they could merge into one comment node, making "the comment" ambiguous) or a
/// trailing `disable` on a block header/footer (enclosing block ambiguous) are dropped; returns the kept ones.
fn layout(c: &Case) -> (Vec<Line>, Vec<Sup>) {
    let mut base = vec![];
    flatten(&c.nodes, &mut vec![], &mut 1, &mut 0, &mut base);
    let mut lines = base.clone();
    let mut kept: Vec<Sup> = vec![];
    for s in &c.sups {
        let mut trial = lines.clone();
        let idx = kept.len();
        let text = comment_text(s);
        if s.trailing && !trial.is_empty() {
            // trailing on an existing (non-comment) line
            let cand: Vec<usize> = (0..trial.len()).filter(|i| trial[*i].sup.is_none()).collect();
            if cand.is_empty() {
                continue;
            }
            let k = cand[crate::gens::util::idx(s.pos, cand.len())];
            if s.action % 3 == 2 && trial[k].structural {
                continue;
            }
            let l = &mut trial[k];
            if l.text.trim().is_empty() {
                l.text = " ".repeat(s.indent as usize);
                l.own_line_comment = true;
            } else {
                l.text.push(' ');
            }
            l.comment_col = l.text.len();
            l.text.push_str(&text);
            l.sup = Some(idx);
        } else {
            let k = crate::gens::util::idx(s.pos, trial.len() + 1);
            let path = if k == 0 { vec![] } else { trial[k - 1].after.clone() };
            let ind = " ".repeat(s.indent as usize);
            trial.insert(k, Line { text: format!("{ind}{text}"), path: path.clone(), after: path, structural: false, sup: Some(idx), own_line_comment: true, comment_col: ind.len() });
        }
        // no two comment-bearing lines adjacent
        let bad = (1..trial.len()).any(|i| trial[i - 1].sup.is_some() && trial[i].sup.is_some());
        if bad {
            continue;
        }
        lines = trial;
        kept.push(s.clone());
    }
    (lines, kept)
}

/// render; `active[i]` says whether suppression i keeps its real text (else a plain comment of equal length)
fn render(lines: &[Line], sups: &[Sup], active: &[bool], final_newline: bool) -> String {
    let mut out = String::new();
    for (i, l) in lines.iter().enumerate() {
        match l.sup {
            Some(k) if !active[k] => {
                out.push_str(&l.text[..l.comment_col]);
                out.push_str(&neutral(comment_text(&sups[k]).len()));
            }
            _ => out.push_str(&l.text),
        }
        if i + 1 < lines.len() || final_newline {
            out.push('\n');
        }
    }
    out
}

#[derive(Clone, Debug, PartialEq, Eq, PartialOrd, Ord)]
struct D {
    code: String,
    line: u32,
    col: u32,
    end_line: u32,
    end_col: u32,
    msg: String,
}

fn diagnose(text: &str) -> Option<Vec<D>> {
    let mut ws = VirtualWorkspace::new();
    let id = ws.def_file("c19.lua", text);
    let ds = ws.analysis.diagnose_file(id, CancellationToken::new())?;
    let mut v: Vec<D> = ds
        .into_iter()
        .map(|d| D {
            code: match d.code {
                Some(lsp_types::NumberOrString::String(s)) => s,
                Some(lsp_types::NumberOrString::Number(n)) => n.to_string(),
                None => String::new(),
            },
            line: d.range.start.line,
            col: d.range.start.character,
            end_line: d.range.end.line,
            end_col: d.range.end.character,
            msg: d.message,
        })
        .collect();
    v.sort();
    Some(v)
}

#[derive(Clone, Copy, PartialEq, Eq, Debug)]
enum Cov {
    Covered,
    Not,
    /// the property statement does not settle it (e.g. code before a trailing disable-next-line comment)
    Unspecified,
}

/// Does suppression `k` (sitting on line `sl`) cover diagnostic `d`?  Derived from the property text.
fn coverage(lines: &[Line], sup: &Sup, sl: usize, d: &D) -> Cov {
    if let Some(cs) = &sup.codes {
        if !cs.iter().any(|c| CODES[*c as usize % CODES.len()] == d.code) {
            return Cov::Not;
        }
    }
    let dl = d.line as usize;
    match sup.action % 3 {
        0 => {
            // only on the comment and the line directly after it
            if dl == sl + 1 {
                Cov::Covered
            } else if dl == sl {
                Cov::Unspecified
            } else {
                Cov::Not
            }
        }
        1 => {
            if dl == sl {
                Cov::Covered
            } else {
                Cov::Not
            }
        }
        _ => {
            // only within the enclosing block (the whole file at top level)
            let sp = &lines[sl].path;
            let dp = &lines[dl].path;
            if dp.len() >= sp.len() && dp[..sp.len()] == sp[..] {
                Cov::Covered
            } else {
                Cov::Not
            }
        }
    }
}

fn action_name(s: &Sup) -> &'static str {
    match s.action % 3 {
        0 => "next-line",
        1 => "line",
        _ => "disable",
    }
}

/// where a wrongly hidden diagnostic lies relative to the suppression that hid it
fn hidden_relation(lines: &[Line], sup: &Sup, sl: usize, d: &D) -> String {
    let code_ok = sup.codes.as_ref().map(|cs| cs.iter().any(|c| CODES[*c as usize % CODES.len()] == d.code)).unwrap_or(true);
    if !code_ok {
        return "other-code".into();
    }
    let dl = d.line as i64;
    let sl_i = sl as i64;
    let last_scope_line = match sup.action % 3 {
        0 => sl_i + 1,
        1 => sl_i,
        _ => -1,
    };
    if sup.action % 3 != 2 {
        if dl == last_scope_line + 1 && d.col == 0 {
            return "col0-of-line-after-scope".into();
        }
        return format!("line{:+}", dl - sl_i);
    }
    let sp = &lines[sl].path;
    let dp = &lines[d.line as usize].path;
    // does the block holding the comment contain any statement at all?
    let has_stmt = lines.iter().enumerate().any(|(i, l)| i != sl && l.path.len() >= sp.len() && l.path[..sp.len()] == sp[..] && !l.text.trim().is_empty() && !l.own_line_comment);
    if !sp.is_empty() && !has_stmt {
        return "from-comment-only-block".into();
    }
    if dp.len() < sp.len() && sp[..dp.len()] == dp[..] {
        "enclosing-block".into()
    } else {
        "other-block".into()
    }
}

impl Property for C19 {
    type Case = Case;
    /// signatures of open known findings (only used to choose which of several failures of one case is reported)
    type Local = Vec<String>;
    fn id(&self) -> &'static str {
        "C19"
    }
    fn rule(&self) -> String {
        "cases = 4-20 line programs (one-line statements producing undefined-global / unused / unbalanced-assignments diagnostics with unique names at column 0 or indented, blank lines, nested do/if-else/while/for/function/repeat blocks whose headers also produce diagnostics) x 1-2 suppression comments (disable-next-line / disable-line / disable; no code list, one code, several codes incl. codes that do not occur; own line or trailing; any position incl. first/last line and first/last line of a block; spelling variants) x final newline on/off. Baseline = same text with each suppression comment replaced by a plain comment of equal length; every baseline diagnostic must be absent iff covered (code + scope from the property text), present otherwise, nothing new may appear; diagnostics on the same line before a trailing disable-next-line are not judged. non-trivial = some baseline diagnostic must disappear AND some baseline diagnostic that must stay lies within two lines of a suppression or in a block next to / around a `disable`; distinct = distinct case digest".into()
    }
    fn assumptions(&self) -> Vec<String> {
        vec![
            "`disable` inside a block covers the whole enclosing block (also the lines before the comment), as `the whole file at top level` suggests.".into(),
            "Header, `else` and footer lines of a block belong to the parent block; trailing `disable` comments on such lines are not generated (enclosing block ambiguous). Comment-bearing lines are never adjacent (adjacent comments merge into one comment node).".into(),
        ]
    }
    fn cases(&self, tier: Tier) -> u32 {
        tier.pick(240_000, 2_000_000)
    }
    fn strategy(&self, tier: Tier) -> BoxedStrategy<Case> {
        let indent = prop_oneof![3 => Just(0u8), 1 => Just(2u8), 1 => Just(4u8)];
        let leaf = prop_oneof![8 => (0u8..8, indent.clone()).prop_map(|(k, i)| Node::Stmt(k, i)), 1 => Just(Node::Blank)];
        let ind2 = indent.clone();
        let node = leaf.prop_recursive(tier.pick(3, 4), 20, 4, move |inner| {
            prop_oneof![
                3 => inner.clone(),
                2 => (0u8..7, ind2.clone(), proptest::collection::vec(inner.clone(), 0..4), proptest::option::weighted(0.5, proptest::collection::vec(inner, 0..3)))
                    .prop_map(|(k, i, b, e)| Node::Block(k, i, b, if k % 7 == 1 { e } else { None })),
            ]
        });
        let codes = prop_oneof![
            2 => Just(None),
            3 => (0u8..3).prop_map(|c| Some(vec![c])),
            2 => proptest::collection::vec(0u8..4, 2..4).prop_map(Some),
            1 => Just(Some(vec![3u8])),
        ];
        let sup = (0u8..3, codes, any::<u16>(), any::<bool>(), indent, 0u8..4).prop_map(|(action, codes, pos, trailing, indent, style)| Sup { action, codes, pos, trailing, indent, style });
        (proptest::collection::vec(node, 3..tier.pick(9, 14)), proptest::collection::vec(sup, 1..3), proptest::bool::weighted(0.8))
            .prop_map(|(nodes, sups, final_newline)| Case { nodes, sups, final_newline })
            .boxed()
    }
    fn fixed_cases(&self, _tier: Tier) -> Vec<Case> {
        let s = |k: u8| Node::Stmt(k, 0);
        vec![
            // ---@diagnostic disable-next-line: undefined-global / G() / G() : the third line must stay reported
            Case { nodes: vec![s(0), s(0), s(0)], sups: vec![Sup { action: 0, codes: Some(vec![0]), pos: 0, trailing: false, indent: 0, style: 0 }], final_newline: true },
            // own-line disable-line followed by a column-0 diagnostic
            Case { nodes: vec![s(0), s(0), s(0)], sups: vec![Sup { action: 1, codes: None, pos: 30000, trailing: false, indent: 0, style: 0 }], final_newline: true },
            // disable inside a do-block next to a sibling block
            Case {
                nodes: vec![s(0), Node::Block(0, 0, vec![s(0), s(1)], None), Node::Block(1, 0, vec![s(0)], Some(vec![s(0)])), s(0)],
                sups: vec![Sup { action: 2, codes: Some(vec![0]), pos: 12000, trailing: false, indent: 2, style: 0 }],
                final_newline: false,
            },
        ]
    }
    fn simplify(&self, c: &Case) -> Vec<Case> {
        let mut out = vec![];
        // drop a suppression
        if c.sups.len() > 1 {
            for i in 0..c.sups.len() {
                let mut d = c.clone();
                d.sups.remove(i);
                out.push(d);
            }
        }
        // drop / flatten top-level nodes
        for i in 0..c.nodes.len() {
            let mut d = c.clone();
            d.nodes.remove(i);
            out.push(d);
            if let Node::Block(_, _, b, _) = &c.nodes[i] {
                let mut d = c.clone();
                d.nodes.splice(i..i + 1, b.clone());
                out.push(d);
            }
        }
        // simplify suppression attributes
        for i in 0..c.sups.len() {
            let s = &c.sups[i];
            if s.indent != 0 || s.style != 0 {
                let mut d = c.clone();
                d.sups[i].indent = 0;
                d.sups[i].style = 0;
                out.push(d);
            }
        }
        out
    }
    fn local(&self) -> Vec<String> {
        let root = std::path::PathBuf::from(std::env::var("VERIF_ROOT").unwrap_or_else(|_| "/verif".into()));
        findings::load(&root).into_iter().filter(|e| e.property == "C19" && e.status == "open").map(|e| e.signature).collect()
    }
    fn render(&self, c: &Case) -> serde_json::Value {
        let (lines, sups) = layout(c);
        serde_json::Value::String(render(&lines, &sups, &vec![true; sups.len()], c.final_newline))
    }
    fn check(&self, c: &Case, known: &mut Vec<String>, obs: &mut Obs) -> Verdict {
        let (lines, sups) = layout(c);
        if sups.is_empty() {
            return Verdict::Skip("no-suppression-placed".into());
        }
        let all = vec![true; sups.len()];
        let none = vec![false; sups.len()];
        let variant_text = render(&lines, &sups, &all, c.final_newline);
        let base_text = render(&lines, &sups, &none, c.final_newline);
        debug_assert_eq!(variant_text.len(), base_text.len());
        let (Some(base), Some(var)) = (diagnose(&base_text), diagnose(&variant_text)) else {
            return Verdict::Skip("diagnose-returned-none".into());
        };
        if base.iter().any(|d| d.line != d.end_line) {
            return Verdict::Skip("multi-line-baseline-diagnostic".into());
        }
        let sup_line = |k: usize| lines.iter().position(|l| l.sup == Some(k)).unwrap();
        for (k, s) in sups.iter().enumerate() {
            let l = &lines[sup_line(k)];
            obs.class(&format!("action:{}", action_name(s)));
            obs.class(match &s.codes {
                None => "codes:none",
                Some(v) if v.len() == 1 => "codes:one",
                _ => "codes:several",
            });
            obs.class(if l.own_line_comment { "place:own-line" } else { "place:trailing" });
            obs.class_if(sup_line(k) == 0, "place:first-line");
            obs.class_if(sup_line(k) + 1 == lines.len(), "place:last-line");
            obs.class_if(!l.path.is_empty(), "place:inside-block");
        }
        obs.class_if(sups.len() == 2, "two-suppressions");
        for d in &base {
            obs.class(&format!("code:{}", d.code));
        }

        // expected status of every baseline diagnostic
        let mut must_hide = 0;
        let mut near_keep = false;
        let mut remaining = var.clone();
        let mut fails: Vec<(String, String)> = vec![];
        for d in &base {
            let covs: Vec<Cov> = sups.iter().enumerate().map(|(k, s)| coverage(&lines, s, sup_line(k), d)).collect();
            let present = if let Some(p) = remaining.iter().position(|x| x == d) {
                remaining.remove(p);
                true
            } else {
                false
            };
            let verdict = if covs.contains(&Cov::Covered) {
                Cov::Covered
            } else if covs.contains(&Cov::Unspecified) {
                Cov::Unspecified
            } else {
                Cov::Not
            };
            match verdict {
                Cov::Unspecified => obs.class("diag:not-judged(same line before trailing next-line comment)"),
                Cov::Covered => {
                    must_hide += 1;
                    if present && fails.len() < 8 {
                        let k = covs.iter().position(|c| *c == Cov::Covered).unwrap();
                        let s = &sups[k];
                        let sig = format!("{}:keeps:{}", action_name(s), if s.codes.is_some() { "listed-code-in-scope" } else { "in-scope" });
                        fails.push((sig, format!("{} at line {} col {} should be suppressed by `{}` on line {} but is still reported", d.code, d.line, d.col, comment_text(s), sup_line(k))));
                    }
                }
                Cov::Not => {
                    for (k, s) in sups.iter().enumerate() {
                        let sl = sup_line(k) as i64;
                        let dl = d.line as i64;
                        let near = (dl - sl).abs() <= 2;
                        let block_neighbour = s.action % 3 == 2 && !lines[sup_line(k)].path.is_empty();
                        if near || block_neighbour {
                            near_keep = true;
                        }
                        if dl == sl - 1 {
                            obs.class("keep:line-before");
                        }
                        if dl == sl + 2 && s.action % 3 == 0 {
                            obs.class(if d.col == 0 { "keep:next-line+1-col0" } else { "keep:next-line+1-indented" });
                        }
                        if dl == sl + 1 && s.action % 3 == 1 {
                            obs.class(if d.col == 0 { "keep:line+1-col0" } else { "keep:line+1-indented" });
                        }
                        if block_neighbour {
                            obs.class("keep:outside-disabled-block");
                        }
                    }
                    if !present && fails.len() < 8 {
                        // attribute: which suppression alone hides it?
                        let mut culprit = None;
                        for k in 0..sups.len() {
                            let mut act = none.clone();
                            act[k] = true;
                            if let Some(v) = diagnose(&render(&lines, &sups, &act, c.final_newline)) {
                                if !v.contains(d) {
                                    culprit = Some(k);
                                    break;
                                }
                            }
                        }
                        let (sig, why) = match culprit {
                            Some(k) => {
                                let s = &sups[k];
                                (
                                    format!("{}:hides:{}", action_name(s), hidden_relation(&lines, s, sup_line(k), d)),
                                    format!("`{}` on line {}", comment_text(s), sup_line(k)),
                                )
                            }
                            None => ("hides:only-in-combination".to_string(), "no single suppression".to_string()),
                        };
                        fails.push((sig, format!("{} at line {} col {} is outside the scope/code list of every suppression but is no longer reported (hidden by {why})", d.code, d.line, d.col)));
                    }
                }
            }
        }
        if let Some(extra) = remaining.first() {
            fails.push((format!("new-diagnostic:{}", extra.code), format!("diagnostic {:?} appears only with the suppression comment present", extra)));
        }
        if std::env::var_os("VERIF_SURVEY").is_some() {
            // development aid: histogram of all failure signatures instead of stopping at the first
            for f in &fails {
                obs.class(&format!("survey-fail:{}", f.0));
            }
            fails.clear();
        }
        if let Some((sig, msg)) = fails.iter().find(|f| !known.contains(&f.0)).or(fails.first()) {
            return Verdict::fail(sig.clone(), format!("{msg}\n--- text ---\n{variant_text}\n--- baseline diagnostics ---\n{}", base.iter().map(|d| format!("{}:{} {}", d.line, d.col, d.code)).collect::<Vec<_>>().join("; ")));
        }
        obs.class_if(must_hide > 0, "some-must-hide");
        Verdict::pass(must_hide > 0 && near_keep)
    }
}
