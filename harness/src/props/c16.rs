//! C16 — Type assignability obeys the basic laws of subtyping.
use crate::engine::*;
use crate::gens::doc_types::{self as dt, Profile, Ty, World};
use crate::gens::util;
use crate::oracle::tyws;
use emmylua_code_analysis::{LuaType, TypeOps, VirtualWorkspace};
use proptest::prelude::*;
use serde::{Deserialize, Serialize};

#[derive(Clone, Debug, Serialize, Deserialize)]
pub enum BatchItem {
    T(Ty),
    Never,
    /// the `table` primitive as it appears nested in annotations (a bare `---@type table` is a table constant instead)
    #[serde(alias = "Table")]
    PlainTable,
    /// a second materialisation of an earlier item of the batch (index reduced modulo position)
    Dup(u16),
}

#[derive(Clone, Debug, Serialize, Deserialize)]
pub struct Case {
    pub world: World,
    pub types: Vec<Ty>,
    pub batch: Vec<BatchItem>,
}

pub struct C16;

/// `check_type_compact(db, source = expected, compact_type = given).is_ok()` through its public wrapper
fn accepts(ws: &VirtualWorkspace, expected: &LuaType, given: &LuaType) -> bool {
    ws.check_type(expected, given)
}

fn node_sig(t: &Ty) -> String {
    let mut inner: Vec<&'static str> = dt::children(t).into_iter().map(dt::kind).collect();
    if matches!(t, Ty::Union(_) | Ty::Record(_)) {
        inner.sort();
        inner.dedup();
    }
    let head = match t {
        Ty::Prim(i) => dt::PRIMS[*i as usize % dt::PRIMS.len()],
        _ => dt::kind(t),
    };
    if inner.is_empty() { head.to_string() } else { format!("{head}({})", inner.join(",")) }
}

/// reflexivity of one type text on a fresh workspace: (same instance ok, second instance ok)
fn reflexive(world: &World, t: &Ty) -> Option<(bool, bool)> {
    let text = world.render(t);
    let (mut ws, _) = tyws::workspace(world);
    let (_, a) = tyws::materialise(&mut ws, "t.lua", std::slice::from_ref(&text)).ok()?;
    let (_, b) = tyws::materialise(&mut ws, "t2.lua", std::slice::from_ref(&text)).ok()?;
    let db = tyws::db(&ws);
    Some((accepts(&ws, &a[0], &a[0]), accepts(&ws, &a[0], &b[0])))
}

fn minimal_nonreflexive<'a>(world: &World, t: &'a Ty) -> &'a Ty {
    for c in dt::children(t) {
        if let Some((x, y)) = reflexive(world, c) {
            if !x || !y {
                return minimal_nonreflexive(world, c);
            }
        }
    }
    t
}

/// union-like nodes of a type (root first): (node, members)
fn union_nodes(t: &Ty, out: &mut Vec<(Ty, Vec<Ty>)>) {
    match t {
        Ty::Union(ms) if !ms.is_empty() => out.push((t.clone(), ms.clone())),
        Ty::Opt(x) => out.push((t.clone(), vec![(**x).clone(), Ty::Prim(4)])),
        _ => {}
    }
    for c in dt::children(t) {
        union_nodes(c, out);
    }
}

fn batch_texts(world: &World, batch: &[BatchItem]) -> Vec<String> {
    let mut out: Vec<String> = vec![];
    for (i, b) in batch.iter().enumerate() {
        let s = match b {
            BatchItem::T(t) => world.render(t),
            BatchItem::Never => "never".to_string(),
            BatchItem::PlainTable => "table[]".to_string(),
            BatchItem::Dup(r) => {
                if i == 0 {
                    "string".to_string()
                } else {
                    out[*r as usize % i].clone()
                }
            }
        };
        out.push(s);
    }
    out
}

fn union_kind_class(ts: &[LuaType]) -> &'static str {
    // which pairwise rule families the batch touches
    let has = |p: &dyn Fn(&LuaType) -> bool| ts.iter().any(p);
    if has(&|t| matches!(t, LuaType::Union(_))) {
        "batch:has-union"
    } else if has(&|t| matches!(t, LuaType::Ref(_))) {
        "batch:has-ref"
    } else if has(&|t| matches!(t, LuaType::DocFunction(_))) {
        "batch:has-fun"
    } else {
        "batch:structural-candidates"
    }
}

struct Pair {
    law: &'static str,
    expected: String,
    given: String,
    sig: String,
}

fn diag_file(pairs: &[Pair]) -> String {
    let mut s = String::new();
    for (i, p) in pairs.iter().enumerate() {
        s.push_str(&format!("---@type {}\nlocal g{i}\n---@type {}\nlocal e{i} = g{i}\n", p.given, p.expected));
    }
    s
}

impl C16 {
    fn run(&self, c: &Case, obs: &mut Obs) -> Verdict {
        let w = &c.world;
        let (mut ws, prelude_id) = tyws::workspace(w);
        if !tyws::syntax_errors(&ws, prelude_id).is_empty() {
            return Verdict::Skip("excluded.gen-prelude-syntax-error".into());
        }
        // ---------------------------------------------------------------- texts
        let type_texts: Vec<String> = c.types.iter().map(|t| w.render(t)).collect();
        let mut unions: Vec<(Ty, Vec<Ty>)> = vec![];
        for t in &c.types {
            union_nodes(t, &mut unions);
        }
        unions.truncate(6);
        // aliases that name a union are unions too: `---@alias A string|integer`, `---@alias A` + `---| "a"` lines
        for (i, a) in w.aliases.iter().enumerate() {
            let members: Vec<Ty> = match a {
                dt::AliasDecl::Plain(Ty::Union(ms)) => ms.clone(),
                dt::AliasDecl::Plain(Ty::Opt(x)) => vec![(**x).clone(), Ty::Prim(4)],
                dt::AliasDecl::Lines(ms) => ms.clone(),
                _ => continue,
            };
            // alias bodies may mention earlier aliases only (see World::prelude)
            let members: Vec<Ty> = members
                .iter()
                .map(|m| dt::map_ty(m, &|x| match x {
                    Ty::Alias(r) => Some(if i == 0 { Ty::Prim(0) } else { Ty::Alias((*r as usize % i) as u8) }),
                    _ => None,
                }))
                .collect();
            unions.push((Ty::Alias(i as u8), members));
        }
        let nclasses = w.classes.len();
        let class_texts: Vec<String> = (0..nclasses).map(|i| w.class_name(i as u8)).collect();
        let mut texts: Vec<String> = vec!["any".into(), "unknown".into()];
        let off_types = texts.len();
        texts.extend(type_texts.iter().cloned());
        let off_unions = texts.len();
        for (u, ms) in &unions {
            texts.push(w.render(u));
            for m in ms {
                texts.push(w.render(m));
            }
        }
        let off_classes = texts.len();
        texts.extend(class_texts.iter().cloned());
        let off_gen = texts.len();
        let mut gen_anc: Vec<(usize, String)> = vec![];
        for i in 0..nclasses {
            for g in w.generic_ancestors(i) {
                gen_anc.push((i, g.clone()));
                texts.push(g);
            }
        }
        let off_batch = texts.len();
        let btexts = batch_texts(w, &c.batch);
        texts.extend(btexts.iter().cloned());

        let (f1, tys) = match tyws::materialise(&mut ws, "t.lua", &texts) {
            Ok(x) => x,
            Err(_) => return Verdict::Skip("excluded.gen-not-materialised".into()),
        };
        if let Some(e) = tyws::syntax_errors(&ws, f1).first() {
            if std::env::var("VERIF_DEBUG").is_ok() {
                eprintln!("GEN-SYNTAX {e} :: {:?}", texts);
            }
            return Verdict::Skip("excluded.gen-syntax-error".into());
        }
        let (_, tys2) = match tyws::materialise(&mut ws, "t2.lua", &type_texts) {
            Ok(x) => x,
            Err(_) => return Verdict::Skip("excluded.gen-not-materialised".into()),
        };
        let any = tys[0].clone();
        let unknown = tys[1].clone();
        if !matches!(any, LuaType::Any) || !matches!(unknown, LuaType::Unknown) {
            return Verdict::fail("harness:any-unknown", format!("`any`/`unknown` materialised as {any:?}/{unknown:?}"));
        }
        // harness self-check: the oracle is not vacuous
        if accepts(&ws, &LuaType::String, &LuaType::Integer) || accepts(&ws, &LuaType::Nil, &LuaType::String) {
            return Verdict::fail("harness:accepts-everything", "check_type accepts integer where string is expected");
        }
        let mut dpairs: Vec<Pair> = vec![];

        // ---------------------------------------------------------------- law 1 + 4 on every type
        for (i, t) in c.types.iter().enumerate() {
            let a = &tys[off_types + i];
            let a2 = &tys2[i];
            let db = tyws::db(&ws);
            obs.class(&format!("root:{}", dt::kind(t)));
            obs.class(&format!("lua:{}", lua_kind(a)));
            let r1 = accepts(&ws, a, a);
            let r2 = accepts(&ws, a, a2);
            if !r1 || !r2 {
                let m = minimal_nonreflexive(w, t);
                let which = if !r1 { "refl" } else { "refl2" };
                return Verdict::fail(
                    format!("{which}:{}", node_sig(m)),
                    format!(
                        "a value of type `{}` is not accepted where `{}` is expected ({}); minimal sub-term `{}`; A={}",
                        type_texts[i],
                        type_texts[i],
                        if !r1 { "same type instance" } else { "second materialisation of the same annotation" },
                        w.render(m),
                        tyws::canon(db, a)
                    ),
                );
            }
            if !accepts(&ws, &any, a) {
                return Verdict::fail(format!("any-rejects:{}", node_sig(t)), format!("`any` does not accept `{}` ({})", type_texts[i], tyws::canon(db, a)));
            }
            if !accepts(&ws, &unknown, a) {
                return Verdict::fail(format!("unknown-rejects:{}", node_sig(t)), format!("`unknown` does not accept `{}` ({})", type_texts[i], tyws::canon(db, a)));
            }
            dpairs.push(Pair { law: "refl", expected: type_texts[i].clone(), given: type_texts[i].clone(), sig: node_sig(t) });
            dpairs.push(Pair { law: "any", expected: "any".into(), given: type_texts[i].clone(), sig: node_sig(t) });
        }

        // ---------------------------------------------------------------- law 2: union members
        let mut k = off_unions;
        for (u, ms) in &unions {
            let ut = &tys[k];
            let utext = &texts[k];
            k += 1;
            for m in ms {
                let mt = &tys[k];
                let mtext = &texts[k];
                k += 1;
                let db = tyws::db(&ws);
                obs.class("law:union-member");
                if matches!(ut, LuaType::Unknown) {
                    // `unknown` inside a composite makes the whole annotation unknown: accepts everything anyway
                    obs.class("union-collapsed-to-unknown");
                }
                if !accepts(&ws, ut, mt) {
                    return Verdict::fail(
                        format!("member:{}<-{}", dt::kind(u), node_sig(m)),
                        format!("member `{mtext}` is not accepted where the union `{utext}` is expected; U={} M={}", tyws::canon(db, ut), tyws::canon(db, mt)),
                    );
                }
                dpairs.push(Pair { law: "member", expected: utext.clone(), given: mtext.clone(), sig: format!("{}<-{}", dt::kind(u), node_sig(m)) });
            }
        }

        // ---------------------------------------------------------------- law 3: class accepted by every ancestor
        for i in 0..nclasses {
            let direct = w.direct_supers(i);
            for j in w.ancestors(i) {
                let db = tyws::db(&ws);
                let kind = if direct.contains(&j) { "direct" } else { "transitive" };
                obs.class(&format!("law:ancestor-{kind}"));
                if !accepts(&ws, &tys[off_classes + j], &tys[off_classes + i]) {
                    return Verdict::fail(
                        format!("ancestor:{kind}"),
                        format!("class `{}` is not accepted where its {kind} ancestor `{}` is expected; prelude:\n{}", class_texts[i], class_texts[j], w.prelude()),
                    );
                }
                dpairs.push(Pair { law: "ancestor", expected: class_texts[j].clone(), given: class_texts[i].clone(), sig: kind.to_string() });
            }
        }
        for (n, (i, g)) in gen_anc.iter().enumerate() {
            let db = tyws::db(&ws);
            let own = w.classes[*i].generic_super.as_ref().map(|(gi, a)| w.render(&Ty::Generic(*gi, a.clone())) == *g).unwrap_or(false);
            let kind = if own { "generic-direct" } else { "generic-inherited" };
            obs.class(&format!("law:ancestor-{kind}"));
            let gt = &tys[off_gen + n];
            if matches!(gt, LuaType::Unknown | LuaType::Any) {
                obs.class("generic-ancestor-unknown");
                continue;
            }
            if !accepts(&ws, gt, &tys[off_classes + i]) {
                return Verdict::fail(
                    format!("ancestor:{kind}"),
                    format!("class `{}` is not accepted where its ancestor `{g}` is expected; G={}; prelude:\n{}", class_texts[*i], tyws::canon(db, gt), w.prelude()),
                );
            }
            dpairs.push(Pair { law: "ancestor", expected: g.clone(), given: class_texts[*i].clone(), sig: kind.to_string() });
        }

        // ---------------------------------------------------------------- batch union law
        if !c.batch.is_empty() {
            let db = tyws::db(&ws);
            let mut bt: Vec<LuaType> = tys[off_batch..].to_vec();
            for (i, b) in c.batch.iter().enumerate() {
                // `table[]` was materialised for a PlainTable item (or a Dup of one): take the element type
                if btexts[i] == "table[]" && matches!(b, BatchItem::PlainTable | BatchItem::Dup(_)) {
                    if let LuaType::Array(a) = &bt[i] {
                        bt[i] = a.get_base().clone();
                    }
                }
            }
            obs.class(union_kind_class(&bt));
            let all = TypeOps::union_all(db, bt.iter().cloned());
            let mut fold = LuaType::Never;
            for t in &bt {
                fold = TypeOps::Union.apply(db, &fold, t);
            }
            let ca = tyws::canon(db, &all);
            let cf = tyws::canon(db, &fold);
            if ca != cf {
                return Verdict::fail(
                    "batch:differs",
                    format!("union_all({:?}) = {ca} but unioning one at a time gives {cf}", btexts),
                );
            }
            let ma = tyws::union_members_multiset(db, &all);
            let mf = tyws::union_members_multiset(db, &fold);
            // Multiplicities are not compared: `LuaType::from_vec` removes duplicates through a HashSet whose Hash for
            // object/generic/table members is the Arc pointer, so whether two structurally equal members collapse varies
            // from call to call (observed: the same fold evaluated twice gives 3 resp. 5 copies of `G0<E0>`).
            obs.class_if(ma != mf, "batch:duplicate-multiplicity-differs");
            obs.class_if(matches!(all, LuaType::Union(_)), "batch:result-union");
        }

        // ---------------------------------------------------------------- the same laws through the assignment diagnostic
        if !dpairs.is_empty() {
            let src = diag_file(&dpairs);
            let id = ws.def_file("d.lua", &src);
            for (code, msg, line) in tyws::diagnostics(&ws, id) {
                if code == "assign-type-mismatch" {
                    let p = &dpairs[(line as usize / 4).min(dpairs.len() - 1)];
                    return Verdict::fail(
                        format!("diag-{}:{}", p.law, p.sig),
                        format!("`---@type {}` `local g` / `---@type {}` `local e = g` reports assign-type-mismatch: {msg}", p.given, p.expected),
                    );
                }
            }
            obs.class("diag-checked");
        }

        let nontrivial = c.types.iter().any(|t| dt::depth(t) >= 2 || dt::any_node(t, &|n| matches!(n, Ty::Class(_) | Ty::Alias(_))));
        Verdict::pass(nontrivial)
    }
}

fn lua_kind(t: &LuaType) -> &'static str {
    match t {
        LuaType::Unknown => "Unknown",
        LuaType::Any => "Any",
        LuaType::Union(_) => "Union",
        LuaType::Ref(_) => "Ref",
        LuaType::Array(_) => "Array",
        LuaType::Tuple(_) => "Tuple",
        LuaType::Object(_) => "Object",
        LuaType::TableGeneric(_) => "TableGeneric",
        LuaType::Generic(_) => "Generic",
        LuaType::DocFunction(_) => "DocFunction",
        LuaType::DocStringConst(_) | LuaType::DocIntegerConst(_) | LuaType::DocBooleanConst(_) => "DocConst",
        LuaType::TableConst(_) => "TableConst",
        _ => "basic",
    }
}

#[allow(unused)]
fn _ws_unused(_: &VirtualWorkspace) {}

impl Property for C16 {
    type Case = Case;
    type Local = ();
    fn id(&self) -> &'static str {
        "C16"
    }
    fn rule(&self) -> String {
        "case = generated prelude (classes with inheritance chains/diamonds and generic-instance supers, generic classes, aliases incl. multi-line literal aliases, enums) + 1..3 types from the full annotation grammar + a batch of 0..6 small types (with repeated items, `never` and the plain `table` primitive); judged with check_type_compact(expected, given): T accepts T (same instance and a second materialisation), `any` and `unknown` accept T, every union/optional node of T accepts each of its members, every class is accepted by each of its (transitive, generic-instance) ancestors, TypeOps::union_all(batch) == left fold of TypeOps::Union from never (canonical form, then multiset of members); the accepted pairs are also written as `---@type G` `local g` / `---@type E` `local e = g` and must not report assign-type-mismatch. non-trivial = some type has nesting depth >= 2 or mentions a class/alias".into()
    }
    fn cases(&self, tier: Tier) -> u32 {
        tier.pick(30_000, 3_000_000)
    }
    fn strategy(&self, _tier: Tier) -> BoxedStrategy<Case> {
        let small = prop_oneof![
            3 => dt::leaf(Profile::full()),
            2 => dt::ty_at(Profile { max_depth: 2, ..Profile::full() }, 0),
        ];
        let item = prop_oneof![
            8 => small.prop_map(BatchItem::T),
            1 => Just(BatchItem::Never),
            1 => Just(BatchItem::PlainTable),
            2 => any::<u16>().prop_map(BatchItem::Dup),
        ];
        (dt::world(), proptest::collection::vec(dt::ty(Profile::full()), 1..4), proptest::collection::vec(item, 0..7))
            .prop_map(|(world, types, batch)| Case { world, types, batch })
            .boxed()
    }
    fn local(&self) {}
    fn simplify(&self, c: &Case) -> Vec<Case> {
        let mut out = vec![];
        if !c.batch.is_empty() && !c.types.is_empty() {
            out.push(Case { batch: vec![], ..c.clone() });
            out.push(Case { types: vec![], ..c.clone() });
        }
        for i in 0..c.types.len() {
            if c.types.len() > 1 {
                let mut t = c.types.clone();
                t.remove(i);
                out.push(Case { types: t, ..c.clone() });
            }
            for ch in dt::children(&c.types[i]) {
                let mut t = c.types.clone();
                t[i] = ch.clone();
                out.push(Case { types: t, ..c.clone() });
            }
        }
        for i in 0..c.batch.len() {
            let mut b = c.batch.clone();
            b.remove(i);
            out.push(Case { batch: b, ..c.clone() });
        }
        let mut w = c.world.clone();
        if w.classes.len() > 1 {
            w.classes.pop();
            out.push(Case { world: w.clone(), ..c.clone() });
        }
        let mut w = c.world.clone();
        for cl in w.classes.iter_mut() {
            cl.fields.clear();
        }
        w.generics.truncate(1);
        w.aliases.truncate(1);
        w.enums.truncate(1);
        if w != c.world {
            out.push(Case { world: w, ..c.clone() });
        }
        let _ = util::idx(0, 1);
        out
    }
    fn check(&self, c: &Case, _l: &mut (), obs: &mut Obs) -> Verdict {
        match catch(|| {
            let mut o = Obs::default();
            let v = self.run(c, &mut o);
            (v, o)
        }) {
            Ok((v, o)) => {
                for cl in o.classes {
                    obs.class(&cl);
                }
                v
            }
            Err(p) => Verdict::Skip(format!("excluded.panic(C12):{}", panic_site(&p))),
        }
    }
}
