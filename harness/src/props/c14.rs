//! C14 — Rename and references agree with name resolution.
use crate::engine::*;
use crate::gens::scope_frag::{self, NameTok, Program};
use crate::ls::docgen::position_of;
use crate::ls::requests::valid_params;
use crate::ls::{did_open, uri_for, Ls, LsOpts};
use crate::oracle::lspshape::range_of;
use crate::oracle::scoping::Actual;
use crate::props::c13::observe;
use emmylua_code_analysis::{SemanticDeclLevel, VirtualWorkspace};
use proptest::prelude::*;
use serde::{Deserialize, Serialize};
use serde_json::Value;
use std::collections::{BTreeSet, HashMap};

#[derive(Clone, Debug, Serialize, Deserialize)]
pub struct Case {
    pub prog: Program,
}

pub struct C14;

/// the tool's own resolution of every name token: Some(k) = local declared by token k
fn tool_resolution(text: &str, toks: &[NameTok]) -> Option<Vec<Option<usize>>> {
    tool_resolution2(text, toks).map(|x| x.0)
}

/// also: for every declaring token, whether the references handler follows value aliases for it (its type is a
/// function signature, table, or class reference)
fn tool_resolution2(text: &str, toks: &[NameTok]) -> Option<(Vec<Option<usize>>, Vec<bool>)> {
    let mut ws = VirtualWorkspace::new();
    let file_id = ws.def_file("c14.lua", text);
    let model = ws.analysis.compilation.get_semantic_model(file_id)?;
    if let Some(tree) = model.get_db().get_vfs().get_syntax_tree(&file_id) {
        if !tree.get_errors().is_empty() {
            return None;
        }
    }
    let by_off: HashMap<usize, usize> = toks.iter().enumerate().map(|(i, t)| (t.offset, i)).collect();
    let mut out = vec![];
    let mut followable = vec![false; toks.len()];
    for (i, t) in toks.iter().enumerate() {
        if t.is_decl {
            out.push(Some(i));
            let id = emmylua_code_analysis::LuaDeclId::new(file_id, rowan::TextSize::new(t.offset as u32));
            let typ = model.get_type(id.into());
            followable[i] = is_followable(&typ);
            continue;
        }
        match observe(&model, toks, &by_off, i, SemanticDeclLevel::NoTrace) {
            Ok(Actual::Local(k)) => out.push(Some(k)),
            Ok(_) => out.push(None),
            Err(_) => return None,
        }
    }
    Some((out, followable))
}

/// function/table/class typed values (also as a member of a union, e.g. the nullable `(fun())?` of a field that is
/// re-assigned elsewhere): the references handler follows such values to the places they were assigned from/to
fn is_followable(t: &emmylua_code_analysis::LuaType) -> bool {
    use emmylua_code_analysis::LuaType;
    match t {
        LuaType::Signature(_) | LuaType::DocFunction(_) | LuaType::Function | LuaType::Table | LuaType::TableConst(_) | LuaType::Ref(_) | LuaType::Def(_) => true,
        LuaType::Union(u) => u.into_vec().iter().any(is_followable),
        _ => false,
    }
}

type R = ((u32, u32), (u32, u32));

fn tok_range(text: &str, t: &NameTok) -> R {
    (position_of(text, t.offset), position_of(text, t.offset + t.len))
}

fn edit_ranges(result: &Value, uri: &str) -> Option<Vec<(R, String)>> {
    let mut out = vec![];
    if let Some(ch) = result.get("changes").and_then(|c| c.as_object()) {
        for (u, edits) in ch {
            if u == uri {
                for e in edits.as_array()? {
                    out.push((range_of(e.get("range")?)?, e.get("newText")?.as_str()?.to_string()));
                }
            }
        }
    }
    if let Some(dc) = result.get("documentChanges").and_then(|c| c.as_array()) {
        for d in dc {
            if d.get("textDocument").and_then(|t| t.get("uri")).and_then(|u| u.as_str()) == Some(uri) {
                for e in d.get("edits")?.as_array()? {
                    out.push((range_of(e.get("range")?)?, e.get("newText")?.as_str()?.to_string()));
                }
            }
        }
    }
    Some(out)
}

impl Property for C14 {
    type Case = Case;
    type Local = ();
    fn id(&self) -> &'static str {
        "C14"
    }
    fn rule(&self) -> String {
        "cases = scope_frag programs (C13's generator: names a-d, shadowing, duplicate declarations, closures, loops, function statements); for every local/parameter declaration token and every use token that the tool itself resolves to a local, textDocument/rename (newName zz9) and textDocument/references (includeDeclaration) are requested through the in-process dispatcher; oracle: with R(D) = {declaring token of D} + {use tokens whose own find_decl is D}: (0) R(D) equals the group given by an independent resolver implementing Lua's scoping rules; (a) the rename edits of the file are exactly the name-token ranges of R(D), pairwise non-overlapping, all with the new text; (b) references returns the same set of ranges; (c) applying the edits gives a program whose resolution structure (use index -> declaration index, by the tool's find_decl after re-analysis) equals the original's; non-trivial = |R(D)| >= 3 for a requested D and another declaration of the same name exists".into()
    }
    fn assumptions(&self) -> Vec<String> {
        vec!["R(D) is computed with the tool's own resolution (find_decl, NoTrace) and, for every declaration, compared with the group Lua's scoping rules give (oracle::scoping); a resolution defect therefore shows in C13 and here".into()]
    }
    fn cases(&self, tier: Tier) -> u32 {
        tier.pick(3000, 200_000)
    }
    fn strategy(&self, tier: Tier) -> BoxedStrategy<Case> {
        scope_frag::program(tier.pick(3, 4), tier.pick(6, 9)).prop_map(|prog| Case { prog }).boxed()
    }
    fn simplify(&self, c: &Case) -> Vec<Case> {
        c.prog.simplify().into_iter().map(|prog| Case { prog }).collect()
    }
    fn render(&self, c: &Case) -> Value {
        Value::String(c.prog.render_raw().0)
    }
    fn local(&self) {}
    fn check(&self, c: &Case, _: &mut (), obs: &mut Obs) -> Verdict {
        let _ = take_panics();
        let (text, toks) = c.prog.render();
        if !text.is_ascii() {
            return Verdict::Skip("non-ascii".into());
        }
        let Some((res, followable)) = tool_resolution2(&text, &toks) else {
            return Verdict::Skip("no-resolution".into());
        };
        let mut ls = Ls::new(LsOpts { pull_diagnostics: true, ..Default::default() });
        let uri = uri_for("/virtual_c14/doc.lua");
        let uri_s = serde_json::to_value(&uri).ok().and_then(|v| v.as_str().map(|s| s.to_string())).unwrap_or_default();
        ls.notify("textDocument/didOpen", did_open(&uri, &text));
        ls.settle();
        let mut nontrivial = false;
        let mut id = 0;
        for (i, t) in toks.iter().enumerate() {
            let Some(d) = res[i] else { continue };
            let group: BTreeSet<usize> = (0..toks.len()).filter(|k| res[*k] == Some(d)).collect();
            let expect: BTreeSet<R> = group.iter().map(|k| tok_range(&text, &toks[*k])).collect();
            let same_name_other_decl = toks.iter().enumerate().any(|(k, o)| o.is_decl && k != d && o.name == toks[d].name);
            if group.len() >= 3 && same_name_other_decl {
                nontrivial = true;
            }
            // independent reference for "every use that resolves to it": Lua's scoping rules (oracle::scoping, the
            // resolver C13 judges find_decl with).  R(D) above comes from the tool; the two must name the same tokens.
            if t.is_decl && d == i {
                let lua_group: BTreeSet<usize> = (0..toks.len()).filter(|k| *k == i || (!toks[*k].is_decl && toks[*k].expected_decl == Some(i))).collect();
                if lua_group != group {
                    let missing: Vec<usize> = lua_group.difference(&group).map(|k| toks[*k].offset).collect();
                    let extra: Vec<usize> = group.difference(&lua_group).map(|k| toks[*k].offset).collect();
                    return Verdict::fail(
                        format!("rename-set-not-lua-scoping:{}", toks[d].kind.map(|k| k.name()).unwrap_or("?")),
                        format!("the tokens renamed/referenced with the declaration of `{}` at offset {} are not the uses that resolve to it under Lua's scoping rules: missing uses at offsets {missing:?}, foreign tokens at offsets {extra:?}\n{text}", t.name, t.offset),
                    );
                }
                obs.class("group-checked-against-lua-scoping");
            }
            let (l, ch) = position_of(&text, t.offset);
            let what = if t.is_decl { "decl" } else { "use" };
            // (a) rename
            id += 1;
            let Some(resp) = ls.call(id, "textDocument/rename", valid_params("textDocument/rename", &uri, l, ch, l, ch)) else {
                let p = take_panics();
                return Verdict::Skip(format!("no-response(C24/C25):{}", p.first().map(|x| panic_site(x)).unwrap_or_default()));
            };
            let result = resp.result.unwrap_or(Value::Null);
            let Some(edits) = edit_ranges(&result, &uri_s) else {
                return Verdict::fail("rename:malformed-edit", format!("cannot read edits from {result}"));
            };
            let got: BTreeSet<R> = edits.iter().map(|e| e.0).collect();
            if got.len() != edits.len() {
                return Verdict::fail(format!("rename:duplicate-edit:{what}"), format!("rename at `{}` offset {} returns the same range twice: {edits:?}\n{text}", t.name, t.offset));
            }
            if got != expect {
                let missing: Vec<_> = expect.difference(&got).collect();
                let extra: Vec<_> = got.difference(&expect).collect();
                let kind = if !missing.is_empty() && !extra.is_empty() { "missing-and-extra" } else if !missing.is_empty() { "missing" } else { "extra" };
                let sig_ctx = if result.is_null() { "null-result".to_string() } else { kind.to_string() };
                return Verdict::fail(
                    format!("rename:{sig_ctx}:at-{what}:{}", toks[d].kind.map(|k| k.name()).unwrap_or("?")),
                    format!("rename at {what} `{}` offset {} (declaration at offset {}): missing edits {missing:?}, extra edits {extra:?}\n{text}", t.name, t.offset, toks[d].offset),
                );
            }
            if edits.iter().any(|e| e.1 != "zz9") {
                return Verdict::fail("rename:wrong-new-text", format!("edits do not all carry the new name: {edits:?}"));
            }
            let mut sorted: Vec<R> = got.iter().cloned().collect();
            sorted.sort();
            if sorted.windows(2).any(|w| w[1].0 < w[0].1) {
                return Verdict::fail("rename:overlapping-edits", format!("{sorted:?}"));
            }
            // (b) references
            id += 1;
            let Some(resp) = ls.call(id, "textDocument/references", valid_params("textDocument/references", &uri, l, ch, l, ch)) else {
                return Verdict::Skip("no-response(C24/C25)".into());
            };
            let refs: BTreeSet<R> = resp
                .result
                .as_ref()
                .and_then(|r| r.as_array())
                .map(|a| a.iter().filter(|x| x.get("uri").and_then(|u| u.as_str()) == Some(uri_s.as_str())).filter_map(|x| x.get("range").and_then(range_of)).collect())
                .unwrap_or_default();
            if refs != expect {
                let missing: Vec<_> = expect.difference(&refs).collect();
                let extra: Vec<_> = refs.difference(&expect).collect();
                let kind = if !missing.is_empty() && !extra.is_empty() { "missing-and-extra" } else if !missing.is_empty() { "missing" } else { "extra" };
                if missing.is_empty() && followable[d] {
                    // deliberate feature of the handler (enqueue_value_alias_references): for function/table/class
                    // typed locals it also reports fields and variables the value was assigned to, and their uses
                    return Verdict::fail(
                        "references:extra-only:value-alias-followed",
                        format!("references at {what} `{}` offset {} (function/table-typed local declared at offset {}) also returns {extra:?}, which are not uses resolving to that declaration\n{text}", t.name, t.offset, toks[d].offset),
                    );
                }
                {
                    // the handler resolves the token with alias tracing (find_decl at the default level): for a local
                    // initialised from another function/table-typed local it answers for that ORIGIN declaration
                    // (the origin may be another local or a global function): recognised by a result that does not
                    // even contain the token under the cursor although the set is non-empty
                    if !refs.is_empty() && !refs.contains(&tok_range(&text, t)) {
                        return Verdict::fail(
                            "references:answered-for-alias-origin",
                            format!("references at {what} `{}` offset {} resolves (rename, find_decl) to the local declared at offset {} but the handler answers for the aliased origin of its value: missing {missing:?}, extra {extra:?}\n{text}", t.name, t.offset, toks[d].offset),
                        );
                    }
                }
                return Verdict::fail(
                    format!("references:{kind}:at-{what}:{}", toks[d].kind.map(|k| k.name()).unwrap_or("?")),
                    format!("references at {what} `{}` offset {} (declaration at offset {}): missing {missing:?}, extra {extra:?}\n{text}", t.name, t.offset, toks[d].offset),
                );
            }
            // (c) apply the rename once per declaration (at its declaring token) and compare resolution structures
            if t.is_decl {
                let mut new_text = String::new();
                let mut new_toks: Vec<NameTok> = vec![];
                let mut pos = 0usize;
                let mut shift = 0isize;
                for (k, o) in toks.iter().enumerate() {
                    new_text.push_str(&text[pos..o.offset]);
                    let mut n = o.clone();
                    n.offset = (o.offset as isize + shift) as usize;
                    if group.contains(&k) {
                        new_text.push_str("zz9");
                        n.len = 3;
                        n.name = "zz9";
                        shift += 3 - o.len as isize;
                    } else {
                        new_text.push_str(&text[o.offset..o.offset + o.len]);
                    }
                    pos = o.offset + o.len;
                    new_toks.push(n);
                }
                new_text.push_str(&text[pos..]);
                match tool_resolution(&new_text, &new_toks) {
                    Some(res2) => {
                        if res2 != res {
                            let k = (0..res.len()).find(|k| res[*k] != res2[*k]).unwrap_or(0);
                            return Verdict::fail(
                                format!("rename-changes-resolution:{}", toks[d].kind.map(|k| k.name()).unwrap_or("?")),
                                format!("after renaming the declaration at offset {} to zz9, token #{k} (`{}` at offset {}) resolves to {:?} instead of {:?}\nbefore:\n{text}\nafter:\n{new_text}", toks[d].offset, toks[k].name, toks[k].offset, res2[k], res[k]),
                            );
                        }
                    }
                    None => return Verdict::fail("rename-breaks-program", format!("renamed program has syntax errors or unresolvable tokens:\n{new_text}")),
                }
                obs.class("renamed-and-reanalysed");
            }
        }
        let panics = take_panics();
        if let Some(p) = panics.first() {
            return Verdict::Skip(format!("server-task-panic(C25):{}", panic_site(p)));
        }
        Verdict::pass(nontrivial)
    }
}
