//! C25 — Position-based requests handle any position without crashing.
use crate::engine::*;
use crate::ls::docgen::{self, PosSel};
use crate::ls::requests::{valid_params, Shape, METHODS};
use crate::ls::{did_open, uri_for, Ls, LsOpts};
use lsp_server::Message;
use proptest::prelude::*;
use serde::{Deserialize, Serialize};
use std::collections::BTreeMap;

#[derive(Clone, Debug, Serialize, Deserialize)]
pub struct Case {
    pub text: String,
    pub src: String,
    /// (method index, start position, end position)
    pub reqs: Vec<(u8, PosSel, PosSel)>,
    pub std_lib: bool,
    /// per request: the optional `context` of completion / signatureHelp (0 = absent; see `with_context`)
    #[serde(default)]
    pub ctxs: Vec<u8>,
}

pub struct C25;

/// all registered methods, completion and signature help (the trigger-driven ones) three times as likely
fn method_idx() -> BoxedStrategy<u8> {
    let trig: Vec<u8> = METHODS.iter().enumerate().filter(|(_, m)| matches!(m.name, "textDocument/completion" | "textDocument/signatureHelp")).map(|(i, _)| i as u8).collect();
    prop_oneof![8 => 0u8..METHODS.len() as u8, 2 => proptest::sample::select(trig)].boxed()
}

/// the optional request context a client sends with completion / signatureHelp: how the request was triggered
fn with_context(method: &str, params: &mut serde_json::Value, k: u8) {
    let ch = docgen::TRIGGER_CHARS[(k as usize / 4) % 14]; // the single-character entries
    match (method, k % 4) {
        ("textDocument/completion", 1) => params["context"] = serde_json::json!({"triggerKind": 1}),
        ("textDocument/completion", 2) => params["context"] = serde_json::json!({"triggerKind": 2, "triggerCharacter": ch}),
        ("textDocument/completion", 3) => params["context"] = serde_json::json!({"triggerKind": 3}),
        ("textDocument/signatureHelp", 1) => params["context"] = serde_json::json!({"triggerKind": 1, "isRetrigger": false}),
        ("textDocument/signatureHelp", 2) => params["context"] = serde_json::json!({"triggerKind": 2, "triggerCharacter": ch, "isRetrigger": k >= 128}),
        ("textDocument/signatureHelp", 3) => params["context"] = serde_json::json!({"triggerKind": 3, "isRetrigger": k >= 128}),
        _ => {}
    }
}

impl Property for C25 {
    type Case = Case;
    type Local = ();
    fn id(&self) -> &'static str {
        "C25"
    }
    fn rule(&self) -> String {
        "cases = one open document (generated valid Lua / annotated snippets and their mutations / token soup / windows of std/*.lua / tails of those cut at any char boundary / documents starting with a trigger character) x 8-40 requests drawn from all 38 registered request methods with positions and ranges resolved against the document: every class of char-boundary offset, line ends, characters past the end of a line, lines past the end of the document, 10^6 and u32::MAX, the first bytes of the document; completion and signatureHelp also with every kind of trigger context; played through the real dispatcher in-process; oracle = after quiescence every request has exactly one response and no server task panicked; non-trivial = at least one request with a position beyond a line end or the document end, or a document with syntax errors".into()
    }
    fn assumptions(&self) -> Vec<String> {
        vec!["a crashed handler task is observed as a recorded panic plus a missing response (the dispatcher spawns one task per request)".into()]
    }
    fn cases(&self, tier: Tier) -> u32 {
        tier.pick(10_000, 150_000)
    }
    fn strategy(&self, tier: Tier) -> BoxedStrategy<Case> {
        (
            docgen::document_typed(tier),
            proptest::collection::vec((method_idx(), docgen::pos_sel(), docgen::pos_sel()), 8..tier.pick(40, 80)),
            proptest::bool::weighted(0.1),
            proptest::collection::vec(any::<u8>(), 80),
        )
            .prop_map(|((text, src), reqs, std_lib, ctxs)| Case { text, src, reqs, std_lib, ctxs })
            .boxed()
    }
    fn simplify(&self, c: &Case) -> Vec<Case> {
        let mut out: Vec<Case> = vec![];
        if c.reqs.len() > 1 {
            for i in 0..c.reqs.len() {
                let mut r = c.reqs.clone();
                r.remove(i);
                let mut x = c.ctxs.clone();
                if i < x.len() {
                    x.remove(i);
                }
                out.push(Case { reqs: r, ctxs: x, ..c.clone() });
            }
        }
        out.extend(crate::gens::util::text_simplify(&c.text).into_iter().take(60).map(|t| Case { text: t, ..c.clone() }));
        out
    }
    fn on_uncaught_panic(&self, msg: &str) -> Verdict {
        Verdict::fail(format!("panic:{}", panic_site(msg)), format!("a notification handled inline by the main loop panicked: {msg}"))
    }
    fn local(&self) {}
    fn check(&self, c: &Case, _: &mut (), obs: &mut Obs) -> Verdict {
        let _ = take_panics();
        let mut ls = Ls::new(LsOpts { std_lib: c.std_lib, pull_diagnostics: true, ..Default::default() });
        let uri = uri_for("/virtual_c25/doc.lua");
        ls.notify("textDocument/didOpen", did_open(&uri, &c.text));
        ls.settle();
        let mut nontrivial = false;
        let has_err = ls.with_analysis(|a| {
            a.get_file_id(&uri).and_then(|id| a.compilation.get_db().get_vfs().get_syntax_tree(&id).map(|t| t.has_syntax_errors())).unwrap_or(false)
        });
        obs.class(&format!("src:{}", c.src));
        obs.class_if(has_err, "doc-has-syntax-errors");
        nontrivial |= has_err;
        let mut sent: Vec<(i32, &'static str, (u32, u32), (u32, u32))> = vec![];
        for (i, (m, p1, p2)) in c.reqs.iter().enumerate() {
            let method = &METHODS[*m as usize % METHODS.len()];
            let (l1, c1, out1) = docgen::resolve(&c.text, p1);
            let (l2, c2, out2) = docgen::resolve(&c.text, p2);
            if out1 || (out2 && method.shape == Shape::Range) {
                nontrivial = true;
                obs.class("out-of-range-position");
            }
            let mut params = valid_params(method.name, &uri, l1, c1, l2, c2);
            with_context(method.name, &mut params, c.ctxs.get(i).copied().unwrap_or(0));
            let id = i as i32 + 1;
            sent.push((id, method.name, (l1, c1), (l2, c2)));
            ls.request(id.into(), method.name, params);
        }
        ls.settle();
        if let Some(w) = &ls.wedged {
            return Verdict::fail(format!("wedged:{w}"), format!("main loop wedged while handling {w}"));
        }
        let panics = take_panics();
        let mut counts: BTreeMap<String, usize> = BTreeMap::new();
        for m in &ls.received {
            if let Message::Response(r) = m {
                *counts.entry(r.id.to_string()).or_default() += 1;
            }
        }
        if let Some(p) = panics.first() {
            let unanswered: Vec<String> = sent.iter().filter(|s| counts.get(&s.0.to_string()).copied().unwrap_or(0) == 0).map(|s| format!("{} at {:?}..{:?}", s.1, s.2, s.3)).collect();
            let who = sent.iter().find(|s| counts.get(&s.0.to_string()).copied().unwrap_or(0) == 0).map(|s| s.1).unwrap_or("?");
            return Verdict::fail(format!("panic:{}:{}", who, panic_site(p)), format!("server task panicked: {panics:?}; unanswered requests: {unanswered:?}"));
        }
        for s in &sent {
            let n = counts.get(&s.0.to_string()).copied().unwrap_or(0);
            if n != 1 {
                return Verdict::fail(format!("responses={n}:{}", s.1), format!("request {} at {:?}..{:?} got {n} responses", s.1, s.2, s.3));
            }
        }
        Verdict::pass(nontrivial)
    }
}
