//! C23 — Positions follow the LSP encoding (UTF-16 unless negotiated) and line-ending rules
//! (`\n`, `\r\n`, `\r`).
//!
//! Lua documents with uniquely named undefined globals placed behind astral / BMP characters and every
//! terminator style.  The protocol positions of those names, computed from first principles
//! (`oracle::utf16`), must equal: the ranges of the `undefined-global` diagnostics, `LuaDocument::
//! to_lsp_range` / `to_lsp_position`, and `LuaDocument::get_offset` of the reference position must be
//! the name's byte offset.
use crate::engine::*;
use crate::gens::texts::{self, Doc};
use crate::oracle::utf16::{self, Eol, Unit};
use emmylua_code_analysis::VirtualWorkspace;
use proptest::prelude::*;
use rowan::{TextRange, TextSize};
use serde::{Deserialize, Serialize};
use tokio_util::sync::CancellationToken;

#[derive(Clone, Debug, Serialize, Deserialize)]
pub struct Case {
    pub doc: Doc,
}

pub struct C23;

pub struct Local {
    /// Some(reason) when the server sources mention a position encoding: the reference (UTF-16) may
    /// then be the wrong one and nothing is judged
    negotiated: Option<String>,
}

type Pos = (u32, u32);
type Rng = (Pos, Pos);

const MODELS: &[(Unit, Eol, &str)] = &[
    (Unit::Scalar, Eol::All, "cols-count-scalar-values"),
    (Unit::Utf16, Eol::NlOnly, "lone-cr-not-a-line-break"),
    (Unit::Scalar, Eol::NlOnly, "cols-count-scalar-values+lone-cr-not-a-line-break"),
    (Unit::Byte, Eol::All, "cols-count-bytes"),
    (Unit::Byte, Eol::NlOnly, "cols-count-bytes+lone-cr-not-a-line-break"),
];

/// names the deviation that explains `got` (mechanical root-cause key)
fn explain(text: &str, start: usize, end: usize, got: Rng) -> &'static str {
    for (u, e, name) in MODELS {
        if utf16::range(text, start, end, *u, *e) == got {
            return name;
        }
    }
    "position-unexplained"
}

fn lsp_rng(r: &lsp_types::Range) -> Rng {
    ((r.start.line, r.start.character), (r.end.line, r.end.character))
}

/// scans the language-server sources of the tree under test for any position-encoding negotiation
fn scan_negotiation() -> Option<String> {
    let root = std::env::var("VERIF_ROOT").unwrap_or_else(|_| "/verif".to_string());
    let cargo = std::fs::read_to_string(std::path::Path::new(&root).join("harness/Cargo.toml")).ok()?;
    let line = cargo.lines().find(|l| l.trim_start().starts_with("emmylua_ls"))?;
    let path = line.split("path = \"").nth(1)?.split('"').next()?;
    let mut stack = vec![std::path::PathBuf::from(path).join("src")];
    let mut files = vec![];
    while let Some(d) = stack.pop() {
        let Ok(rd) = std::fs::read_dir(&d) else { continue };
        let mut ents: Vec<_> = rd.filter_map(|e| e.ok()).map(|e| e.path()).collect();
        ents.sort();
        for p in ents {
            if p.is_dir() {
                stack.push(p);
            } else if p.extension().map(|e| e == "rs").unwrap_or(false) {
                files.push(p);
            }
        }
    }
    files.sort();
    for f in files {
        if let Ok(t) = std::fs::read_to_string(&f) {
            let low = t.to_lowercase();
            if low.contains("position_encoding") || low.contains("positionencoding") {
                return Some(format!("{} mentions a position encoding", f.display()));
            }
        }
    }
    None
}

fn q(s: &str) -> String {
    format!("{:?}", s)
}

impl C23 {
    fn judge(&self, doc: &Doc, obs: &mut Obs) -> Result<Verdict, Fail> {
        let (text, toks) = doc.render();
        let fail = |sig: &str, msg: String| Fail { sig: sig.to_string(), msg: format!("{msg}; text={}", q(&text)) };
        if toks.is_empty() {
            return Ok(Verdict::Skip("no-token".into()));
        }
        let mut ws = VirtualWorkspace::new();
        let id = ws.def_file("c23.lua", &text);

        // soundness filter: the generated names must be exactly the `G<k>` name tokens of the syntax tree
        // at the recorded byte ranges (e.g. a comment that swallowed a line would break this)
        {
            let vfs = ws.analysis.compilation.get_db().get_vfs();
            let Some(tree) = vfs.get_syntax_tree(&id) else {
                return Ok(Verdict::Skip("no-tree".into()));
            };
            if !tree.get_errors().is_empty() {
                return Ok(Verdict::Skip("generated-text-has-syntax-errors".into()));
            }
            let mut seen = vec![];
            for el in tree.get_red_root().descendants_with_tokens() {
                if let rowan::NodeOrToken::Token(t) = el {
                    let s = t.text();
                    if t.kind() == emmylua_parser::LuaTokenKind::TkName.into() && s.len() >= 2 && s.starts_with('G') && s[1..].bytes().all(|b| b.is_ascii_digit()) {
                        seen.push((s.to_string(), usize::from(t.text_range().start()), usize::from(t.text_range().end())));
                    }
                }
            }
            let want: Vec<_> = toks.iter().map(|t| (t.name.clone(), t.start, t.end)).collect();
            if seen != want {
                return Ok(Verdict::Skip("tree-tokens-differ-from-generator".into()));
            }
        }

        let diags = ws.analysis.diagnose_file(id, CancellationToken::new()).unwrap_or_default();
        let vfs = ws.analysis.compilation.get_db().get_vfs();
        let Some(document) = vfs.get_document(&id) else {
            return Ok(Verdict::Skip("no-document".into()));
        };

        let lines_all = utf16::lines(&text, Eol::All);
        let has_lone_cr = lines_all.len() != utf16::lines(&text, Eol::NlOnly).len();
        obs.class_if(has_lone_cr, "text-has-lone-cr");
        obs.class_if(text.contains("\r\n"), "text-has-crlf");
        obs.class_if(text.chars().any(|c| c as u32 >= 0x10000), "text-has-astral");

        let mut nontrivial = false;
        // (priority, Fail): single-cause explanations are reported before combined ones
        let mut failures: Vec<(u8, Fail)> = vec![];
        let mut push = |sig: &str, msg: String, failures: &mut Vec<(u8, Fail)>| {
            // anything that is not the recorded lone-\r deviation is reported first, combined explanations last
            let prio = if sig.contains('+') { 2 } else if sig == "lone-cr-not-a-line-break" { 1 } else { 0 };
            failures.push((prio, fail(sig, msg)));
        };
        let mut diag_seen = 0u64;
        for t in &toks {
            let exp = utf16::range(&text, t.start, t.end, Unit::Utf16, Eol::All);
            // what precedes the token on its protocol line / in the text
            let line = &lines_all[exp.0 .0 as usize];
            let before = &text[line.start..t.start];
            let after_astral = before.chars().any(|c| c as u32 >= 0x10000);
            let after_bmp = before.chars().any(|c| (c as u32) >= 0x80 && (c as u32) < 0x10000);
            let after_lone_cr = {
                let b = text.as_bytes();
                (0..t.start).any(|i| b[i] == b'\r' && b.get(i + 1) != Some(&b'\n'))
            };
            obs.class_if(after_astral, "token-after-astral-on-line");
            obs.class_if(after_bmp, "token-after-bmp-on-line");
            obs.class_if(after_lone_cr, "token-after-lone-cr");
            obs.class_if(after_astral && after_lone_cr, "token-after-astral-and-lone-cr");
            obs.class_if(exp.0 .0 > 0 && !after_lone_cr, "token-on-later-line");
            nontrivial |= after_astral || after_lone_cr;

            // (a) LuaDocument::to_lsp_range / to_lsp_position
            let tr = TextRange::new(TextSize::from(t.start as u32), TextSize::from(t.end as u32));
            let got = document.to_lsp_range(tr).map(|r| lsp_rng(&r));
            let forward_ok = got == Some(exp);
            match got {
                Some(g) if g == exp => {}
                Some(g) => push(explain(&text, t.start, t.end, g), format!("to_lsp_range of `{}` (bytes {}..{}) = {:?}, protocol position (UTF-16, lines end at \\n|\\r\\n|\\r) = {:?}", t.name, t.start, t.end, g, exp), &mut failures),
                None => push("to-lsp-range-none", format!("to_lsp_range of `{}` (bytes {}..{}) = None", t.name, t.start, t.end), &mut failures),
            }
            let p = document.to_lsp_position(TextSize::from(t.start as u32)).map(|p| (p.line, p.character));
            if p != got.map(|g| g.0) {
                push("to-lsp-position-differs-from-to-lsp-range", format!("to_lsp_position({}) = {:?} but to_lsp_range start = {:?}", t.start, p, got.map(|g| g.0)), &mut failures);
            }

            // (b) the diagnostic a client receives for this name
            let mine: Vec<&lsp_types::Diagnostic> = diags
                .iter()
                .filter(|d| matches!(&d.code, Some(lsp_types::NumberOrString::String(c)) if c == "undefined-global"))
                .filter(|d| d.message.strip_suffix(t.name.as_str()).map(|pre| !pre.ends_with(|c: char| c.is_ascii_alphanumeric())).unwrap_or(false))
                .collect();
            if mine.len() == 1 {
                diag_seen += 1;
                let g = lsp_rng(&mine[0].range);
                if g != exp {
                    push(explain(&text, t.start, t.end, g), format!("undefined-global diagnostic for `{}` (bytes {}..{}) has range {:?}, protocol position (UTF-16, lines end at \\n|\\r\\n|\\r) = {:?}", t.name, t.start, t.end, g, exp), &mut failures);
                }
            } else {
                obs.class("diagnostic-missing-or-duplicated");
            }

            // (c) a client position -> offset (only charged separately when the forward direction is right)
            let back = document.get_offset(exp.0 .0 as usize, exp.0 .1 as usize).map(usize::from);
            if back != Some(t.start) && forward_ok {
                push("get-offset-of-protocol-position", format!("get_offset{:?} = {:?}, `{}` starts at byte {}", exp.0, back, t.name, t.start), &mut failures);
            }
            let back_end = document.get_offset(exp.1 .0 as usize, exp.1 .1 as usize).map(usize::from);
            if back_end != Some(t.end) && forward_ok {
                push("get-offset-of-protocol-position", format!("get_offset{:?} = {:?}, `{}` ends at byte {}", exp.1, back_end, t.name, t.end), &mut failures);
            }
        }
        obs.count("tokens", toks.len() as u64);
        obs.count("diagnostics_matched", diag_seen);
        if diag_seen == 0 {
            obs.class("no-diagnostic-matched");
        }
        failures.sort_by_key(|f| f.0);
        if let Some((_, f)) = failures.into_iter().next() {
            return Err(f);
        }
        Ok(Verdict::pass(nontrivial))
    }
}

impl Property for C23 {
    type Case = Case;
    type Local = Local;
    fn id(&self) -> &'static str {
        "C23"
    }
    fn rule(&self) -> String {
        "cases = Lua documents of 1-6 lines built from call statements on uniquely named undefined globals (G0, G1, ... also as arguments), string literals, one-line and multi-line long comments / long strings and trailing comments whose filler mixes ASCII, BMP non-ASCII and astral characters, indentation, terminators \\n / \\r\\n / lone \\r (also inside long strings/comments), with or without final terminator; judged = every generated name: to_lsp_range/to_lsp_position, the undefined-global diagnostic's range, and get_offset of the reference position, against UTF-16 / three-terminator positions computed from first principles; non-trivial = some judged name follows an astral character on its line or a lone \\r; distinct = distinct document".into()
    }
    fn assumptions(&self) -> Vec<String> {
        vec![
            "the server negotiates no position encoding (crates/emmylua_ls/src is scanned for `position_encoding` at start; if found every case is skipped as `position-encoding-negotiated`), so UTF-16 is mandatory (LSP 3.17 general.positionEncodings)".into(),
            "hover/definition/edit ranges are produced by private emmylua_ls handlers through the same LuaDocument conversions checked here; they are not driven by this check".into(),
            "cases whose generated text does not parse to exactly the generated names (or has syntax errors) are skipped, not judged".into(),
        ]
    }
    fn cases(&self, tier: Tier) -> u32 {
        tier.pick(120_000, 1_000_000)
    }
    fn strategy(&self, tier: Tier) -> BoxedStrategy<Case> {
        texts::doc(tier.pick(6, 12)).prop_map(|doc| Case { doc }).boxed()
    }
    fn local(&self) -> Local {
        Local { negotiated: scan_negotiation() }
    }
    fn check(&self, c: &Case, local: &mut Local, obs: &mut Obs) -> Verdict {
        if local.negotiated.is_some() {
            return Verdict::Skip("position-encoding-negotiated".into());
        }
        match catch(|| self.judge(&c.doc, obs)) {
            Ok(Ok(v)) => v,
            Ok(Err(f)) => Verdict::Fail(f),
            Err(_) => Verdict::Skip("panic(other-properties)".into()),
        }
    }
}
