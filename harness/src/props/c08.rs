//! C08 — Re-submitting or undoing an edit leaves analysis state unchanged.
//!
//! A generated workspace is fully analysed through the production batch path (optionally followed by
//! `reindex()`); then a history of unchanged re-submissions (single and batched, any order, repeated) and
//! edit-then-restore pairs is replayed.  The observable dump after the history must equal the dump
//! before it, and no H1 index size may have grown.
use crate::engine::*;
use crate::gens::history::{self as hist, Cfg, Setup};
use crate::gens::util::idx;
use crate::gens::workspace::{self as wsgen, Workspace};
use emmylua_code_analysis::EmmyLuaAnalysis;
use proptest::prelude::*;
use serde::{Deserialize, Serialize};

#[derive(Clone, Debug, Serialize, Deserialize)]
pub enum Alt {
    Empty,
    /// keep only the first k blocks
    Truncate(u16),
    /// append one block
    Append(String),
    /// a different text altogether
    Other(String),
    /// syntactically broken text
    Broken,
}

#[derive(Clone, Debug, Serialize, Deserialize)]
pub enum Op {
    /// `update_file_by_uri` with the unchanged text (didChange path)
    Resubmit(u16),
    /// `update_files_by_uri` with unchanged texts of several files, in this order (watched-files path)
    Batch(Vec<u16>),
    /// edit a file, then restore its previous content
    EditRestore { file: u16, alt: Alt, batch: bool },
}

#[derive(Clone, Debug, Serialize, Deserialize)]
pub struct Case {
    pub ws: Workspace,
    pub setup: Setup,
    pub cfg: Cfg,
    /// start right after `reindex()` instead of right after the full batch analysis
    pub reindex_first: bool,
    pub ops: Vec<Op>,
}

pub struct C08;

pub struct Local {
    open: Vec<String>,
}

fn op_strategy() -> BoxedStrategy<Op> {
    let alt = prop_oneof![
        Just(Alt::Empty),
        any::<u16>().prop_map(Alt::Truncate),
        wsgen::block().prop_map(Alt::Append),
        wsgen::file_text(4).prop_map(Alt::Other),
        Just(Alt::Broken),
    ];
    prop_oneof![
        4 => any::<u16>().prop_map(Op::Resubmit),
        2 => proptest::collection::vec(any::<u16>(), 1..5).prop_map(Op::Batch),
        3 => (any::<u16>(), alt, any::<bool>()).prop_map(|(file, alt, batch)| Op::EditRestore { file, alt, batch }),
    ]
    .boxed()
}

fn alt_text(orig: &str, alt: &Alt) -> String {
    match alt {
        Alt::Empty => String::new(),
        Alt::Truncate(k) => {
            let blocks = wsgen::blocks_of(orig);
            let n = idx(*k, blocks.len().max(1));
            let mut t = blocks[..n.min(blocks.len())].join("\n\n");
            if !t.is_empty() {
                t.push('\n');
            }
            t
        }
        Alt::Append(b) => {
            // keep a trailing `return` last
            let blocks = wsgen::blocks_of(orig);
            let mut v: Vec<String> = blocks.iter().map(|s| s.trim_end().to_string()).collect();
            let pos = if v.last().map(|l| l.starts_with("return")).unwrap_or(false) { v.len() - 1 } else { v.len() };
            v.insert(pos, b.clone());
            format!("{}\n", v.join("\n\n"))
        }
        Alt::Other(t) => t.clone(),
        Alt::Broken => format!("{orig}\nlocal = = (\n---@class\n"),
    }
}

fn apply(a: &mut EmmyLuaAnalysis, ws: &Workspace, op: &Op) -> Vec<usize> {
    let n = ws.files.len();
    match op {
        Op::Resubmit(i) => {
            let k = idx(*i, n);
            a.update_file_by_uri(&hist::uri_of(&ws.files[k].name), Some(ws.files[k].text.clone()));
            vec![k]
        }
        Op::Batch(is) => {
            let mut ks: Vec<usize> = vec![];
            for i in is {
                let k = idx(*i, n);
                if !ks.contains(&k) {
                    ks.push(k);
                }
            }
            a.update_files_by_uri(ks.iter().map(|k| (hist::uri_of(&ws.files[*k].name), Some(ws.files[*k].text.clone()))).collect());
            ks
        }
        Op::EditRestore { file, alt, batch } => {
            let k = idx(*file, n);
            let f = &ws.files[k];
            let edited = alt_text(&f.text, alt);
            if *batch {
                a.update_files_by_uri(vec![(hist::uri_of(&f.name), Some(edited))]);
                a.update_files_by_uri(vec![(hist::uri_of(&f.name), Some(f.text.clone()))]);
            } else {
                a.update_file_by_uri(&hist::uri_of(&f.name), Some(edited));
                a.update_file_by_uri(&hist::uri_of(&f.name), Some(f.text.clone()));
            }
            vec![k]
        }
    }
}

impl Property for C08 {
    type Case = Case;
    type Local = Local;
    fn id(&self) -> &'static str {
        "C08"
    }
    fn rule(&self) -> String {
        "case = generated workspace (2-6 files, shared small name alphabet, injected split classes / conflicting globals / field clashes / require cycles) x setup (std on/off, lib root) x config, fully analysed by one batch update (optionally + reindex), then a history of 1-12 ops from {Resubmit(file), Batch(files in any order), EditRestore(file, alternative text: empty / truncated / appended block / other text / broken syntax; single or batch path)}; oracle: observable dump (oracle::dump) after the history == dump before, and no H1 index entry count grew; cases whose fresh analysis is not reproducible (3 fresh analyses with the same registration order disagree) are excluded (C11); non-trivial = some symbol is defined by >=2 files and a file defining it is re-submitted or edit-restored; distinct = distinct case digest".into()
    }
    fn assumptions(&self) -> Vec<String> {
        vec!["state growth is observed through the H1 entry counts (index maps and Vfs maps); rowan's node cache and allocator capacity are not observable".into()]
    }
    fn cases(&self, tier: Tier) -> u32 {
        tier.pick(4000, 400_000)
    }
    fn strategy(&self, tier: Tier) -> BoxedStrategy<Case> {
        (
            wsgen::workspace(2, 6, tier.pick(5, 8)),
            hist::setup_strategy(),
            prop_oneof![4 => Just(Cfg::base()), 1 => hist::cfg_strategy()],
            any::<bool>(),
            proptest::collection::vec(op_strategy(), 1..tier.pick(8, 13)),
        )
            .prop_map(|(ws, setup, cfg, reindex_first, ops)| Case { ws, setup, cfg, reindex_first, ops })
            .boxed()
    }
    fn simplify(&self, c: &Case) -> Vec<Case> {
        let mut out: Vec<Case> = vec![];
        for i in 0..c.ops.len() {
            let mut ops = c.ops.clone();
            ops.remove(i);
            if !ops.is_empty() {
                out.push(Case { ops, ..c.clone() });
            }
        }
        // a batch can become a shorter batch
        for (i, op) in c.ops.iter().enumerate() {
            if let Op::Batch(v) = op {
                for j in 0..v.len() {
                    if v.len() > 1 {
                        let mut w = v.clone();
                        w.remove(j);
                        let mut ops = c.ops.clone();
                        ops[i] = Op::Batch(w);
                        out.push(Case { ops, ..c.clone() });
                    }
                }
            }
        }
        for (i, op) in c.ops.iter().enumerate() {
            if let Op::EditRestore { file, alt, batch } = op {
                let texts: Vec<Alt> = match alt {
                    Alt::Other(t) => wsgen::simplify_text(t).into_iter().map(Alt::Other).collect(),
                    Alt::Append(t) => wsgen::simplify_text(t).into_iter().filter(|x| !x.trim().is_empty()).map(|x| Alt::Append(x.trim_end().to_string())).collect(),
                    _ => vec![],
                };
                for a in texts {
                    let mut ops = c.ops.clone();
                    ops[i] = Op::EditRestore { file: *file, alt: a, batch: *batch };
                    out.push(Case { ops, ..c.clone() });
                }
                if *batch {
                    let mut ops = c.ops.clone();
                    ops[i] = Op::EditRestore { file: *file, alt: alt.clone(), batch: false };
                    out.push(Case { ops, ..c.clone() });
                }
            }
        }
        // file indices are positional (idx over len): dropping a file keeps ops meaningful
        out.extend(wsgen::simplify(&c.ws, 1).into_iter().map(|ws| Case { ws, ..c.clone() }));
        if c.setup.std || c.setup.lib_root {
            out.push(Case { setup: Setup::default(), ..c.clone() });
        }
        if c.cfg != Cfg::base() {
            out.push(Case { cfg: Cfg::base(), ..c.clone() });
        }
        if c.reindex_first {
            out.push(Case { reindex_first: false, ..c.clone() });
        }
        out
    }
    fn max_shrink_iters(&self, tier: Tier) -> u32 {
        tier.pick(400, 3000)
    }
    fn local(&self) -> Local {
        Local { open: hist::open_sigs("C08") }
    }
    fn check(&self, c: &Case, local: &mut Local, obs: &mut Obs) -> Verdict {
        let v = judge(c, local, obs);
        // A failure that is not a known finding must be reproducible: hash-order dependence inside the
        // analysis (C11) can make one evaluation of a case differ from the next.
        if let Verdict::Fail(f) = &v {
            if !local.open.contains(&f.sig) {
                for _ in 0..2 {
                    let mut scratch = Obs::default();
                    match judge(c, local, &mut scratch) {
                        Verdict::Fail(g) if g.sig == f.sig => {}
                        _ => return Verdict::Skip("unstable_failure(c11)".into()),
                    }
                }
            }
        }
        // Thorough tier only: the open findings of this property are a handful of root causes (index entries of a symbol
        // declared in several files keep analysis-order / last-writer state; batch and incremental analysis disagree)
        // that show up in an open-ended number of diff shapes.  A new shape in a workspace that HAS such a symbol is
        // tolerated under one family signature there, so that long runs keep searching for leaks and for defects of
        // singly-declared symbols instead of reporting the same root causes for ever.  The quick tier stays strict.
        if let Verdict::Fail(f) = &v {
            let thorough = std::env::var("VERIF_TIER_EFFECTIVE").map(|t| t == "thorough").unwrap_or(false);
            if thorough && !local.open.contains(&f.sig) && !f.sig.contains("index-leak") && (has_multi_file_symbol(&c.ws) || has_multi_file_symbol(&edited_view(c))) {
                return Verdict::fail("family:multi-file-symbol-order-dependence", format!("[unclassified shape {}] {}", f.sig, f.msg));
            }
        }
        v
    }
}

/// the workspace as it looks while the alternative texts of the history's edits are in place (an edit can be what makes
/// a symbol multi-file: `H.b = 1` in one file, `H = G` temporarily appended to another)
fn edited_view(c: &Case) -> wsgen::Workspace {
    let mut ws = c.ws.clone();
    let n = ws.files.len();
    for op in &c.ops {
        if let Op::EditRestore { file, alt, .. } = op {
            if n > 0 {
                let k = idx(*file, n);
                let t = alt_text(&c.ws.files[k].text, alt);
                ws.files[k].text.push('\n');
                ws.files[k].text.push_str(&t);
            }
        }
    }
    ws
}

/// a global / class / alias / enum / function name, a member name or a module name that two files contribute to
pub fn has_multi_file_symbol(ws: &wsgen::Workspace) -> bool {
    if !wsgen::shared_symbols(ws).is_empty() {
        return true;
    }
    let mut seen: std::collections::HashMap<String, usize> = Default::default();
    for (i, f) in ws.files.iter().enumerate() {
        let mut names = std::collections::BTreeSet::new();
        for l in f.text.lines() {
            let l = l.trim_start();
            let lhs = l.split('=').next().unwrap_or("").trim();
            if let Some((_, m)) = lhs.rsplit_once('.') {
                if !m.is_empty() && m.chars().all(|c| c.is_alphanumeric() || c == '_') {
                    names.insert(format!("member:{m}"));
                }
            }
            if let Some(rest) = l.strip_prefix("---@field ") {
                let m = rest.trim_start_matches("public ").trim_start_matches("private ").trim_start_matches("protected ").split_whitespace().next().unwrap_or("");
                names.insert(format!("member:{}", m.trim_end_matches('?')));
            }
            if let Some(rest) = l.strip_prefix("function ") {
                let n = rest.split('(').next().unwrap_or("").trim();
                let m = n.rsplit(|c| c == '.' || c == ':').next().unwrap_or("");
                names.insert(format!("member:{m}"));
            }
        }
        let stem = f.name.rsplit('/').next().unwrap_or("").trim_end_matches(".lua").to_string();
        names.insert(format!("module:{}", if stem == "init" { f.name.rsplit('/').nth(1).unwrap_or("").to_string() } else { stem }));
        for n in names {
            if let Some(j) = seen.get(&n) {
                if *j != i {
                    return true;
                }
            } else {
                seen.insert(n, i);
            }
        }
    }
    false
}

fn judge(c: &Case, local: &mut Local, obs: &mut Obs) -> Verdict {
    {
        if c.ws.files.is_empty() {
            return Verdict::Skip("empty-workspace".into());
        }
        let r = catch(|| {
            let mut a = hist::fresh(&c.cfg, &c.setup, &c.ws.files, c.reindex_first);
            let d0 = hist::dump_of(&a, &[]);
            if !hist::is_deterministic(&c.cfg, &c.setup, &c.ws.files, c.reindex_first, &d0, 2) {
                return Err("c11_nondeterministic".to_string());
            }
            let s0 = hist::sizes(&a);
            let mut touched: Vec<usize> = vec![];
            for op in &c.ops {
                touched.extend(apply(&mut a, &c.ws, op));
            }
            let d1 = hist::dump_of(&a, &[]);
            let s1 = hist::sizes(&a);
            // the same history once more: a leak keeps growing, a one-off growth does not
            for op in &c.ops {
                apply(&mut a, &c.ws, op);
            }
            let s2 = hist::sizes(&a);
            // two more rounds: only monotone growth over all rounds counts as a leak
            let mut later = vec![];
            for _ in 0..2 {
                for op in &c.ops {
                    apply(&mut a, &c.ws, op);
                }
                later.push(hist::sizes(&a));
            }
            // control run for the undo relation: the same history with every edit-restore pair replaced by
            // a plain re-submission of the same file through the same path.  Whatever the edit-restore run
            // shows beyond this control is state left behind by the undone edit.
            let control = if c.ops.iter().any(|o| matches!(o, Op::EditRestore { .. })) {
                let mut b = hist::fresh(&c.cfg, &c.setup, &c.ws.files, c.reindex_first);
                for op in &c.ops {
                    match op {
                        Op::EditRestore { file, batch, .. } => {
                            let plain = if *batch { Op::Batch(vec![*file]) } else { Op::Resubmit(*file) };
                            // an edit-restore analyses the file twice
                            apply(&mut b, &c.ws, &plain);
                            apply(&mut b, &c.ws, &plain);
                        }
                        other => {
                            apply(&mut b, &c.ws, other);
                        }
                    }
                }
                Some((hist::dump_of(&b, &[]), hist::sizes(&b)))
            } else {
                None
            };
            Ok((d0, d1, s0, s1, s2, later, touched, control))
        });
        let (d0, d1, s0, s1, s2, later, touched, control) = match r {
            Ok(Ok(x)) => x,
            Ok(Err(cat)) => return Verdict::Skip(cat),
            Err(_) => return Verdict::Skip("analysis-panic(C12)".into()),
        };
        hist::ws_label(&c.ws, obs);
        obs.class_if(c.setup.std, "std");
        obs.class_if(c.setup.lib_root, "lib-root");
        obs.class_if(c.reindex_first, "after-reindex");
        for op in &c.ops {
            obs.class(match op {
                Op::Resubmit(_) => "op:resubmit",
                Op::Batch(_) => "op:batch",
                Op::EditRestore { .. } => "op:edit-restore",
            });
        }
        // undo relation first (edit-restore vs plain re-submission), then the re-submission relation
        let mut cands = vec![];
        if let Some((dc, sc)) = &control {
            // differences of the batch-vs-incremental / analysis-order families are not specific to the
            // undone edit (the intermediate state merely exposes them): they keep their plain signature
            const FAMILY: &[&str] = &["inferred-type-drift", "multi-decl-global-order", "member-definition-order", "owner-rehomed", "find-module:changed", "module-info:semantic-changed", "resubmit-resolves-less"];
            for (sig, msg) in hist::dump_candidates("undo:", dc, &d1) {
                let plain = sig.trim_start_matches("undo:").to_string();
                if FAMILY.contains(&plain.as_str()) {
                    cands.push((plain, msg));
                } else {
                    cands.push((sig, msg));
                }
            }
            let grown: Vec<String> = hist::grown(sc, &s1).into_iter().map(|(k, b, a)| format!("{k}: {b} -> {a}")).collect();
            if !grown.is_empty() {
                // the first grown map (index.map) names the leak: narrower than the index alone
                let index = grown[0].split(':').next().unwrap_or("").trim().to_string();
                cands.push((format!("undo:index-growth:{index}"), format!("an edit-restore history holds more index entries than the same history with plain re-submissions: {}", grown.join(", "))));
            }
        }
        let touched_names: Vec<String> = touched.iter().map(|k| c.ws.files[*k].name.clone()).collect();
        cands.extend(hist::dump_candidates_touched("", &d0, &d1, Some(&touched_names), Some(&c.ws.files)));
        // one candidate per index (the maps of one index grow together).  Growth that repeats when the
        // history is replayed a second time is a leak; growth that happens only once means the batch
        // analysis had left something unresolved that the re-analysis of a single file resolves.
        let mut leaks: Vec<(String, Vec<String>)> = vec![];
        for (k, before, after) in hist::grown(&s1, &s2) {
            // a leak grows in both rounds
            if s0.iter().find(|x| x.0 == k).map(|x| x.1).unwrap_or(0) >= before {
                continue;
            }
            let at = |s: &Vec<(String, usize)>| s.iter().find(|x| x.0 == k).map(|x| x.1).unwrap_or(0);
            if !(at(&later[0]) > after && at(&later[1]) > at(&later[0])) {
                continue;
            }
            let index = k.split('.').next().unwrap_or("").to_string();
            let line = format!("{k}: {} -> {before} -> {after}", s0.iter().find(|x| x.0 == k).map(|x| x.1).unwrap_or(0));
            match leaks.iter_mut().find(|x| x.0 == index) {
                Some(e) => e.1.push(line),
                None => leaks.push((index, vec![line])),
            }
        }
        for (index, lines) in &leaks {
            cands.push((format!("index-leak:{index}"), format!("H1 entry counts grow with every repetition of a history of unchanged re-submissions / edit-restore pairs (before -> after once -> after twice): {}", lines.join(", "))));
        }
        let mut grown_any = hist::grown(&s0, &s1);
        for g in hist::grown(&s0, &s2) {
            if !grown_any.iter().any(|x| x.0 == g.0) {
                grown_any.push(g);
            }
        }
        let once: Vec<String> = grown_any.into_iter().filter(|(k, _, _)| !leaks.iter().any(|l| k.starts_with(&format!("{}.", l.0)))).map(|(k, b, a)| format!("{k}: {b} -> {a}")).collect();
        if !once.is_empty() {
            cands.push(("resubmit-resolves-more".to_string(), format!("H1 entry counts grew once (not again on repetition) over a history of unchanged re-submissions / edit-restore pairs: {}", once.join(", "))));
        }
        if let Some((sig, msg)) = hist::select(cands, &local.open) {
            return Verdict::fail(sig, format!("state changed after history {:?}:\n{}", c.ops, msg));
        }
        let shared = wsgen::shared_symbols(&c.ws);
        let nontrivial = !shared.is_empty() && touched.iter().any(|k| wsgen::file_contributes(&c.ws.files[*k], &shared));
        obs.class_if(nontrivial, "resubmitted-contributing-file");
        Verdict::pass(nontrivial)
    }
}
