//! C05 — Formatting never changes or loses code.
use crate::engine::*;
use crate::gens::fmt_input::{self, FmtCase};
use crate::gens::{fmt_config, util};
use crate::oracle::tokcanon::{self, Quot};
use emmylua_formatter::{SourceText, check_text, format_text, reformat_lua_code};
use proptest::prelude::*;

pub struct C05;

pub fn run_formatter(text: &str, level: u8, cfg: &emmylua_formatter::LuaFormatConfig) -> Result<String, String> {
    catch(|| reformat_lua_code(&SourceText { text, level: util::level(level) }, cfg))
}

/// class labels shared by the formatter checks
pub fn label_input(c: &FmtCase, canon: &tokcanon::Canon, obs: &mut Obs) {
    obs.class(&format!("src:{}", c.src.split(':').next().unwrap_or("")));
    obs.class(util::level_name(c.level));
    let d = fmt_config::describe(&c.cfg);
    obs.class_if(d == "default", "cfg:default");
    obs.class_if(c.cfg.output.quote_style != emmylua_formatter::QuoteStyle::Preserve, "cfg:quote-rewrite");
    obs.class_if(c.cfg.output.single_arg_call_parens != emmylua_formatter::SingleArgCallParens::Preserve, "cfg:call-parens-rewrite");
    obs.class_if(c.cfg.output.preserve_statement_semicolon, "cfg:preserve-semicolon");
    obs.class_if(c.cfg.output.end_of_line == emmylua_formatter::EndOfLine::CRLF, "cfg:crlf");
    obs.class_if(c.cfg.indent.kind == emmylua_formatter::IndentKind::Tab, "cfg:tab");
    obs.class_if(c.cfg.layout.max_line_width <= 40, "cfg:width<=40");
    obs.class_if(!canon.comments.is_empty(), "has-comment");
    obs.class_if(canon.comments.iter().any(|c| c.items.iter().any(|(k, _)| format!("{:?}", k).starts_with("DocTag"))), "has-doc-tag");
    obs.class_if(canon.comments.iter().any(|c| c.nows.contains("```")), "has-code-fence");
    obs.class_if(canon.doc_errors > 0 && canon.syntax_errors == 0, "doc-errors-only");
    obs.class_if(canon.n_stats >= 5, "stats>=5");
    obs.class_if(canon.toks.iter().any(|t| t.text.starts_with("[[") || t.text.starts_with("[=")), "has-long-string");
}

impl Property for C05 {
    type Case = FmtCase;
    type Local = ();
    fn thorough_family(&self, _c: &Self::Case, f: &Fail) -> Option<String> {
        // output defects of the formatter (clauses A-C): ~20 root causes, long tail of shapes; D-clause, panics and the
        // changed-flag are never mapped
        if f.sig.starts_with("A:") || f.sig.starts_with("C:") || f.sig.starts_with("tokens:") || f.sig.starts_with("inner-comment") {
            Some("family:formatter-output-defect-unclassified-shape".into())
        } else {
            None
        }
    }
    fn id(&self) -> &'static str {
        "C05"
    }
    fn rule(&self) -> String {
        "cases = (generated Lua programs with comments/doc blocks | statement-aligned windows of std/*.lua and of the formatter-test snippets | line-level and grammar-blind mutations of those) x 8 language levels x generated LuaFormatConfig (every knob; width 20-160, 40% of the time set to the length of one of the input's lines +-3); inputs are split by a pre-parse: no syntax error -> clauses A (output parses), B (token stream equal modulo the config-documented normalisations), C (comment text modulo whitespace, doc structure); syntax error -> D (output == input). non-trivial = judged by A-C, >=1 comment, >=5 statements and output != input; distinct = distinct case digest".into()
    }
    fn assumptions(&self) -> Vec<String> {
        vec![
            "trailing table separators are quotiented under every value of trailing_comma/trailing_table_separator (the option has no 'preserve' value)".into(),
            "empty statements (a lone ';') are quotiented under every configuration; statement-terminating ';' only when preserve_statement_semicolon=false".into(),
            "comment text is compared with all whitespace deleted; doc structure is compared only when neither side has doc-comment parse errors".into(),
            "comment placement relative to code tokens is not compared (the property text speaks of comment text and structure only)".into(),
        ]
    }
    fn cases(&self, tier: Tier) -> u32 {
        tier.pick(250_000, 10_000_000)
    }
    fn strategy(&self, tier: Tier) -> BoxedStrategy<FmtCase> {
        fmt_input::case(tier)
    }
    fn fixed_cases(&self, tier: Tier) -> Vec<FmtCase> {
        fmt_input::fixed(tier)
    }
    fn simplify(&self, c: &FmtCase) -> Vec<FmtCase> {
        fmt_input::simplify(c)
    }
    fn local(&self) {}
    fn check(&self, c: &FmtCase, _: &mut (), obs: &mut Obs) -> Verdict {
        let q = Quot::of(&c.cfg);
        let tree = tokcanon::parse(&c.text, c.level);
        let a = tokcanon::canon_tree(&tree, q);
        label_input(c, &a, obs);
        let out = match run_formatter(&c.text, c.level, &c.cfg) {
            Ok(o) => o,
            Err(p) => return Verdict::fail(format!("panic:{}", site(&p)), format!("formatter panicked: {p}; cfg: {}", fmt_config::describe(&c.cfg))),
        };
        // determinism: the workspace API calls the same function, so a difference means the output is not a function of
        // (input, config).  Known cause: overlapping doc alignment groups applied in HashMap order (a block with `---|`
        // continuation lines or with two tags on one line); such inputs get six more probes.
        let ft = format_text(&c.text, util::level(c.level), &c.cfg);
        let mut stable = ft.formatted == out;
        if a.risky_doc_blocks > 0 {
            obs.class("doc-block-with-continuation-or-two-tags");
            for _ in 0..6 {
                stable = stable && run_formatter(&c.text, c.level, &c.cfg).map(|o| o == out).unwrap_or(false);
            }
        }
        if !stable {
            return Verdict::fail(
                "nondeterministic-output",
                format!("formatting the same input with the same configuration twice gives different outputs; cfg: {}; input: {:?}", fmt_config::describe(&c.cfg), one_line(&c.text, 300)),
            );
        }
        if ft.changed != (out != c.text) {
            return Verdict::fail("format_text-changed-flag-wrong", "format_text(...).changed disagrees with formatted != input");
        }
        if a.syntax_errors > 0 {
            obs.class("erroneous-input");
            // D
            if out != c.text {
                return Verdict::fail("D:erroneous-input-changed", format!("input has syntax errors ({:?}) but the output differs from it", a.first_syntax_error));
            }
            let ck = check_text(&c.text, util::level(c.level), &c.cfg);
            if ck.changed || !ck.changed_line_ranges.is_empty() {
                return Verdict::fail("D:erroneous-input-check-changed", "check_text reports changes for an input with syntax errors");
            }
            return Verdict::pass(false);
        }
        obs.class("error-free-input");
        obs.class_if(out != c.text, "output!=input");
        // A
        let otree = tokcanon::parse(&out, c.level);
        let b = tokcanon::canon_tree(&otree, q);
        if b.syntax_errors > 0 {
            let (off, m) = b.first_syntax_error.clone().unwrap_or((0, String::new()));
            // classify by the first lexical difference (what was lost/glued), not by where the parser gave up
            let cause = tokcanon::compare_tokens("A", &c.text, &a, &out, &b, &c.cfg, false, Some(off));
            let (sig, why) = match cause {
                Some(d) => (d.sig, d.msg),
                None => (format!("A:same-tokens-unparsable:{}", tokcanon::construct_at(&otree, off)), String::new()),
            };
            return Verdict::fail(
                sig,
                format!(
                    "[A] output does not parse: {m} at {off} near {:?}; {why}; cfg: {}; input: {:?}",
                    one_line(&out[floor(&out, off.saturating_sub(50))..ceil(&out, (off + 50).min(out.len()))], 200),
                    fmt_config::describe(&c.cfg),
                    one_line(&c.text, 400)
                ),
            );
        }
        // B, C
        if let Some(d) = tokcanon::compare(&c.text, &a, &out, &b, &c.cfg) {
            return Verdict::fail(d.sig, format!("[{}] {}; cfg: {}; input: {:?}", d.clause, d.msg, fmt_config::describe(&c.cfg), one_line(&c.text, 400)));
        }
        Verdict::pass(!a.comments.is_empty() && a.n_stats >= 5 && out != c.text)
    }
}

/// Signatures of the open C05 findings (KNOWN_FINDINGS.json, read once).  C06 and C07 see the same formatter-output
/// defects through a second pass / through a fragment; such cases are counted as excluded there instead of being
/// listed a second and third time.
pub fn open_c05_signatures() -> &'static Vec<String> {
    static S: std::sync::OnceLock<Vec<String>> = std::sync::OnceLock::new();
    S.get_or_init(|| {
        let root = std::env::var("VERIF_ROOT").unwrap_or_else(|_| "/verif".to_string());
        let text = std::fs::read_to_string(std::path::Path::new(&root).join("KNOWN_FINDINGS.json")).unwrap_or_default();
        let v: serde_json::Value = serde_json::from_str(&text).unwrap_or_default();
        v["findings"]
            .as_array()
            .map(|a| a.iter().filter(|f| f["property"] == "C05" && f["status"] == "open").filter_map(|f| f["signature"].as_str().map(|s| s.to_string())).collect())
            .unwrap_or_default()
    })
}

/// panic location relative to the repository root (stable across checkouts), for signatures
pub fn site(msg: &str) -> String {
    let loc = msg.rsplit(" @ ").next().unwrap_or("");
    match loc.find("crates/") {
        Some(i) => loc[i..].to_string(),
        None => loc.to_string(),
    }
}

pub fn floor(s: &str, mut i: usize) -> usize {
    i = i.min(s.len());
    while !s.is_char_boundary(i) {
        i -= 1;
    }
    i
}
pub fn ceil(s: &str, mut i: usize) -> usize {
    i = i.min(s.len());
    while !s.is_char_boundary(i) {
        i += 1;
    }
    i
}
