//! C34 — File paths and URIs convert back and forth without loss; differently percent-encoded URIs of
//! one path identify the same analysed file.
use crate::engine::*;
use crate::gens::paths;
use emmylua_code_analysis::{EmmyLuaAnalysis, Emmyrc, Vfs, file_path_to_uri, uri_to_file_path};
use lsp_types::Uri;
use proptest::prelude::*;
use serde::{Deserialize, Serialize};
use std::path::PathBuf;
use std::str::FromStr;
use std::sync::Arc;

#[derive(Clone, Debug, Serialize, Deserialize)]
pub struct Case {
    /// components of the normalized absolute path `/c0/c1/…`
    pub comps: Vec<String>,
    /// two alternative encodings of the URI: per decoded path byte 0 keep / 1 %XX / 2 %xx / 3 literal-if-unreserved
    pub alt1: Vec<u8>,
    pub alt2: Vec<u8>,
    /// drive the whole analysis (update_file_by_uri / get_file_id) in addition to the bare Vfs
    pub analysis: bool,
}

pub struct C34;

pub struct Local {
    emmyrc: Arc<Emmyrc>,
}

fn q(s: &str) -> String {
    format!("{:?}", s)
}

impl C34 {
    fn judge(&self, c: &Case, local: &mut Local, obs: &mut Obs) -> Result<Verdict, Fail> {
        let path_str = paths::path_of(&c.comps);
        let path = PathBuf::from(&path_str);
        let fail = |sig: &str, msg: String| Fail { sig: sig.to_string(), msg: format!("{msg}; path={}", q(&path_str)) };

        let reserved = path_str.chars().any(|ch| ch.is_ascii() && !(ch.is_ascii_alphanumeric() || matches!(ch, '/' | '-' | '.' | '_' | '~')));
        let non_ascii = !path_str.is_ascii();
        obs.class_if(reserved, "has-reserved-ascii");
        obs.class_if(non_ascii, "has-non-ascii");
        obs.class_if(path_str.contains('%'), "has-percent");
        obs.class_if(path_str.contains('#') || path_str.contains('?'), "has-#-or-?");
        obs.class_if(path_str.contains(' '), "has-space");
        obs.class_if(path_str.contains('\\'), "has-backslash");
        obs.class_if(path_str.chars().any(|ch| (ch as u32) < 0x20 || ch as u32 == 0x7f), "has-control");
        obs.class_if(path_str.chars().any(|ch| ch as u32 >= 0x10000), "has-astral");
        obs.class_if(path_str.contains('\u{301}'), "has-combining");
        obs.class_if(
            c.comps.first().map(|f| f.len() == 2 && f.as_bytes()[0].is_ascii_alphabetic() && matches!(f.as_bytes()[1], b':' | b'|')).unwrap_or(false),
            "first-component-looks-like-drive",
        );

        // ---- path -> URI -> path
        let Some(uri) = file_path_to_uri(&path) else {
            return Err(fail("path-to-uri-none", "file_path_to_uri returned None for a normalized absolute path".into()));
        };
        let back = uri_to_file_path(&uri);
        if back.as_ref() != Some(&path) {
            let first_drive = c.comps.first().map(|f| f.len() == 2 && f.as_bytes()[0].is_ascii_alphabetic() && f.as_bytes()[1] == b'|').unwrap_or(false);
            let sig = if first_drive && back.as_ref().map(|b| b.to_string_lossy().get(2..3) == Some(":")).unwrap_or(false) { "roundtrip:drive-letter-bar-becomes-colon" } else { "roundtrip:path-differs" };
            return Err(fail(sig, format!("uri_to_file_path(file_path_to_uri(p)) = {:?} via {}", back, q(uri.as_str()))));
        }
        // independent reading of the URI text: file scheme, empty authority, path decodes to p
        let us = uri.as_str();
        match us.strip_prefix("file://") {
            Some(rest) if rest.starts_with('/') => {
                let end = rest.find(['?', '#']).unwrap_or(rest.len());
                if rest[end..].len() > 0 || paths::percent_decode(&rest[..end]) != path_str.as_bytes() {
                    return Err(fail("uri-text-does-not-encode-path", format!("the URI {} does not percent-decode to the path (query/fragment or wrong bytes)", q(us))));
                }
            }
            _ => return Err(fail("uri-text-does-not-encode-path", format!("the URI {} is not file:///…", q(us)))),
        }

        // ---- alternative percent-encodings
        let mut alts: Vec<Uri> = vec![];
        for choices in [&c.alt1, &c.alt2] {
            let Some(s) = paths::re_encode(us, choices) else {
                return Ok(Verdict::Skip("alt-uri-not-built".into()));
            };
            if paths::percent_decode(s.strip_prefix("file://").unwrap_or("")) != path_str.as_bytes() {
                return Ok(Verdict::Skip("alt-uri-generator-bug".into()));
            }
            obs.class_if(s != us, "alt-differs-from-canonical");
            obs.class_if(s.len() < us.len(), "alt-has-fewer-escapes");
            let Ok(u) = Uri::from_str(&s) else {
                // a syntactically valid, more-escaped spelling of the same URI that the URI type rejects
                return Err(fail("alt-uri-rejected", format!("Uri::from_str rejects {}", q(&s))));
            };
            let p2 = uri_to_file_path(&u);
            if p2.as_ref() != Some(&path) {
                return Err(fail("alt-uri-other-path", format!("uri_to_file_path({}) = {:?}", q(&s), p2)));
            }
            alts.push(u);
        }

        // ---- one analysed file
        let content1 = "local a = 1\n".to_string();
        let content2 = "local b = 2\n".to_string();
        let mut vfs = Vfs::new();
        vfs.update_config(local.emmyrc.clone());
        let id = vfs.file_id(&uri);
        for (k, u) in alts.iter().enumerate() {
            if vfs.get_file_id(u) != Some(id) {
                return Err(fail("alt-uri-other-file", format!("get_file_id({}) = {:?}, file_id({}) = {:?}", q(u.as_str()), vfs.get_file_id(u), q(us), id)));
            }
            let id2 = vfs.file_id(u);
            if id2 != id {
                return Err(fail("alt-uri-other-file", format!("file_id({}) = {:?}, file_id({}) = {:?}", q(u.as_str()), id2, q(us), id)));
            }
            // written through one spelling, read through the other
            let text = if k == 0 { &content1 } else { &content2 };
            let wid = vfs.set_file_content(u, Some(text.clone()));
            let read = vfs.get_file_id(&uri).and_then(|i| vfs.get_file_content(&i).cloned());
            if wid != id || read.as_ref() != Some(text) {
                return Err(fail("alt-uri-other-file", format!("content set through {} (id {:?}) is read as {:?} through {} (id {:?})", q(u.as_str()), wid, read, q(us), id)));
            }
        }
        match vfs.get_uri(&id) {
            Some(u) if uri_to_file_path(&u).as_ref() == Some(&path) => {}
            other => return Err(fail("vfs-uri-of-id-differs", format!("Vfs::get_uri(id) = {:?}", other.map(|u| u.as_str().to_string())))),
        }
        match vfs.get_file_path(&id) {
            Some(p) if *p == path => {}
            other => return Err(fail("vfs-path-of-id-differs", format!("Vfs::get_file_path(id) = {:?}", other))),
        }

        if c.analysis {
            obs.class("through-analysis");
            let mut a = EmmyLuaAnalysis::new();
            let id = a.update_file_by_uri(&alts[0], Some(content1.clone()));
            let id_b = a.update_file_by_uri(&alts[1], Some(content2.clone()));
            let id_c = a.get_file_id(&uri);
            if id.is_none() || id != id_b || id != id_c {
                return Err(fail("alt-uri-other-file", format!("analysis: update_file_by_uri ids {:?} / {:?}, get_file_id(canonical) = {:?}", id, id_b, id_c)));
            }
            let n = a.compilation.get_db().get_vfs().get_all_file_ids().len();
            if n != 1 {
                return Err(fail("alt-uri-other-file", format!("analysis holds {n} files after two updates of one path")));
            }
            let read = a.compilation.get_db().get_vfs().get_file_content(&id.unwrap()).cloned();
            if read.as_ref() != Some(&content2) {
                return Err(fail("alt-uri-other-file", format!("analysis content = {:?}", read)));
            }
            let by_path = a.update_file_by_path(&path, Some(content1.clone()));
            if by_path != id {
                return Err(fail("alt-uri-other-file", format!("update_file_by_path id {:?} != {:?}", by_path, id)));
            }
        }
        Ok(Verdict::pass(reserved || non_ascii))
    }
}

impl Property for C34 {
    type Case = Case;
    type Local = Local;
    fn id(&self) -> &'static str {
        "C34"
    }
    fn rule(&self) -> String {
        "cases = normalized absolute Unix paths of 1-4 components built from atoms: URI-reserved/unsafe ASCII (space % # ? & + ; = @ [ ] \\ ' \" { } ^ | : * < > ` ! $ ( ) ,), look-alike escapes (%41 %2F %2e %25 %zz), dot runs, drive-letter look-alikes (C: c|), control characters, Unicode (precomposed and combining, CJK, astral, U+FEFF, U+2028, case-folding specials); no NUL, no empty / `.` / `..` component; plus two alternative spellings of the URI (per decoded byte: keep / %XX / %xx / literal if unreserved; `/` untouched) and, for half the cases, the whole analysis (update_file_by_uri / get_file_id / update_file_by_path); non-trivial = path has a reserved ASCII character or non-ASCII; distinct = distinct case".into()
    }
    fn assumptions(&self) -> Vec<String> {
        vec![
            "Unix host (cfg!(windows) branches are not exercised); paths are valid UTF-8".into(),
            "alternative spellings only add or change percent-escapes of non-slash bytes (or un-escape unreserved characters); `%2F`-for-`/` and authority variants (file://localhost/) are not generated".into(),
        ]
    }
    fn cases(&self, tier: Tier) -> u32 {
        tier.pick(300_000, 5_000_000)
    }
    fn strategy(&self, _tier: Tier) -> BoxedStrategy<Case> {
        (paths::components(), proptest::collection::vec(0u8..4, 1..24), proptest::collection::vec(0u8..4, 1..24), any::<bool>())
            .prop_map(|(comps, alt1, alt2, analysis)| Case { comps, alt1, alt2, analysis })
            .boxed()
    }
    fn fixed_cases(&self, _tier: Tier) -> Vec<Case> {
        let mk = |p: &[&str]| Case { comps: p.iter().map(|s| s.to_string()).collect(), alt1: vec![1], alt2: vec![2, 0, 3], analysis: true };
        vec![mk(&["home", "u s", "a%b#c?d.lua"]), mk(&["名", "e\u{301}😀.lua"]), mk(&["a^b|c", "[x]{y}\\z"]), mk(&["C:", "x.lua"]), mk(&["c|", "x.lua"]), mk(&["%41", "..."])]
    }
    fn local(&self) -> Local {
        Local { emmyrc: Arc::new(Emmyrc::default()) }
    }
    fn check(&self, c: &Case, local: &mut Local, obs: &mut Obs) -> Verdict {
        match catch(|| self.judge(c, local, obs)) {
            Ok(Ok(v)) => v,
            Ok(Err(f)) => Verdict::Fail(f),
            Err(p) => Verdict::fail(format!("panic:{}", site(&p)), format!("panicked: {p}; path={}", q(&paths::path_of(&c.comps)))),
        }
    }
}

/// panic location relative to the repository (stable across worktrees)
pub fn site(msg: &str) -> String {
    let loc = msg.rsplit(" @ ").next().unwrap_or("");
    match loc.find("crates/") {
        Some(i) => loc[i..].to_string(),
        None => loc.to_string(),
    }
}
