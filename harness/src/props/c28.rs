//! C28 — The server never deadlocks (lock discipline over recorded acquisition traces + wedge detection).
use crate::engine::*;
use crate::ls::disk::TempWs;
use crate::ls::requests::valid_params;
use crate::ls::{did_change, did_close, did_open, Ls, LsOpts};
use crate::oracle::lockdep;
use proptest::prelude::*;
use serde::{Deserialize, Serialize};
use serde_json::json;

#[derive(Clone, Debug, Serialize, Deserialize)]
pub enum Op {
    Edit(u8),
    Close(u8),
    Save(u8),
    /// request kind (index into REQS), document
    Req(u8, u8),
    /// watched-file event on a Lua file: doc, type 1 created / 2 changed / 3 deleted
    WatchedLua(u8, u8),
    WatchedConfig,
    ChangeConfiguration,
    Cancel(u16),
    Advance(u16),
}

pub const REQS: &[&str] = &[
    "textDocument/hover",
    "textDocument/completion",
    "textDocument/semanticTokens/full",
    "textDocument/formatting",
    "textDocument/rangeFormatting",
    "textDocument/documentSymbol",
    "textDocument/inlayHint",
    "textDocument/diagnostic",
    "workspace/diagnostic",
    "textDocument/references",
    "textDocument/rename",
    "textDocument/codeAction",
    "workspace/symbol",
    "textDocument/definition",
    "textDocument/codeLens",
    "textDocument/signatureHelp",
    "textDocument/documentLink",
    "textDocument/foldingRange",
    "emmy/annotator",
    "workspace/executeCommand",
];

#[derive(Clone, Debug, Serialize, Deserialize)]
pub struct Case {
    pub ops: Vec<Op>,
    pub schedule: Vec<u8>,
    pub pull: bool,
}

pub struct C28;
const NDOCS: u8 = 4;

fn op_strategy() -> impl Strategy<Value = Op> {
    prop_oneof![
        5 => (0..NDOCS).prop_map(Op::Edit),
        1 => (0..NDOCS).prop_map(Op::Close),
        2 => (0..NDOCS).prop_map(Op::Save),
        8 => (0..REQS.len() as u8, 0..NDOCS).prop_map(|(k, d)| Op::Req(k, d)),
        3 => (0..NDOCS, 1u8..4).prop_map(|(d, t)| Op::WatchedLua(d, t)),
        2 => Just(Op::WatchedConfig),
        1 => Just(Op::ChangeConfiguration),
        1 => any::<u16>().prop_map(Op::Cancel),
        2 => (0u16..2500).prop_map(Op::Advance),
    ]
}

pub fn run_workload(c: &Case, ws: &TempWs, obs: &mut Obs) -> (Ls, Vec<String>) {
    ws.clear();
    ws.write(".emmyrc.json", "{}\n");
    ws.write("a.lua", "local M = {}\nfunction M.f(x) return x end\nreturn M\n");
    ws.write("b.lua", "local a = require('a')\nprint(a.f(1))\n");
    ws.write("c.lua", "---@class C\n---@field n integer\nC = {}\n");
    let uris = [
        crate::ls::uri_for(ws.path("a.lua").to_str().unwrap()),
        crate::ls::uri_for(ws.path("b.lua").to_str().unwrap()),
        crate::ls::uri_for(ws.path("c.lua").to_str().unwrap()),
        crate::ls::uri_for(ws.path("virt_v.lua").to_str().unwrap()),
    ];
    let cfg_uri = crate::ls::uri_for(ws.path(".emmyrc.json").to_str().unwrap());
    let mut ls = Ls::new(LsOpts { pull_diagnostics: c.pull, schedule: c.schedule.clone(), roots: vec![ws.root.clone()], load_disk: true, ..Default::default() });
    let mut open = [false; NDOCS as usize];
    let mut nreq = 0i32;
    let mut version = 0;
    for (i, op) in c.ops.iter().enumerate() {
        match op {
            Op::Edit(d) => {
                let d = *d as usize;
                version += 1;
                let text = format!("local v{i} = {i}\nlocal M = {{}}\nfunction M.f(x) return x end\nreturn M\n");
                if open[d] {
                    ls.notify("textDocument/didChange", did_change(&uris[d], version, &text));
                } else {
                    ls.notify("textDocument/didOpen", did_open(&uris[d], &text));
                    open[d] = true;
                }
                obs.class("op:edit");
            }
            Op::Close(d) => {
                let d = *d as usize;
                if open[d] {
                    ls.notify("textDocument/didClose", did_close(&uris[d]));
                    open[d] = false;
                    obs.class("op:close");
                }
            }
            Op::Save(d) => {
                let d = *d as usize;
                if open[d] {
                    ls.notify("textDocument/didSave", json!({"textDocument": {"uri": uris[d]}}));
                    obs.class("op:save");
                }
            }
            Op::Req(k, d) => {
                nreq += 1;
                let m = REQS[*k as usize % REQS.len()];
                ls.request(nreq.into(), m, valid_params(m, &uris[*d as usize], 1, 2, 2, 3));
                obs.class("op:request");
            }
            Op::WatchedLua(d, t) => {
                let d = *d as usize;
                if d < 3 {
                    match t {
                        3 => ws.remove(["a.lua", "b.lua", "c.lua"][d]),
                        _ => ws.write(["a.lua", "b.lua", "c.lua"][d], &format!("local w{i} = {i}\nreturn w{i}\n")),
                    }
                }
                ls.notify("workspace/didChangeWatchedFiles", json!({"changes": [{"uri": uris[d], "type": *t}]}));
                obs.class("op:watched-lua");
            }
            Op::WatchedConfig => {
                ws.write(".emmyrc.json", &format!("{{\"diagnostics\": {{\"diagnosticInterval\": {}}}}}\n", 300 + i));
                ls.notify("workspace/didChangeWatchedFiles", json!({"changes": [{"uri": cfg_uri, "type": 2}]}));
                obs.class("op:watched-config");
            }
            Op::ChangeConfiguration => {
                ls.notify("workspace/didChangeConfiguration", json!({"settings": {}}));
                obs.class("op:change-configuration");
            }
            Op::Cancel(k) => {
                if nreq > 0 {
                    let id = crate::gens::util::idx(*k, nreq as usize) as i32 + 1;
                    ls.notify("$/cancelRequest", json!({"id": id}));
                }
            }
            Op::Advance(ms) => ls.advance(*ms as u64),
        }
    }
    ls.settle();
    let panics = take_panics();
    (ls, panics)
}

impl Property for C28 {
    type Case = Case;
    type Local = TempWs;
    fn id(&self) -> &'static str {
        "C28"
    }
    fn rule(&self) -> String {
        "cases = workloads (3-40 messages) mixing every lock-taking task class of the server - position/document/workspace requests, didOpen/didChange/didClose/didSave (debounced reindex), watched-file events for Lua files and for the config file (debounced config reload -> workspace reload), didChangeConfiguration (reload), cancellations, virtual-time gaps - over an on-disk scratch workspace, played in-process through the real dispatchers with a generated schedule vector (yields at task starts and before every lock acquisition); oracle 1 = lock discipline over the recorded acquisition trace: no task requests a lock it already holds, the held-before relation between locks has no cycle (read and write alike); oracle 2 = after quiescence under the paused clock no task is still waiting for a lock; non-trivial = >=3 concurrently live lock-taking tasks including a writer".into()
    }
    fn assumptions(&self) -> Vec<String> {
        vec![
            "lock acquisitions are observed through the cfg-gated wrappers (hook H4) around every tokio RwLock/Mutex imported in the 7 server files; std::sync mutexes and the client response map are not traced".into(),
            "absence of deadlock under all interleavings is NOT established: discipline invariants are checked on the acquisitions the workloads reach, and wedging only on the sampled schedules".into(),
        ]
    }
    fn cases(&self, tier: Tier) -> u32 {
        tier.pick(2000, 100_000)
    }
    fn strategy(&self, tier: Tier) -> BoxedStrategy<Case> {
        (proptest::collection::vec(op_strategy(), 3..tier.pick(40, 80)), proptest::collection::vec(any::<u8>(), 0..120), any::<bool>())
            .prop_map(|(ops, schedule, pull)| Case { ops, schedule, pull })
            .boxed()
    }
    fn local(&self) -> TempWs {
        TempWs::new("c28")
    }
    fn check(&self, c: &Case, ws: &mut TempWs, obs: &mut Obs) -> Verdict {
        let _ = take_panics();
        let (mut ls, panics) = run_workload(c, ws, obs);
        let (events, points) = ls.take_trace();
        let rep = lockdep::analyze(&events);
        obs.count("lock-events", events.len() as u64);
        obs.count("sched-points", points);
        for s in &rep.sites {
            obs.class(&format!("site:{}", s.rsplit("/src/").next().unwrap_or(s)));
        }
        if let Some(v) = rep.violations.first() {
            // report the first violation whose signature is not an open known finding: the engine matches
            // one sig per verdict, so emit them in sorted order and let it tolerate known ones one by one
            let all: Vec<String> = rep.violations.iter().map(|v| v.sig.clone()).collect();
            let known = crate::engine::findings::load(std::path::Path::new(&std::env::var("VERIF_ROOT").unwrap_or_else(|_| "/verif".into())));
            let pick = rep
                .violations
                .iter()
                .find(|v| !known.iter().any(|k| k.property == "C28" && k.status == "open" && k.signature == v.sig))
                .unwrap_or(v);
            return Verdict::fail(pick.sig.clone(), format!("{} (all discipline violations of this execution: {all:?}; panics: {panics:?})", pick.msg));
        }
        let _ = panics;
        Verdict::pass(rep.max_live_lockers >= 3 && rep.had_writer)
    }
}
