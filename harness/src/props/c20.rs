//! C20 — Configuration controls which diagnostics are reported and how.
//!
//! case = program (snippets from a pool that triggers many diagnostic codes + uses of named undefined
//! globals) x file-level `---@diagnostic enable/disable: codes` comments x generated `diagnostics` config
//! (disable / enables subsets, severity map, globals, globalsRegex, enable) x placement (main workspace file,
//! `---@meta` file, library-root file, a bundled std file).
//! Oracle relative to the baseline D0 = diagnostics of the same text with the file-level comments replaced by
//! plain comments of equal length under a config that force-enables every code.
use crate::engine::*;
use emmylua_code_analysis::{DiagnosticCode, Emmyrc, VirtualWorkspace, WorkspaceFolder};
use proptest::prelude::*;
use serde::{Deserialize, Serialize};
use serde_json::json;
use std::collections::{BTreeMap, BTreeSet};
use std::sync::Arc;
use tokio_util::sync::CancellationToken;

/// snippets; `#` is replaced by a per-instance number so that names never collide
const SNIPPETS: &[&str] = &[
    "GA#()",
    "local u# = 1",
    "local r# = 1\nlocal r# = 2\nprint(r#)",
    "local p#, q# = 1\nprint(p#, q#)",
    "local t# = { x = 1, x = 2 }\nprint(t#)",
    "---@class K#\n---@field f integer\n\n---@type K#?\nlocal k#\nprint(k#.f)",
    "---@param x integer\nlocal function pf#(x) return x end\npf#(\"s\")\npf#()\npf#(1, 2)",
    "---@type integer\nlocal ai# = \"s\"\nprint(ai#)",
    "---@return integer\nlocal function rf#() return \"s\" end\nprint(rf#)",
    "---@return integer\nlocal function mr#() end\nprint(mr#)",
    "---@class F#\n---@field a integer\n\n---@type F#\nlocal f#\nprint(f#.nofield)",
    "local c# <const> = 1\nc# = 2\nprint(c#)",
    "local function ur#()\n  do return 1 end\n  print(1)\nend\nprint(ur#)",
    "---@deprecated\nlocal function dep#() end\ndep#()",
    "---@type NoSuchType#\nlocal tn#\nprint(tn#)",
    "---@class Dup#\n\n---@class Dup#",
    "---@foobar x\nlocal fb# = 1\nprint(fb#)",
    "function GF#() end",
    "---@param a integer\nfunction GI#(a, b) return a, b end",
    "for i# = 1, 2 do i# = 3 end",
    "---@nodiscard\nlocal function nd#() return 1 end\nnd#()",
    "if 1 then print(1) end",
    "---@param zz integer\nlocal function udp#(a) return a end\nprint(udp#)",
    "---@class DF#\n---@field a integer\n---@field a integer",
    "---@class MF#\n---@field a integer\n---@field b string\n\n---@type MF#\nlocal mf# = {}\nprint(mf#)",
    "local nc# = 1\nnc#()",
    "---@class PV#\n---@field private pv integer\n\n---@type PV#\nlocal pp#\nprint(pp#.pv)",
    "---@enum E#\nlocal E# = { A = 1, B = 2 }\n---@param e E#\nlocal function ef#(e) return e end\nef#(5)",
    "local s# = 1 --[[@as string]]\nprint(s#)",
    "local x# = 1\nx#, x# = 1\nprint(x#)",
    "---@generic T: string\n---@param v T\nlocal function g#(v) return v end\ng#(1)",
    "---@class RO#\n---@field a integer\n\n---@type RO#\nlocal ro# = { a = 1 }\nro#.b = 2",
    "local function aw#()\n  return 1\nend\n---@async\nlocal function as#() end\nas#()\nprint(aw#)",
    "GT#.x.y = 1",
    "local tt# = {}\ntt#[1] = 1\ntt#[1] = 2\nfunction tt#.m() end\nfunction tt#.m() end\nprint(tt#)",
    "local a# = require(\"nomod#\")\nprint(a#)",
    "goto done#\n::done#::\n::done#::",
    "while true do\n  break\n  print(1)\nend",
    "local se# = = 1",
    "---@class CT#\n\nlocal ct# = 1 ---@cast ct# CT#\nprint(ct#)",
];

/// names used as undefined globals; the `globals` list and `globalsRegex` patterns select among them
const GNAMES: &[&str] = &["GX1", "GXfoo", "save_cb", "load_cb", "gTest1", "gTest12", "abc_12", "onLoad", "online", "zq", "Other9"];
/// names that may be put into `globals` (GNAMES + names that never occur)
const GLOBALS_POOL: &[&str] = &["GX1", "GXfoo", "save_cb", "load_cb", "gTest1", "gTest12", "abc_12", "onLoad", "online", "zq", "Other9", "never1", "GX", "print"];
/// fully anchored patterns (search and full-match semantics agree) with a hand-written reference predicate
const REGEXES: &[&str] = &["^GX.*$", "^.*_cb$", "^gTest1$", "^[a-z]+_[0-9]+$", "^on[A-Z].*$", "(", "^$", "^gTest[0-9][0-9]$"];

fn regex_matches(pattern: &str, s: &str) -> bool {
    match pattern {
        "^GX.*$" => s.starts_with("GX"),
        "^.*_cb$" => s.ends_with("_cb"),
        "^gTest1$" => s == "gTest1",
        "^[a-z]+_[0-9]+$" => match s.split_once('_') {
            Some((a, b)) => !a.is_empty() && !b.is_empty() && a.bytes().all(|c| c.is_ascii_lowercase()) && b.bytes().all(|c| c.is_ascii_digit()),
            None => false,
        },
        "^on[A-Z].*$" => s.len() >= 3 && s.starts_with("on") && s.as_bytes()[2].is_ascii_uppercase(),
        "^gTest[0-9][0-9]$" => s.len() == 7 && s.starts_with("gTest") && s.as_bytes()[5..].iter().all(|c| c.is_ascii_digit()),
        "^$" => s.is_empty(),
        // "(" is not a valid regex: it selects nothing
        _ => false,
    }
}

#[derive(Clone, Debug, Serialize, Deserialize)]
pub struct Annot {
    pub enable: bool,
    pub codes: Vec<String>,
    /// between which snippets (monotone mapping)
    pub pos: u16,
}

#[derive(Clone, Debug, Serialize, Deserialize)]
pub struct Cfg {
    pub disable: Vec<String>,
    pub enables: Vec<String>,
    pub severity: Vec<(String, u8)>,
    pub globals: Vec<String>,
    pub globals_regex: Vec<String>,
    pub enable: bool,
}

#[derive(Clone, Debug, Serialize, Deserialize)]
pub struct Case {
    pub snippets: Vec<u8>,
    pub gnames: Vec<u8>,
    pub annots: Vec<Annot>,
    pub cfg: Cfg,
    /// 0 main, 1 meta, 2 library, 3 std
    pub placement: u8,
}

pub struct C20;

pub struct Local {
    std_ws: Option<VirtualWorkspace>,
    known: Vec<String>,
}

const SEVS: [&str; 4] = ["error", "warning", "information", "hint"];

fn all_codes() -> Vec<String> {
    DiagnosticCode::all().into_iter().filter(|c| *c != DiagnosticCode::None).map(|c| c.get_name().to_string()).collect()
}

fn emmyrc(diag: serde_json::Value) -> Option<Arc<Emmyrc>> {
    serde_json::from_value::<Emmyrc>(json!({ "diagnostics": diag })).ok().map(Arc::new)
}

fn cfg_json(c: &Cfg) -> serde_json::Value {
    let mut sev = serde_json::Map::new();
    for (code, s) in &c.severity {
        sev.insert(code.clone(), json!(SEVS[*s as usize % 4]));
    }
    json!({
        "disable": c.disable,
        "enables": c.enables,
        "severity": sev,
        "globals": c.globals,
        "globalsRegex": c.globals_regex,
        "enable": c.enable,
    })
}

fn annot_text(a: &Annot) -> String {
    format!("---@diagnostic {}: {}", if a.enable { "enable" } else { "disable" }, a.codes.join(", "))
}

/// program text; `active` = keep the file-level comments (else plain comments of equal length)
fn program(c: &Case, annots: &[Annot], active: bool) -> String {
    let mut chunks: Vec<String> = vec![];
    for (i, s) in c.snippets.iter().enumerate() {
        chunks.push(SNIPPETS[*s as usize % SNIPPETS.len()].replace('#', &format!("{}", i + 1)));
    }
    for (i, g) in c.gnames.iter().enumerate() {
        chunks.push(format!("local gv{} = {}\nprint(gv{})", i + 1, GNAMES[*g as usize % GNAMES.len()], i + 1));
    }
    let mut out = String::new();
    if c.placement == 1 {
        out.push_str("---@meta\n\n");
    }
    let n = chunks.len();
    let mut by_pos: BTreeMap<usize, Vec<&Annot>> = BTreeMap::new();
    for a in annots {
        by_pos.entry(crate::gens::util::idx(a.pos, n + 1)).or_default().push(a);
    }
    let emit = |out: &mut String, k: usize| {
        if let Some(v) = by_pos.get(&k) {
            for a in v {
                let t = annot_text(a);
                if active {
                    out.push_str(&t);
                } else {
                    out.push_str("--");
                    out.push_str(&"x".repeat(t.len() - 2));
                }
                // blank line: the comment must not merge with a following doc block
                out.push_str("\n\n");
            }
        }
    };
    for (k, ch) in chunks.iter().enumerate() {
        emit(&mut out, k);
        out.push_str(ch);
        out.push_str("\n\n");
    }
    emit(&mut out, n);
    out
}

#[derive(Clone, Debug, PartialEq, Eq, PartialOrd, Ord)]
struct D {
    code: String,
    range: (u32, u32, u32, u32),
    msg: String,
    sev: u8,
}

fn convert(ds: Vec<lsp_types::Diagnostic>) -> Vec<D> {
    let mut v: Vec<D> = ds
        .into_iter()
        .map(|d| D {
            code: match d.code {
                Some(lsp_types::NumberOrString::String(s)) => s,
                Some(lsp_types::NumberOrString::Number(n)) => n.to_string(),
                None => String::new(),
            },
            range: (d.range.start.line, d.range.start.character, d.range.end.line, d.range.end.character),
            msg: d.message,
            sev: match d.severity {
                Some(lsp_types::DiagnosticSeverity::ERROR) => 0,
                Some(lsp_types::DiagnosticSeverity::WARNING) => 1,
                Some(lsp_types::DiagnosticSeverity::INFORMATION) => 2,
                Some(lsp_types::DiagnosticSeverity::HINT) => 3,
                _ => 9,
            },
        })
        .collect();
    v.sort();
    v
}

fn run(text: &str, rc: Arc<Emmyrc>, placement: u8) -> Option<Vec<D>> {
    let mut ws = VirtualWorkspace::new();
    ws.analysis.update_config(rc);
    let name = if placement == 2 {
        ws.analysis.add_library_workspace(&WorkspaceFolder::new(ws.virtual_url_generator.new_path("c20lib"), true));
        "c20lib/c20.lua"
    } else {
        "c20.lua"
    };
    let id = ws.def_file(name, text);
    ws.analysis.diagnose_file(id, CancellationToken::new()).map(convert)
}

/// text of a single-line range (ASCII programs)
fn slice(text: &str, r: (u32, u32, u32, u32)) -> Option<&str> {
    if r.0 != r.2 {
        return None;
    }
    let line = text.split('\n').nth(r.0 as usize)?;
    line.get(r.1 as usize..r.3 as usize)
}

impl Property for C20 {
    type Case = Case;
    type Local = Local;
    fn id(&self) -> &'static str {
        "C20"
    }
    fn rule(&self) -> String {
        "cases = program of 3-12 snippets from a pool of 40 (each aimed at one or more diagnostic codes; instance-unique names) + 0-5 uses of named undefined globals, x 0-2 top-level `---@diagnostic enable|disable: codes` comments (never enable+disable of one code, no enable in meta files) x diagnostics config (disable/enables subsets of all codes skewed to the ones the pool triggers, severity map, globals list, anchored globalsRegex patterns incl. an invalid one, enable=false 5%) x placement main/meta/library/std. Baseline D0 = same text with the file-level comments neutralised, every code in `enables`. Judged: code in disable and not file-enabled => absent; code in enables (not in disable, not file-disabled) or file-enabled => every D0 diagnostic of that code present (undefined-global minus names selected by globals/globalsRegex); file-disabled (not file-enabled) => absent; severity[code] configured => reported with it; selected global names never reported; meta/library/std/enable=false => nothing. non-trivial = main placement, enable=true, disable and enables and severity non-empty and D0 has >=4 codes; distinct = distinct case digest".into()
    }
    fn assumptions(&self) -> Vec<String> {
        vec![
            "A code the file enables with `---@diagnostic enable` is required to be reported wherever the all-enabled baseline reports it (reading of `unless the file enables it`).".into(),
            "For a code listed in both `disable` and `enables` only `never reported` is demanded.".into(),
            "globalsRegex patterns are anchored at both ends so that search and full-match semantics agree; an invalid pattern selects nothing.".into(),
            "Checkers are assumed independent of which other codes are enabled (D0 is computed once with every code enabled).".into(),
        ]
    }
    fn cases(&self, tier: Tier) -> u32 {
        tier.pick(100_000, 3_000_000)
    }
    fn strategy(&self, _tier: Tier) -> BoxedStrategy<Case> {
        let all = Arc::new(all_codes());
        // codes the snippet pool is aimed at come first in the skewed pick
        let hot: Arc<Vec<String>> = Arc::new(
            [
                "undefined-global", "unused", "redefined-local", "unbalanced-assignments", "duplicate-index", "need-check-nil", "param-type-mismatch", "missing-parameter",
                "redundant-parameter", "assign-type-mismatch", "return-type-mismatch", "missing-return", "undefined-field", "local-const-reassign", "unreachable-code", "deprecated",
                "type-not-found", "duplicate-type", "unknown-doc-tag", "missing-global-doc", "incomplete-signature-doc", "iter-variable-reassign", "discard-returns", "unnecessary-if",
                "undefined-doc-param", "duplicate-doc-field", "missing-fields", "call-non-callable", "access-invisible", "inject-field", "duplicate-set-field", "syntax-error",
                "global-in-non-module", "code-style-check", "await-in-sync", "redefined-label", "unresolved-require", "cast-type-mismatch", "generic-constraint-mismatch", "enum-value-mismatch",
            ]
            .iter()
            .map(|s| s.to_string())
            .filter(|s| all.contains(s))
            .collect(),
        );
        let (a2, h2) = (all.clone(), hot.clone());
        let code = prop_oneof![
            4 => (0..hot.len().max(1)).prop_map(move |i| h2[i % h2.len().max(1)].clone()),
            1 => (0..all.len()).prop_map(move |i| a2[i].clone()),
        ];
        let codes = |lo: usize, hi: usize| proptest::collection::vec(code.clone(), lo..=hi);
        let annot = (any::<bool>(), codes(1, 3), any::<u16>()).prop_map(|(enable, codes, pos)| Annot { enable, codes, pos });
        let pick = |pool: &'static [&'static str], max: usize| proptest::collection::vec(0..pool.len(), 0..=max).prop_map(move |v| v.into_iter().map(|i| pool[i].to_string()).collect::<Vec<_>>());
        let cfg = (
            prop_oneof![1 => Just(vec![]), 4 => codes(1, 8), 1 => codes(10, 30)],
            prop_oneof![1 => Just(vec![]), 4 => codes(1, 8), 1 => codes(10, 30)],
            proptest::collection::vec((code.clone(), 0u8..4), 0..6),
            pick(GLOBALS_POOL, 4),
            pick(REGEXES, 3),
            proptest::bool::weighted(0.95),
        )
            .prop_map(|(disable, enables, severity, globals, globals_regex, enable)| Cfg { disable, enables, severity, globals, globals_regex, enable });
        (
            proptest::collection::vec(0u8..SNIPPETS.len() as u8, 3..=12),
            proptest::collection::vec(0u8..GNAMES.len() as u8, 0..=5),
            proptest::collection::vec(annot, 0..=2),
            cfg,
            prop_oneof![6 => Just(0u8), 2 => Just(1u8), 1 => Just(2u8), 1 => Just(3u8)],
        )
            .prop_map(|(snippets, gnames, annots, cfg, placement)| Case { snippets, gnames, annots, cfg, placement })
            .boxed()
    }
    fn simplify(&self, c: &Case) -> Vec<Case> {
        let mut out = vec![];
        for i in 0..c.snippets.len() {
            let mut d = c.clone();
            d.snippets.remove(i);
            out.push(d);
        }
        for i in 0..c.gnames.len() {
            let mut d = c.clone();
            d.gnames.remove(i);
            out.push(d);
        }
        for i in 0..c.annots.len() {
            let mut d = c.clone();
            d.annots.remove(i);
            out.push(d);
        }
        macro_rules! drop_each {
            ($f:ident) => {
                for i in 0..c.cfg.$f.len() {
                    let mut d = c.clone();
                    d.cfg.$f.remove(i);
                    out.push(d);
                }
            };
        }
        drop_each!(disable);
        drop_each!(enables);
        drop_each!(severity);
        drop_each!(globals);
        drop_each!(globals_regex);
        out
    }
    fn local(&self) -> Local {
        let root = std::path::PathBuf::from(std::env::var("VERIF_ROOT").unwrap_or_else(|_| "/verif".into()));
        let known = findings::load(&root).into_iter().filter(|e| e.property == "C20" && e.status == "open").map(|e| e.signature).collect();
        Local { std_ws: None, known }
    }
    fn render(&self, c: &Case) -> serde_json::Value {
        json!({"placement": c.placement, "config": cfg_json(&c.cfg), "text": truncate_value(serde_json::Value::String(program(c, &effective_annots(c), true)), 500)})
    }
    fn check(&self, c: &Case, local: &mut Local, obs: &mut Obs) -> Verdict {
        let Some(rc) = emmyrc(cfg_json(&c.cfg)) else {
            return Verdict::Skip("config-does-not-deserialise".into());
        };
        let placement = c.placement % 4;
        obs.class(["place:main", "place:meta", "place:library", "place:std"][placement as usize]);
        obs.class_if(!c.cfg.enable, "cfg:enable=false");

        if placement == 3 {
            // a bundled standard-library file under this configuration
            let ws = local.std_ws.get_or_insert_with(VirtualWorkspace::new_with_init_std_lib);
            ws.analysis.update_config(rc);
            let db = ws.analysis.compilation.get_db();
            let mut ids: Vec<_> = db.get_vfs().get_all_file_ids().into_iter().filter(|f| db.get_module_index().is_std(f)).collect();
            ids.sort();
            if ids.is_empty() {
                return Verdict::Skip("no-std-files".into());
            }
            let pick = ids[c.snippets.iter().map(|x| *x as usize).sum::<usize>() % ids.len()];
            let r = ws.analysis.diagnose_file(pick, CancellationToken::new());
            return match r {
                Some(v) if !v.is_empty() => Verdict::fail("std-file-reports", format!("std file {:?} reported {} diagnostics, first: {:?}", pick, v.len(), v[0].message)),
                _ => Verdict::pass(false),
            };
        }

        let annots = effective_annots(c);
        let text = program(c, &annots, true);
        let neutral = program(c, &annots, false);
        let all = all_codes();
        let Some(rc0) = emmyrc(json!({ "enables": all })) else {
            return Verdict::Skip("baseline-config".into());
        };
        // baseline always as a main, non-meta file (the `---@meta` line is part of the text for placement 1,
        // so neutralise it as well by computing D0 from the text without it at the same line offsets)
        let d = run(&text, rc, placement);
        if placement != 0 || !c.cfg.enable {
            return match d {
                Some(v) if !v.is_empty() => {
                    let what = if !c.cfg.enable { "enable=false" } else if placement == 1 { "meta-file" } else { "library-file" };
                    Verdict::fail(format!("{what}-reports:{}", v[0].code), format!("{what} reported {} diagnostics, first {:?}\nconfig: {}\n{}", v.len(), v[0], cfg_json(&c.cfg), text))
                }
                _ => {
                    obs.class(if d.is_none() { "silent:none" } else { "silent:empty" });
                    Verdict::pass(false)
                }
            };
        }
        let Some(d) = d else {
            return Verdict::fail("main-file-returns-none", format!("diagnose_file returned None for a main workspace file with enable=true\n{text}"));
        };
        let Some(d0) = run(&neutral, rc0, 0) else {
            return Verdict::Skip("baseline-none".into());
        };

        let f_en: BTreeSet<&str> = annots.iter().filter(|a| a.enable).flat_map(|a| a.codes.iter().map(|s| s.as_str())).collect();
        let f_dis: BTreeSet<&str> = annots.iter().filter(|a| !a.enable).flat_map(|a| a.codes.iter().map(|s| s.as_str())).collect();
        let w_dis: BTreeSet<&str> = c.cfg.disable.iter().map(|s| s.as_str()).collect();
        let w_en: BTreeSet<&str> = c.cfg.enables.iter().map(|s| s.as_str()).collect();
        let sev: BTreeMap<&str, u8> = {
            // a later entry for the same code overrides an earlier one (JSON object built in order)
            let mut m = BTreeMap::new();
            for (k, v) in &c.cfg.severity {
                m.insert(k.as_str(), *v % 4);
            }
            m
        };
        let selected = |name: &str| c.cfg.globals.iter().any(|g| g == name) || c.cfg.globals_regex.iter().any(|p| regex_matches(p, name));

        let d0_codes: BTreeSet<&str> = d0.iter().map(|x| x.code.as_str()).collect();
        for k in &d0_codes {
            obs.class(&format!("d0:{k}"));
        }
        obs.class_if(!f_en.is_empty(), "file:enable");
        obs.class_if(!f_dis.is_empty(), "file:disable");
        obs.class_if(f_en.iter().any(|c| w_dis.contains(c)), "file-enable-vs-workspace-disable");
        obs.class_if(f_dis.iter().any(|c| w_en.contains(c)), "file-disable-vs-workspace-enable");
        obs.class_if(w_dis.iter().any(|c| w_en.contains(c)), "cfg:code-in-disable-and-enables");
        obs.class_if(!c.cfg.globals_regex.is_empty(), "cfg:globalsRegex");
        obs.class_if(!c.cfg.globals.is_empty(), "cfg:globals");

        let mut fails: Vec<(String, String)> = vec![];
        // (1) must be absent
        for x in &d {
            let code = x.code.as_str();
            if w_dis.contains(code) && !f_en.contains(code) {
                fails.push((format!("disabled-code-reported:{}", if w_en.contains(code) { "also-in-enables" } else { "plain" }), format!("{code} is in diagnostics.disable and not file-enabled but reported: {x:?}")));
            }
            if f_dis.contains(code) && !f_en.contains(code) {
                fails.push(("file-disabled-code-reported".into(), format!("{code} is disabled by a top-level ---@diagnostic disable but reported: {x:?}")));
            }
            if let Some(s) = sev.get(code) {
                if x.sev != *s {
                    fails.push(("severity-not-applied".into(), format!("{code} configured severity {} but reported with {}: {x:?}", SEVS[*s as usize], x.sev)));
                }
            }
            if code == "undefined-global" {
                if let Some(name) = slice(&text, x.range) {
                    if selected(name) {
                        fails.push(("selected-global-reported".into(), format!("global {name} is selected by globals/globalsRegex but reported: {x:?}")));
                    }
                }
            }
        }
        // (2) must be present
        let mut demanded = 0;
        for x in &d0 {
            let code = x.code.as_str();
            let by_ws = w_en.contains(code) && !w_dis.contains(code) && !f_dis.contains(code);
            let by_file = f_en.contains(code);
            if !(by_ws || by_file) {
                continue;
            }
            if code == "undefined-global" {
                match slice(&neutral, x.range) {
                    Some(name) if !selected(name) => {}
                    _ => continue,
                }
            }
            demanded += 1;
            let found = d.iter().any(|y| y.code == x.code && y.range == x.range && y.msg == x.msg);
            if !found {
                let why = if by_file { if w_dis.contains(code) { "file-enabled-but-workspace-disabled" } else { "file-enabled" } } else { "workspace-enabled" };
                fails.push((format!("enabled-code-missing:{why}"), format!("{code} is {why} and the all-enabled baseline reports {x:?}, but it is missing")));
            }
        }
        obs.count("demanded-present", demanded);
        obs.count("reported", d.len() as u64);
        let extra = d.iter().filter(|y| !d0.iter().any(|x| y.code == x.code && y.range == x.range && y.msg == x.msg)).count();
        obs.count("reported-but-not-in-baseline(not judged)", extra as u64);

        if std::env::var_os("VERIF_SURVEY").is_some() {
            // development aid: histogram of all failure signatures instead of stopping at the first
            for f in &fails {
                obs.class(&format!("survey-fail:{}", f.0));
            }
            fails.clear();
        }
        if let Some((sig, msg)) = fails.iter().find(|f| !local.known.contains(&f.0)).or(fails.first()) {
            return Verdict::fail(sig.clone(), format!("{msg}\nconfig: {}\n--- text ---\n{text}", cfg_json(&c.cfg)));
        }
        let nontrivial = !c.cfg.disable.is_empty() && !c.cfg.enables.is_empty() && !c.cfg.severity.is_empty() && d0_codes.len() >= 4;
        Verdict::pass(nontrivial)
    }
}

/// File-level comments actually placed: an `enable` is dropped in meta files (statement ambiguous there) and a
/// code is never both file-enabled and file-disabled (later annotation loses the clashing codes).
fn effective_annots(c: &Case) -> Vec<Annot> {
    let mut out: Vec<Annot> = vec![];
    for a in &c.annots {
        if a.enable && c.placement % 4 == 1 {
            continue;
        }
        let mut a = a.clone();
        a.codes.retain(|code| !out.iter().any(|b| b.enable != a.enable && b.codes.contains(code)));
        a.codes.dedup();
        if !a.codes.is_empty() {
            out.push(a);
        }
    }
    out
}
