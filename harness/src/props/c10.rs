//! C10 — Removed files leave no trace.
//!
//! A generated workspace is loaded, then a subset of its files is removed in some order through
//! `remove_file_by_uri` (the LS path for deleted files and closed not-on-disk files) or by submitting
//! `None` content (single and batch update paths).  Afterwards nothing observable may mention a removed
//! file: the dump of the remaining analysis is rendered with the removed file ids marked `<DEAD:…>`, and
//! the removed file itself must have no tree, text, diagnostics, semantic model or module entry.  When all
//! files are removed, the H1 entry counts must be back to those of an empty analysis.
use crate::engine::*;
use crate::gens::history::{self as hist, Cfg, Setup};
use crate::gens::util::idx;
use crate::gens::workspace::{self as wsgen, Workspace};
use emmylua_code_analysis::FileId;
use proptest::prelude::*;
use serde::{Deserialize, Serialize};
use tokio_util::sync::CancellationToken;

#[derive(Clone, Copy, Debug, PartialEq, Eq, Serialize, Deserialize)]
pub enum Kind {
    /// `remove_file_by_uri`
    Remove,
    /// `update_file_by_uri(uri, None)`
    CloseNone,
    /// `update_files_by_uri(vec![(uri, None)])`
    BatchNone,
}

#[derive(Clone, Debug, Serialize, Deserialize)]
pub struct Case {
    pub ws: Workspace,
    pub setup: Setup,
    pub cfg: Cfg,
    /// (index among the files still live, how)
    pub removals: Vec<(u16, Kind)>,
    /// finally remove every remaining file too (memory clause)
    pub remove_all: bool,
    /// re-submit the surviving files after the removals (a later edit must not resurrect anything)
    pub resubmit_survivors: bool,
}

pub struct C10;

pub struct Local {
    open: Vec<String>,
}

impl Property for C10 {
    type Case = Case;
    type Local = Local;
    fn id(&self) -> &'static str {
        "C10"
    }
    fn rule(&self) -> String {
        "case = generated workspace (2-8 files contributing shared globals, split classes, members, modules, operators) x setup x config, loaded by one batch update, then 1..n removals in any order, each by remove_file_by_uri (3/5), update_file_by_uri(None) or update_files_by_uri([(uri, None)]); optional re-submission of the survivors; optional removal of all remaining files; oracle: (a) each removed file id has no syntax tree, text, diagnostics, semantic model, module entry, declaration tree or type declarations, (b) the observable dump of the remaining analysis (diagnostics incl. related information, per-token semantic info and definitions, reference-index answers, globals, type locations, members and their owners, operators, module map and find_module answers) contains no location in a removed file, (c) after removing all files every H1 entry count equals that of an empty analysis with the same setup (the Vfs path<->id registry is exempt for the None-content kinds, which keep the id by design); non-trivial = a removed file defined a symbol that a file still live at that moment also defined; distinct = distinct case digest".into()
    }
    fn assumptions(&self) -> Vec<String> {
        vec!["workspace symbols and completion items are LS-level results (hook H3) and are not covered by this check; they are derived from the indexes whose contents are dumped here".into()]
    }
    fn cases(&self, tier: Tier) -> u32 {
        tier.pick(30_000, 300_000)
    }
    fn strategy(&self, tier: Tier) -> BoxedStrategy<Case> {
        let kind = prop_oneof![3 => Just(Kind::Remove), 1 => Just(Kind::CloseNone), 1 => Just(Kind::BatchNone)];
        (
            wsgen::workspace(2, 8, tier.pick(5, 8)),
            hist::setup_strategy(),
            prop_oneof![4 => Just(Cfg::base()), 1 => hist::cfg_strategy()],
            proptest::collection::vec((any::<u16>(), kind), 1..6),
            prop_oneof![2 => Just(false), 1 => Just(true)],
            prop_oneof![3 => Just(false), 1 => Just(true)],
        )
            .prop_map(|(ws, setup, cfg, removals, remove_all, resubmit_survivors)| Case { ws, setup, cfg, removals, remove_all, resubmit_survivors })
            .boxed()
    }
    fn simplify(&self, c: &Case) -> Vec<Case> {
        let mut out: Vec<Case> = vec![];
        for i in 0..c.removals.len() {
            if c.removals.len() > 1 {
                let mut r = c.removals.clone();
                r.remove(i);
                out.push(Case { removals: r, ..c.clone() });
            }
        }
        if c.remove_all {
            out.push(Case { remove_all: false, ..c.clone() });
        }
        if c.resubmit_survivors {
            out.push(Case { resubmit_survivors: false, ..c.clone() });
        }
        for (i, r) in c.removals.iter().enumerate() {
            if r.1 != Kind::Remove {
                let mut v = c.removals.clone();
                v[i].1 = Kind::Remove;
                out.push(Case { removals: v, ..c.clone() });
            }
        }
        out.extend(wsgen::simplify(&c.ws, 1).into_iter().map(|ws| Case { ws, ..c.clone() }));
        if c.setup.std || c.setup.lib_root {
            out.push(Case { setup: Setup::default(), ..c.clone() });
        }
        if c.cfg != Cfg::base() {
            out.push(Case { cfg: Cfg::base(), ..c.clone() });
        }
        out
    }
    fn max_shrink_iters(&self, tier: Tier) -> u32 {
        tier.pick(400, 3000)
    }
    fn local(&self) -> Local {
        Local { open: hist::open_sigs("C10") }
    }
    fn check(&self, c: &Case, local: &mut Local, obs: &mut Obs) -> Verdict {
        let v = judge(c, local, obs);
        // A failure that is not a known finding must be reproducible: hash-order dependence inside the
        // analysis (C11) can make one evaluation of a case differ from the next.
        if let Verdict::Fail(f) = &v {
            if !local.open.contains(&f.sig) {
                for _ in 0..2 {
                    let mut scratch = Obs::default();
                    match judge(c, local, &mut scratch) {
                        Verdict::Fail(g) if g.sig == f.sig => {}
                        _ => return Verdict::Skip("unstable_failure(c11)".into()),
                    }
                }
            }
        }
        v
    }
}

fn judge(c: &Case, local: &mut Local, obs: &mut Obs) -> Verdict {
    {
        if c.ws.files.is_empty() {
            return Verdict::Skip("empty-workspace".into());
        }
        let r = catch(|| {
            let mut cands: Vec<(String, String)> = vec![];
            let mut a = hist::fresh(&c.cfg, &c.setup, &c.ws.files, false);
            let mut live: Vec<usize> = (0..c.ws.files.len()).collect();
            let mut dead: Vec<(FileId, String)> = vec![];
            let mut shared_removed = false;
            let mut none_kind = false;
            let mut plan: Vec<(usize, Kind)> = vec![];
            for (i, k) in &c.removals {
                if live.is_empty() {
                    break;
                }
                let pos = idx(*i, live.len());
                plan.push((live.remove(pos), *k));
                // non-triviality: the removed file shares a defined symbol with a file still live
                let removed = &c.ws.files[plan.last().unwrap().0];
                for l in &live {
                    let pair = Workspace { files: vec![removed.clone(), c.ws.files[*l].clone()] };
                    if !wsgen::shared_symbols(&pair).is_empty() {
                        shared_removed = true;
                    }
                }
            }
            let survivors: Vec<usize> = live.clone();
            if c.remove_all {
                for l in live.drain(..) {
                    plan.push((l, Kind::Remove));
                }
            }
            let n_random = c.removals.len().min(plan.len());
            for (step, (fi, kind)) in plan.iter().enumerate() {
                let f = &c.ws.files[*fi];
                let uri = hist::uri_of(&f.name);
                let Some(id) = a.get_file_id(&uri) else {
                    cands.push(("file-id-missing-before-removal".into(), format!("{} has no file id before its removal", f.name)));
                    continue;
                };
                match kind {
                    Kind::Remove => {
                        a.remove_file_by_uri(&uri);
                    }
                    Kind::CloseNone => {
                        none_kind = true;
                        a.update_file_by_uri(&uri, None);
                    }
                    Kind::BatchNone => {
                        none_kind = true;
                        a.update_files_by_uri(vec![(uri.clone(), None)]);
                    }
                }
                dead.push((id, f.name.clone()));
                if step + 1 == n_random && c.resubmit_survivors {
                    for s in &survivors {
                        let sf = &c.ws.files[*s];
                        a.update_file_by_uri(&hist::uri_of(&sf.name), Some(sf.text.clone()));
                    }
                }
            }
            // (a) the removed files themselves
            let db = a.compilation.get_db();
            for (id, name) in &dead {
                let mut left: Vec<&str> = vec![];
                if db.get_vfs().get_syntax_tree(id).is_some() {
                    left.push("syntax-tree");
                }
                if db.get_vfs().get_file_content(id).is_some() {
                    left.push("text");
                }
                if db.get_vfs().get_document(id).is_some() {
                    left.push("document");
                }
                if a.compilation.get_semantic_model(*id).is_some() {
                    left.push("semantic-model");
                }
                if a.diagnose_file(*id, CancellationToken::new()).is_some() {
                    left.push("diagnostics");
                }
                if db.get_module_index().get_module(*id).is_some() {
                    left.push("module-info");
                }
                if db.get_decl_index().get_decl_tree(id).is_some() {
                    left.push("decl-tree");
                }
                if !db.get_type_index().get_file_type_decls(*id).is_empty() {
                    left.push("type-decls");
                }
                if db.get_reference_index().get_local_reference(id).is_some() {
                    left.push("local-references");
                }
                if db.get_flow_index().get_flow_tree(id).is_some() {
                    left.push("flow-tree");
                }
                if db.get_file_dependencies_index().get_required_files(id).is_some() {
                    left.push("dependencies");
                }
                for what in left {
                    cands.push((format!("removed-file-keeps:{what}"), format!("removed file {name} still has its {what}")));
                }
            }
            // (b) nothing observable points into a removed file
            let d = hist::dump_of(&a, &dead);
            for marker in ["<DEAD:", "<NOPATH>"] {
                let hits = d.grep(marker);
                let mut by_section: Vec<(String, Vec<String>)> = vec![];
                for (sec, line) in hits {
                    match by_section.iter_mut().find(|x| x.0 == sec) {
                        Some(e) => e.1.push(line),
                        None => by_section.push((sec, vec![line])),
                    }
                }
                for (sec, lines) in by_section {
                    let detail = match sec.as_str() {
                        "ref" | "member" | "desc" => format!(":{}", lines[0].split(|c: char| c == ' ' || c == ':').next().unwrap_or("")),
                        "module" => format!(":{}", if lines[0].starts_with("find_module(") { "find-module" } else { "module-info" }),
                        "diag" => format!(":{}", lines[0].split(' ').nth(2).unwrap_or("")),
                        _ => String::new(),
                    };
                    let kind = if marker == "<DEAD:" { "dangling" } else { "dangling-unknown-file" };
                    cands.push((
                        format!("{kind}:{sec}{detail}"),
                        format!("{} result line(s) in section `{sec}` still point into a removed file, e.g.\n{}", lines.len(), lines.iter().take(4).cloned().collect::<Vec<_>>().join("\n")),
                    ));
                }
            }
            // (c) memory
            if c.remove_all {
                let empty = hist::new_analysis(&c.cfg, &c.setup);
                let s_empty = hist::sizes(&empty);
                let s_now = hist::sizes(&a);
                for (k, before, after) in hist::grown(&s_empty, &s_now) {
                    if none_kind && (k == "vfs.file_id_map" || k == "vfs.file_path_map") {
                        continue;
                    }
                    cands.push((format!("leak:{k}"), format!("after removing every file, H1 entry count {k} is {after}; an empty analysis with the same setup has {before}")));
                }
            }
            (cands, shared_removed, plan.len())
        });
        let (cands, shared_removed, nrem) = match r {
            Ok(x) => x,
            Err(_) => return Verdict::Skip("analysis-panic(C12)".into()),
        };
        hist::ws_label(&c.ws, obs);
        obs.class_if(c.setup.std, "std");
        obs.class_if(c.setup.lib_root, "lib-root");
        obs.class_if(c.remove_all, "remove-all");
        obs.class_if(c.resubmit_survivors, "resubmit-survivors");
        obs.class(&format!("removed:{}", nrem.min(8)));
        for (_, k) in &c.removals {
            obs.class(match k {
                Kind::Remove => "kind:remove",
                Kind::CloseNone => "kind:close-none",
                Kind::BatchNone => "kind:batch-none",
            });
        }
        if let Some((sig, msg)) = hist::select(cands, &local.open) {
            return Verdict::fail(sig, format!("after removals {:?} (remove_all={}): {}", c.removals, c.remove_all, msg));
        }
        obs.class_if(shared_removed, "removed-file-shared-symbol");
        Verdict::pass(shared_removed)
    }
}
