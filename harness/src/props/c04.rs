//! C04 — Parse results do not depend on earlier parses.
//!
//! A history of set_file_content / set_remote_file_content / remove_file / update_config operations is applied to
//! ONE `Vfs` (whose `NodeCache` is shared by every parse).  After every step the tree and error list the Vfs holds
//! for every live file must equal a fresh standalone `LuaParser::parse` of that file's text under the configuration
//! that was active when the file was set (fresh `NodeCache`).
use crate::engine::*;
use crate::gens::{soup, util};
use crate::oracle::treedump;
use emmylua_code_analysis::{Emmyrc, FileId, Vfs};
use emmylua_parser::LuaParser;
use proptest::prelude::*;
use serde::{Deserialize, Serialize};
use std::collections::{BTreeMap, HashMap};
use std::str::FromStr;
use std::sync::Arc;

#[derive(Clone, Debug, Serialize, Deserialize)]
pub enum Op {
    /// set_file_content(file:///ws/f<file>.lua, Some(text))
    Set { file: u8, text: String },
    /// set_remote_file_content(vfs://remote/f<file>.lua, Some(text))
    SetRemote { file: u8, text: String },
    /// remove_file(file uri)
    Remove { file: u8 },
    /// set_file_content(uri, None)
    Clear { file: u8 },
    /// set_remote_file_content(uri, None)
    ClearRemote { file: u8 },
    /// update_config(configs[i])
    Config { i: u8 },
}

#[derive(Clone, Debug, Serialize, Deserialize)]
pub struct Case {
    /// Emmyrc JSON documents (camelCase); configs[0] is active first
    pub configs: Vec<serde_json::Value>,
    pub ops: Vec<Op>,
}

pub struct C04;

const VERSIONS: &[&str] = &["Lua5.1", "Lua5.2", "Lua5.3", "Lua5.4", "Lua5.5", "LuaJIT", "LuaJIT2", "LuaJIT3", "LuaLatest"];
const NONSTD: &[&str] = &["//", "/**/", "`", "+=", "-=", "*=", "/=", "%=", "^=", "//=", "|=", "&=", "<<=", ">>=", "||", "&&", "!", "!=", "continue"];

fn config_strategy() -> impl Strategy<Value = serde_json::Value> {
    (
        0..VERSIONS.len() + 3,
        proptest::collection::vec(0..NONSTD.len(), 0..4),
        proptest::collection::vec(util::select_str(&["a", "f", "foo", "import", "x"]), 0..3),
        proptest::collection::vec((util::select_str(&["a", "b", "t", "self"]), util::select_str(&["require", "assert", "type", "setmetatable", "error", "none"])), 0..3),
    )
        .prop_map(|(v, ns, req, special)| {
            let mut runtime = serde_json::Map::new();
            if v < VERSIONS.len() {
                runtime.insert("version".into(), VERSIONS[v].into());
            }
            if !ns.is_empty() {
                let mut syms: Vec<&str> = ns.iter().map(|i| NONSTD[*i]).collect();
                syms.sort();
                syms.dedup();
                runtime.insert("nonstandardSymbol".into(), syms.into());
            }
            if !req.is_empty() {
                runtime.insert("requireLikeFunction".into(), req.into());
            }
            if !special.is_empty() {
                let m: serde_json::Map<String, serde_json::Value> = special.into_iter().map(|(k, v)| (k.to_string(), v.into())).collect();
                runtime.insert("special".into(), m.into());
            }
            serde_json::json!({ "runtime": runtime })
        })
}

fn base_text(tier: Tier) -> BoxedStrategy<String> {
    let corpus = std::sync::Arc::new(util::corpus_files());
    let n = corpus.len().max(1);
    const PROGS: &[&str] = &[
        "local x = 1\nlocal y = x + 1\nprint(x, y)\n",
        "---@class A\n---@field x integer\nlocal A = {}\n\n---@param a string\n---@return integer\nfunction A.f(a)\n  return #a\nend\nreturn A\n",
        "local t = { a = 1, b = { c = 2 }, [1] = 'x' }\nfor k, v in pairs(t) do\n  if v then print(k) else print(v) end\nend\n",
        "local M = require('m')\nlocal function f(...)\n  local a, b = ...\n  return a .. b, f(a)\nend\nM.f = f\n",
        "---@type table<string, fun(a: integer): string[]>\nlocal handlers = {}\n---@alias K\n---| 'a' # first\n---| 'b' # second\n",
        "goto done\ndo local x <const> = 1 end\n::done::\nwhile true do break end\nrepeat local z = 1 until z\n",
    ];
    prop_oneof![
        3 => soup::soup(tier.pick(40, 200)),
        3 => (0..n, any::<u16>(), 64usize..1200).prop_map(move |(i, start, len)| {
            let base = corpus.get(i).map(|x| x.1.as_str()).unwrap_or("local x = 1\n");
            let mut a = util::idx(start, base.len());
            while !base.is_char_boundary(a) { a -= 1; }
            let mut b = (a + len).min(base.len());
            while !base.is_char_boundary(b) { b -= 1; }
            base[a..b].to_string()
        }),
        2 => crate::props::c01::doc_heavy(tier.pick(10, 40)),
        2 => (0..PROGS.len()).prop_map(|i| PROGS[i].to_string()),
    ]
    .boxed()
}

/// how an op's text derives from a base text (near-duplicates maximise green-node sharing)
#[derive(Clone, Debug)]
enum Variant {
    Same,
    Muts(Vec<util::Mut>),
    Trivia(u8),
    Rotate(u16),
    Twice,
    Concat(u8),
}

fn variant() -> impl Strategy<Value = Variant> {
    prop_oneof![
        3 => Just(Variant::Same),
        4 => proptest::collection::vec(util::mut_strategy(), 1..3).prop_map(Variant::Muts),
        2 => (0u8..5).prop_map(Variant::Trivia),
        2 => any::<u16>().prop_map(Variant::Rotate),
        1 => Just(Variant::Twice),
        1 => any::<u8>().prop_map(Variant::Concat),
    ]
}

fn derive(pool: &[String], base: usize, v: &Variant) -> String {
    let t = &pool[base % pool.len()];
    match v {
        Variant::Same => t.clone(),
        Variant::Muts(ms) => {
            let mut s = t.clone();
            for m in ms {
                s = util::apply_mut(&s, m);
            }
            s
        }
        Variant::Trivia(k) => match k {
            0 => t.replace(' ', "  "),
            1 => t.replace(' ', "\t"),
            2 => t.replace('\n', "\r\n"),
            3 => t.replace('\n', "\n\n"),
            _ => t.replace('\n', " \n  "),
        },
        Variant::Rotate(r) => {
            let lines: Vec<&str> = t.split_inclusive('\n').collect();
            if lines.is_empty() {
                return t.clone();
            }
            let k = util::idx(*r, lines.len());
            let mut s = String::new();
            for l in lines[k..].iter().chain(lines[..k].iter()) {
                s.push_str(l);
            }
            s
        }
        Variant::Twice => format!("{t}{t}"),
        Variant::Concat(j) => format!("{t}{}", pool[*j as usize % pool.len()]),
    }
}

#[derive(Clone, Debug)]
enum RawOp {
    Set(u8, usize, Variant, bool),
    Remove(u8),
    Clear(u8, bool),
    Config(u8),
}

fn uri(file: u8, remote: bool) -> lsp_types::Uri {
    let s = if remote { format!("vfs://remote/f{file}.lua") } else { format!("file:///ws/f{file}.lua") };
    lsp_types::Uri::from_str(&s).expect("uri")
}

struct Expected {
    dump: String,
    errors: String,
}

fn fresh(text: &str, rc: &Emmyrc) -> Result<Expected, String> {
    let mut cache = rowan::NodeCache::default();
    let cfg = rc.get_parse_config(&mut cache);
    let tree = catch(|| LuaParser::parse(text, cfg))?;
    Ok(Expected { dump: treedump::dump(&tree.get_red_root()), errors: treedump::errors(tree.get_errors()) })
}

impl Property for C04 {
    type Case = Case;
    type Local = ();
    fn id(&self) -> &'static str {
        "C04"
    }
    fn rule(&self) -> String {
        "cases = histories of 2..40 (quick) operations {set_file_content, set_remote_file_content, remove_file, set None, update_config} on one Vfs over <= 6 file slots; texts derive from a pool of 1..4 base texts (soup / corpus windows / doc-heavy / small programs) as identical copies, 1-2 local mutations, trivia changes, rotated lines, doubling, concatenation; 1..3 generated Emmyrc configs (version, nonstandard symbols, require-like, special); after every step every live file is compared (full dump with token texts + error list) with a fresh parse under the config active when it was set; non-trivial = >= 3 parses and >= 1 near-duplicate pair; distinct = distinct case digest".into()
    }
    fn assumptions(&self) -> Vec<String> {
        vec!["the Vfs is driven directly (it is a public type); the analysis layers above it do not touch the trees".into()]
    }
    fn cases(&self, tier: Tier) -> u32 {
        tier.pick(60_000, 3_000_000)
    }
    fn stack_bytes(&self) -> usize {
        64 << 20
    }
    fn strategy(&self, tier: Tier) -> BoxedStrategy<Case> {
        let max_ops = tier.pick(40, 120);
        let raw_op = prop_oneof![
            12 => (0u8..6, 0usize..4, variant(), prop::bool::weighted(0.15)).prop_map(|(f, b, v, r)| RawOp::Set(f, b, v, r)),
            2 => (0u8..6).prop_map(RawOp::Remove),
            1 => (0u8..6, any::<bool>()).prop_map(|(f, r)| RawOp::Clear(f, r)),
            1 => (0u8..3).prop_map(RawOp::Config),
        ];
        (
            proptest::collection::vec(config_strategy(), 1..4),
            proptest::collection::vec(base_text(tier), 1..5),
            proptest::collection::vec(raw_op, 2..max_ops),
        )
            .prop_map(|(configs, pool, raw)| {
                let nconf = configs.len() as u8;
                let ops = raw
                    .iter()
                    .map(|r| match r {
                        RawOp::Set(f, b, v, remote) => {
                            let text = derive(&pool, *b, v);
                            if *remote { Op::SetRemote { file: *f, text } } else { Op::Set { file: *f, text } }
                        }
                        RawOp::Remove(f) => Op::Remove { file: *f },
                        RawOp::Clear(f, false) => Op::Clear { file: *f },
                        RawOp::Clear(f, true) => Op::ClearRemote { file: *f },
                        RawOp::Config(i) => Op::Config { i: i % nconf },
                    })
                    .collect();
                Case { configs, ops }
            })
            .boxed()
    }
    fn simplify(&self, c: &Case) -> Vec<Case> {
        let mut out = vec![];
        // drop one op (later ops first), then shrink one text
        for i in (0..c.ops.len()).rev() {
            let mut ops = c.ops.clone();
            ops.remove(i);
            out.push(Case { ops, ..c.clone() });
        }
        for i in 0..c.ops.len() {
            let (text, mk): (&String, Box<dyn Fn(String) -> Op>) = match &c.ops[i] {
                Op::Set { file, text } => { let f = *file; (text, Box::new(move |t| Op::Set { file: f, text: t })) }
                Op::SetRemote { file, text } => { let f = *file; (text, Box::new(move |t| Op::SetRemote { file: f, text: t })) }
                _ => continue,
            };
            for t in util::text_simplify(text).into_iter().take(60) {
                let mut ops = c.ops.clone();
                ops[i] = mk(t);
                out.push(Case { ops, ..c.clone() });
            }
        }
        if c.configs.len() > 1 {
            out.push(Case { configs: vec![c.configs[0].clone()], ops: c.ops.iter().filter(|o| !matches!(o, Op::Config { .. })).cloned().collect() });
        }
        out
    }
    fn render(&self, case: &Case) -> serde_json::Value {
        truncate_value(serde_json::to_value(case).unwrap_or(serde_json::Value::Null), 160)
    }
    fn local(&self) {}
    fn check(&self, c: &Case, _l: &mut (), obs: &mut Obs) -> Verdict {
        let mut rcs: Vec<Arc<Emmyrc>> = vec![];
        for j in &c.configs {
            match serde_json::from_value::<Emmyrc>(j.clone()) {
                Ok(rc) => rcs.push(Arc::new(rc)),
                Err(_) => return Verdict::Skip("config-does-not-deserialise".into()),
            }
        }
        if rcs.is_empty() {
            return Verdict::Skip("no-config".into());
        }
        let mut vfs = Vfs::new();
        let mut active = 0usize;
        vfs.update_config(rcs[0].clone());
        // model: slot -> (file id, text, config index at set time)
        let mut live: BTreeMap<(u8, bool), (FileId, String, usize)> = BTreeMap::new();
        let mut expected: HashMap<(String, usize), Expected> = HashMap::new();
        let mut parses = 0u32;
        for (step, op) in c.ops.iter().enumerate() {
            match op {
                Op::Set { file, text } | Op::SetRemote { file, text } => {
                    let remote = matches!(op, Op::SetRemote { .. });
                    let u = uri(*file, remote);
                    let r = catch(|| if remote { vfs.set_remote_file_content(&u, Some(text.clone())) } else { vfs.set_file_content(&u, Some(text.clone())) });
                    match r {
                        Ok(fid) => {
                            live.insert((*file, remote), (fid, text.clone(), active));
                            parses += 1;
                        }
                        Err(_) => return Verdict::Skip("parser-panic(C02)".into()),
                    }
                }
                Op::Remove { file } => {
                    vfs.remove_file(&uri(*file, false));
                    live.remove(&(*file, false));
                }
                Op::Clear { file } => {
                    if live.contains_key(&(*file, false)) {
                        vfs.set_file_content(&uri(*file, false), None);
                        live.remove(&(*file, false));
                    }
                }
                Op::ClearRemote { file } => {
                    if live.contains_key(&(*file, true)) {
                        vfs.set_remote_file_content(&uri(*file, true), None);
                        live.remove(&(*file, true));
                    }
                }
                Op::Config { i } => {
                    active = *i as usize % rcs.len();
                    vfs.update_config(rcs[active].clone());
                    obs.class("config-switch");
                }
            }
            for ((file, remote), (fid, text, ci)) in &live {
                let Some(tree) = vfs.get_syntax_tree(fid) else {
                    return Verdict::fail("tree-missing", format!("step {step}: live file f{file} (remote={remote}) has no syntax tree in the Vfs"));
                };
                let key = (text.clone(), *ci);
                if !expected.contains_key(&key) {
                    match fresh(text, &rcs[*ci]) {
                        Ok(e) => {
                            expected.insert(key.clone(), e);
                        }
                        Err(_) => return Verdict::Skip("parser-panic(C02)".into()),
                    }
                }
                let exp = &expected[&key];
                let got_dump = treedump::dump(&tree.get_red_root());
                if got_dump != exp.dump {
                    return Verdict::fail(
                        "tree-differs",
                        format!(
                            "step {step} ({}): tree of f{file} (remote={remote}) in the Vfs differs from a fresh parse of the same text under config #{ci}: {}; text={:?}",
                            op_name(op), treedump::first_diff(&got_dump, &exp.dump), one_line(text, 300)
                        ),
                    );
                }
                let got_err = treedump::errors(tree.get_errors());
                if got_err != exp.errors {
                    return Verdict::fail(
                        "errors-differ",
                        format!(
                            "step {step} ({}): error list of f{file} (remote={remote}) differs from a fresh parse under config #{ci}: {}; text={:?}",
                            op_name(op), treedump::first_diff(&got_err, &exp.errors), one_line(text, 300)
                        ),
                    );
                }
            }
        }
        obs.class(match parses { 0..=2 => "parses<3", 3..=9 => "parses:3-9", 10..=19 => "parses:10-19", _ => "parses>=20" });
        let near_dups = near_duplicate_pairs(&c.ops);
        obs.class_if(near_dups > 0, "has-near-duplicates");
        obs.class_if(c.ops.iter().any(|o| matches!(o, Op::SetRemote { .. })), "has-remote");
        obs.class_if(c.ops.iter().any(|o| matches!(o, Op::Remove { .. } | Op::Clear { .. })), "has-remove");
        obs.class_if(rcs.len() > 1, "multi-config");
        obs.count("parses", parses as u64);
        Verdict::pass(parses >= 3 && near_dups >= 1)
    }
}

fn op_name(op: &Op) -> &'static str {
    match op {
        Op::Set { .. } => "set_file_content",
        Op::SetRemote { .. } => "set_remote_file_content",
        Op::Remove { .. } => "remove_file",
        Op::Clear { .. } => "set_file_content(None)",
        Op::ClearRemote { .. } => "set_remote_file_content(None)",
        Op::Config { .. } => "update_config",
    }
}

/// number of parsed texts that equal an earlier parsed text or share a line of >= 6 significant characters with one
fn near_duplicate_pairs(ops: &[Op]) -> u32 {
    let mut seen_texts: std::collections::HashSet<&str> = Default::default();
    let mut seen_lines: std::collections::HashSet<&str> = Default::default();
    let mut n = 0;
    for op in ops {
        let (Op::Set { text, .. } | Op::SetRemote { text, .. }) = op else { continue };
        if text.is_empty() {
            continue;
        }
        let lines: Vec<&str> = text.lines().map(|l| l.trim()).filter(|l| l.len() >= 6).collect();
        if seen_texts.contains(text.as_str()) || lines.iter().any(|l| seen_lines.contains(l)) {
            n += 1;
        }
        seen_texts.insert(text.as_str());
        seen_lines.extend(lines);
    }
    n
}
