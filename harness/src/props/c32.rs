//! C32 — Configuration merging is deterministic and later files win; flat dotted keys ≡ nested.
use crate::engine::*;
use crate::gens::configs::{self, Setting, KEYS};
use crate::gens::util;
use crate::oracle::cfgmodel;
use emmylua_code_analysis::{load_configs, Emmyrc};
use proptest::prelude::*;
use serde::{Deserialize, Serialize};
use serde_json::Value;
use std::collections::{BTreeMap, BTreeSet};
use std::path::PathBuf;
use std::sync::atomic::{AtomicUsize, Ordering};

#[derive(Clone, Debug, Serialize, Deserialize)]
pub struct FileC {
    pub settings: Vec<Setting>,
    /// 0 = .emmyrc.json, 1 = .luarc.json, 2 = .emmyrc.lua (table constructor), 3 = client partial config (no file)
    pub form: u8,
}

#[derive(Clone, Debug, Serialize, Deserialize)]
pub struct Case {
    pub files: Vec<FileC>,
    /// metamorphic re-spelling: file index (raw) and xor masks applied to its settings
    pub respell_file: u16,
    pub respell_xor: Vec<u8>,
    /// determinism-only class: add a scalar at a proper prefix of a set key to the first file (value/prefix collision, C31 shape)
    pub collide: Option<(u16, u8)>,
}

pub struct C32;

pub struct Local {
    dir: PathBuf,
}

static NEXT_LOCAL: AtomicUsize = AtomicUsize::new(0);

fn has_null_or_empty(v: &Value) -> bool {
    match v {
        Value::Null => true,
        Value::Array(a) => a.is_empty() || a.iter().any(has_null_or_empty),
        Value::Object(m) => m.is_empty() || m.values().any(has_null_or_empty),
        _ => false,
    }
}

/// leaf paths (dotted) of a setting, with the spelling of each leaf
fn setting_leaves(s: &Setting, out: &mut Vec<(String, String, Value)>) {
    fn rec(prefix: &str, spelling: &str, v: &Value, out: &mut Vec<(String, String, Value)>) {
        match v {
            Value::Object(m) => {
                for (k, x) in m {
                    rec(&format!("{prefix}.{k}"), &format!("{spelling}/{k}"), x, out);
                }
            }
            other => out.push((prefix.to_string(), spelling.to_string(), other.clone())),
        }
    }
    rec(&s.dotted(), &s.groups().join("/"), &s.value, out);
}

/// keep a setting only when none of its leaves was already set in this file (one file never sets one thing twice)
fn dedupe(settings: Vec<Setting>) -> Vec<Setting> {
    let mut seen: BTreeSet<String> = BTreeSet::new();
    let mut out = vec![];
    'next: for s in settings {
        let mut leaves = vec![];
        setting_leaves(&s, &mut leaves);
        if leaves.is_empty() {
            continue;
        }
        for (p, _, _) in &leaves {
            // neither equal nor prefix-related to anything seen
            if seen.contains(p) || seen.iter().any(|q| q.starts_with(&format!("{p}.")) || p.starts_with(&format!("{q}."))) {
                continue 'next;
            }
        }
        for (p, _, _) in leaves {
            seen.insert(p);
        }
        out.push(s);
    }
    out
}

fn file_strategy(pool: Vec<usize>) -> BoxedStrategy<FileC> {
    let n = pool.len();
    let one = (0..n).prop_flat_map(move |i| configs::setting_of(pool[i], configs::plain_path(), true));
    (proptest::collection::vec(one, 1..=n + 1), prop_oneof![5 => Just(0u8), 3 => Just(1u8), 2 => Just(2u8), 2 => Just(3u8)])
        .prop_map(|(settings, form)| {
            let mut settings = dedupe(settings);
            // ExtTool `null` together with a sub key in another file would be a value/prefix collision: never null here
            settings.retain(|s| !(s.segs[0] == "format" && s.value.is_null()));
            if form == 2 {
                // Lua has no null and cannot tell an empty array from an empty object
                settings.retain(|s| !has_null_or_empty(&s.value));
            }
            FileC { settings, form }
        })
        .boxed()
}

fn canon(e: &Emmyrc) -> Value {
    serde_json::to_value(e).unwrap_or(Value::Null)
}

/// files written once; `load` may then be repeated
struct Written {
    paths: Vec<PathBuf>,
    partials: Option<Vec<Value>>,
}

impl Written {
    fn load(&self) -> Result<Emmyrc, Verdict> {
        match catch(|| load_configs(self.paths.clone(), self.partials.clone())) {
            Ok(e) => Ok(e),
            Err(_) => Err(Verdict::Skip("panic(C31)".into())),
        }
    }
}

impl C32 {
    /// the loader only looks at the extension (`.lua` or not), so flat file names in the per-thread directory do
    fn write(&self, local: &Local, files: &[FileC], tag: &str) -> Result<Written, Verdict> {
        let mut paths = vec![];
        let mut partials = vec![];
        for (i, f) in files.iter().enumerate() {
            let obj = configs::file_object(&f.settings);
            if f.form == 3 {
                partials.push(obj);
                continue;
            }
            let (name, text) = match f.form {
                0 => (format!("{tag}{i}.emmyrc.json"), serde_json::to_string_pretty(&obj).unwrap()),
                1 => (format!("{tag}{i}.luarc.json"), serde_json::to_string(&obj).unwrap()),
                _ => (format!("{tag}{i}.emmyrc.lua"), format!("return {}\n", configs::to_lua(&obj))),
            };
            let p = local.dir.join(name);
            if std::fs::write(&p, text).is_err() {
                return Err(Verdict::Skip("cannot-write-file".into()));
            }
            paths.push(p);
        }
        let partials = if partials.is_empty() { None } else { Some(partials) };
        Ok(Written { paths, partials })
    }
    fn write_and_load(&self, local: &Local, files: &[FileC], tag: &str) -> Result<Emmyrc, Verdict> {
        self.write(local, files, tag)?.load()
    }
}

impl Drop for Local {
    fn drop(&mut self) {
        let _ = std::fs::remove_dir_all(&self.dir);
    }
}

/// the order in which the loader sees the configs: files first, then the client partial configs
fn load_order(files: &[FileC]) -> Vec<&FileC> {
    files.iter().filter(|f| f.form != 3).chain(files.iter().filter(|f| f.form == 3)).collect()
}

impl Property for C32 {
    type Case = Case;
    type Local = Local;
    fn id(&self) -> &'static str {
        "C32"
    }
    fn rule(&self) -> String {
        "cases = 1-3 well-typed config files (.emmyrc.json / .luarc.json / .emmyrc.lua table / client partial config) over a pool of 1-4 keys of the schema.json key space, every setting in a random dotted/nested spelling, no file sets one thing twice, no value/prefix collisions (except the determinism-only `collide` class); judged: load_configs == reference model (expand each file to nested form, merge left to right: objects recursively, arrays appended skipping values already present, scalars later-wins, then the same Emmyrc serde type), 6 in-process repetitions byte-identical, re-spelling one file leaves the result unchanged; non-trivial = some scalar leaf is set by >=2 files in different spellings; distinct = distinct case digest".into()
    }
    fn assumptions(&self) -> Vec<String> {
        vec![
            "hash seeds are sampled by in-process repetition (hashbrown/std maps draw a fresh seed per map), not by fresh processes".into(),
            "client partial configs are merged after all files (that is the loader's documented call order)".into(),
        ]
    }
    fn cases(&self, tier: Tier) -> u32 {
        tier.pick(72_000, 1_000_000)
    }
    fn strategy(&self, _tier: Tier) -> BoxedStrategy<Case> {
        let nk = KEYS.len();
        // arrays and maps are where merging is interesting: over-weight them
        let interesting: Vec<usize> = KEYS
            .iter()
            .enumerate()
            .filter(|(_, k)| !matches!(k.kind, configs::Kind::Bool))
            .map(|(i, _)| i)
            .collect();
        let key = prop_oneof![1 => 0..nk, 2 => (0..interesting.len()).prop_map(move |i| interesting[i])];
        proptest::collection::vec(key, 1..5)
            .prop_flat_map(|pool| {
                (
                    proptest::collection::vec(file_strategy(pool), 1..4),
                    any::<u16>(),
                    proptest::collection::vec(any::<u8>(), 6),
                    proptest::option::weighted(0.06, (any::<u16>(), any::<u8>())),
                )
            })
            .prop_map(|(files, respell_file, respell_xor, collide)| Case { files, respell_file, respell_xor, collide })
            .boxed()
    }
    fn fixed_cases(&self, _tier: Tier) -> Vec<Case> {
        let s = |segs: &[&str], mask: u8, value: Value| Setting { segs: segs.iter().map(|x| x.to_string()).collect(), mask, value };
        let case = |files: Vec<FileC>| Case { files, respell_file: 0, respell_xor: vec![1], collide: None };
        vec![
            // flat in the first file, nested in the second: the second must win
            case(vec![
                FileC { settings: vec![s(&["diagnostics", "enable"], 1, Value::Bool(false))], form: 0 },
                FileC { settings: vec![s(&["diagnostics", "enable"], 0, Value::Bool(true))], form: 0 },
            ]),
            // arrays: second file repeats one item of the first
            case(vec![
                FileC { settings: vec![s(&["diagnostics", "globals"], 0, serde_json::json!(["a", "b"]))], form: 0 },
                FileC { settings: vec![s(&["diagnostics", "globals"], 0, serde_json::json!(["b", "c"]))], form: 1 },
            ]),
            // arrays in different spellings are appended too
            case(vec![
                FileC { settings: vec![s(&["workspace", "ignoreDir"], 1, serde_json::json!(["a"]))], form: 0 },
                FileC { settings: vec![s(&["workspace", "ignoreDir"], 0, serde_json::json!(["b"]))], form: 0 },
            ]),
        ]
    }
    fn simplify(&self, c: &Case) -> Vec<Case> {
        let mut out = vec![];
        if c.collide.is_some() {
            out.push(Case { collide: None, ..c.clone() });
        }
        for i in 0..c.files.len() {
            if c.files.len() > 1 {
                let mut d = c.clone();
                d.files.remove(i);
                out.push(d);
            }
            for j in 0..c.files[i].settings.len() {
                let mut d = c.clone();
                d.files[i].settings.remove(j);
                out.push(d);
                // shrink array values
                if let Value::Array(a) = &c.files[i].settings[j].value {
                    for k in 0..a.len() {
                        let mut d = c.clone();
                        if let Value::Array(b) = &mut d.files[i].settings[j].value {
                            b.remove(k);
                        }
                        out.push(d);
                    }
                }
            }
            if c.files[i].form != 0 {
                let mut d = c.clone();
                d.files[i].form = 0;
                out.push(d);
            }
        }
        out
    }
    fn local(&self) -> Local {
        let root = PathBuf::from(std::env::var("VERIF_ROOT").unwrap_or_else(|_| "/verif".into()));
        let work = root.join("work");
        let _ = std::fs::create_dir_all(&work);
        if let Ok(rd) = std::fs::read_dir(&work) {
            for e in rd.flatten() {
                let n = e.file_name().to_string_lossy().to_string();
                if let Some(rest) = n.strip_prefix("c32-") {
                    let pid = rest.split('-').next().unwrap_or("");
                    if !std::path::Path::new(&format!("/proc/{pid}")).exists() {
                        let _ = std::fs::remove_dir_all(e.path());
                    }
                }
            }
        }
        let k = NEXT_LOCAL.fetch_add(1, Ordering::Relaxed);
        Local { dir: work.join(format!("c32-{}-{}", std::process::id(), k)) }
    }
    fn check(&self, c: &Case, local: &mut Local, obs: &mut Obs) -> Verdict {
        if !local.dir.is_dir() && std::fs::create_dir_all(&local.dir).is_err() {
            return Verdict::Skip("cannot-create-workdir".into());
        }
        self.judge(c, local, obs)
    }
}

impl C32 {
    fn judge(&self, c: &Case, local: &Local, obs: &mut Obs) -> Verdict {
        let mut files = c.files.clone();
        files.retain(|f| !f.settings.is_empty());
        if files.is_empty() {
            return Verdict::Skip("empty".into());
        }
        obs.class(&format!("files:{}", files.len()));
        for f in &files {
            obs.class(["form:emmyrc.json", "form:luarc.json", "form:emmyrc.lua", "form:partial"][(f.form & 3) as usize]);
        }

        // determinism-only class with a value/prefix collision
        if let Some((pick, val)) = c.collide {
            let n = files[0].settings.len();
            let s = files[0].settings[util::idx(pick, n)].clone();
            let pre = Setting { segs: s.segs[..1].to_vec(), mask: 0, value: Value::from(val as u64) };
            files[0].settings.insert(if val & 1 == 0 { 0 } else { n }, pre);
            obs.class("collide");
            let mut firstv: Option<Value> = None;
            let written = match self.write(local, &files, "f") {
                Ok(w) => w,
                Err(v) => return v,
            };
            for _ in 0..8 {
                let e = match written.load() {
                    Ok(e) => e,
                    Err(v) => return v,
                };
                let v = canon(&e);
                match &firstv {
                    None => firstv = Some(v),
                    Some(f) if *f != v => {
                        let (path, _) = cfgmodel::first_diff(f, &v, "").unwrap_or(("?".into(), "scalar"));
                        return Verdict::fail(
                            "nondeterministic",
                            format!("same files, different configuration (collision class) at `{path}`: {} vs {}; {}", cfgmodel::at(f, &path), cfgmodel::at(&v, &path), describe(&files)),
                        );
                    }
                    _ => {}
                }
            }
            return Verdict::pass(false);
        }

        // classification: per leaf, which files set it and in which spelling
        let ordered: Vec<&FileC> = load_order(&files);
        let mut by_leaf: BTreeMap<String, Vec<(usize, String, Value)>> = BTreeMap::new();
        for (i, f) in ordered.iter().enumerate() {
            for s in &f.settings {
                let mut leaves = vec![];
                setting_leaves(s, &mut leaves);
                for (p, sp, v) in leaves {
                    by_leaf.entry(p).or_default().push((i, sp, v));
                }
            }
        }
        let mixed_leaf = |p: &str| -> bool {
            by_leaf
                .iter()
                .filter(|(q, _)| *q == p || p.starts_with(&format!("{q}.")) || q.starts_with(&format!("{p}.")))
                .any(|(_, v)| v.iter().map(|x| &x.1).collect::<BTreeSet<_>>().len() >= 2)
        };
        let mut nontrivial = false;
        for (_, v) in &by_leaf {
            let multi = v.len() >= 2;
            let mixed = v.iter().map(|x| &x.1).collect::<BTreeSet<_>>().len() >= 2;
            let is_arr = v.iter().any(|x| x.2.is_array());
            obs.class_if(multi && !is_arr, "scalar-set-by-2+-files");
            obs.class_if(multi && is_arr, "array-set-by-2+-files");
            obs.class_if(multi && mixed && !is_arr, "scalar-mixed-spelling");
            obs.class_if(multi && mixed && is_arr, "array-mixed-spelling");
            if multi && is_arr {
                let mut all: Vec<&Value> = vec![];
                let mut overlap = false;
                for x in v {
                    if let Value::Array(a) = &x.2 {
                        for it in a {
                            if all.contains(&it) {
                                overlap = true;
                            }
                        }
                        all.extend(a.iter());
                    }
                }
                obs.class_if(overlap, "array-overlapping-items");
            }
            if multi && mixed && !is_arr {
                nontrivial = true;
            }
        }

        // reference model
        let objs: Vec<Value> = ordered.iter().map(|f| configs::file_object(&f.settings)).collect();
        let model_json = cfgmodel::load(&objs);
        let expected = match serde_json::from_value::<Emmyrc>(model_json.clone()) {
            Ok(e) => canon(&e),
            Err(_) => return Verdict::Skip("model-rejected-by-type".into()),
        };

        // determinism over repetitions
        let mut actual: Option<Value> = None;
        let written = match self.write(local, &files, "f") {
            Ok(w) => w,
            Err(v) => return v,
        };
        for rep in 0..6 {
            let e = match written.load() {
                Ok(e) => e,
                Err(v) => return v,
            };
            let v = canon(&e);
            match &actual {
                None => actual = Some(v),
                Some(a) if *a != v => {
                    let (path, _) = cfgmodel::first_diff(a, &v, "").unwrap_or(("?".into(), "scalar"));
                    return Verdict::fail(
                        "nondeterministic",
                        format!("repetition {rep} gave a different configuration at `{path}`: {} vs {}; {}", cfgmodel::at(a, &path), cfgmodel::at(&v, &path), describe(&files)),
                    );
                }
                _ => {}
            }
        }
        let actual = actual.unwrap();
        if actual != expected {
            let (path, kind) = cfgmodel::first_diff(&expected, &actual, "").unwrap_or(("?".into(), "scalar"));
            let get = |v: &Value| path.split('.').try_fold(v.clone(), |acc, k| acc.get(k).cloned());
            let default_back = actual == canon(&Emmyrc::default());
            let sig = if default_back {
                "merge:result-rejected-by-type".to_string()
            } else {
                format!("merge:{}:{}", kind, if mixed_leaf(&path) { "mixed-spelling" } else { "same-spelling" })
            };
            return Verdict::fail(
                sig,
                format!(
                    "loaded configuration differs from the merge model at `{path}`: expected {} got {}; {}",
                    get(&expected).map(|v| v.to_string()).unwrap_or("-".into()),
                    get(&actual).map(|v| v.to_string()).unwrap_or("-".into()),
                    describe(&files)
                ),
            );
        }

        // flat == nested: re-spell one file
        let fi = util::idx(c.respell_file, files.len());
        let mut respelled = files.clone();
        let mut changed = false;
        for (j, s) in respelled[fi].settings.iter_mut().enumerate() {
            let x = c.respell_xor.get(j % c.respell_xor.len().max(1)).copied().unwrap_or(1);
            let joints = (s.segs.len() - 1) as u8;
            let x = x & ((1u8 << joints) - 1);
            if x != 0 {
                s.mask ^= x;
                changed = true;
            }
        }
        if changed {
            obs.class("respelled");
            let e = match self.write_and_load(local, &respelled, "r") {
                Ok(e) => e,
                Err(v) => return v,
            };
            let v = canon(&e);
            if v != actual {
                let (path, kind) = cfgmodel::first_diff(&actual, &v, "").unwrap_or(("?".into(), "scalar"));
                return Verdict::fail(
                    format!("respell:{kind}"),
                    format!("re-spelling file {fi} changed the configuration at `{path}`; before: {} after: {}", describe(&files), describe(&respelled)),
                );
            }
        }
        Verdict::pass(nontrivial)
    }
}

fn describe(files: &[FileC]) -> String {
    let mut s = String::new();
    for f in load_order(files) {
        let obj = configs::file_object(&f.settings);
        s.push_str(&format!("[{} {}] ", ["emmyrc.json", "luarc.json", "emmyrc.lua", "partial"][(f.form & 3) as usize], one_line(&obj.to_string(), 300)));
    }
    s
}
