//! C40 — JSON-schema conversion emits valid annotations.
use crate::engine::*;
use crate::gens::schemas;
use crate::oracle::schema::{is_plain_type_name, judge_result};
use proptest::prelude::*;
use schema_to_emmylua::SchemaConverter;
use serde::{Deserialize, Serialize};
use serde_json::Value;

#[derive(Clone, Debug, Serialize, Deserialize)]
pub struct Case {
    pub schema: Value,
    pub is_private: bool,
    pub src: String,
}

pub struct C40;

fn site(msg: &str) -> String {
    let loc = panic_site(msg);
    match loc.find("crates/") {
        Some(i) => loc[i..].to_string(),
        None => loc,
    }
}

fn bundled_schema() -> Value {
    let root = std::env::var("VERIF_ROOT").unwrap_or_else(|_| "/verif".to_string());
    let p = std::path::Path::new(&root).join("corpus/schemas/emmyrc.schema.json");
    std::fs::read_to_string(p).ok().and_then(|t| serde_json::from_str(&t).ok()).unwrap_or_else(|| serde_json::json!({"title": "Missing", "type": "object", "properties": {}}))
}

fn has_odd_string(v: &Value, in_name: bool, found: &mut (bool, bool, bool)) {
    // found = (name needing escaping/bracket, enum/const value needing escaping, $ref)
    let needs = |s: &str| s.chars().any(|c| c == '"' || c == '\\' || c == '\n' || c == '\r' || c.is_control());
    let _ = in_name;
    if let Value::Object(m) = v {
        if m.get("$ref").map(|r| r.is_string()).unwrap_or(false) {
            found.2 = true;
        }
        if let Some(Value::Object(p)) = m.get("properties") {
            if p.keys().any(|k| needs(k) || !is_plain_type_name(k) || k.contains('.')) {
                found.0 = true;
            }
        }
        for key in ["enum"] {
            if let Some(Value::Array(a)) = m.get(key) {
                if a.iter().any(|x| x.as_str().map(needs).unwrap_or(false)) {
                    found.1 = true;
                }
            }
        }
        if m.get("const").and_then(|x| x.as_str()).map(needs).unwrap_or(false) {
            found.1 = true;
        }
        for c in m.values() {
            has_odd_string(c, false, found);
        }
    } else if let Value::Array(a) = v {
        for c in a {
            has_odd_string(c, false, found);
        }
    }
}

impl Property for C40 {
    type Case = Case;
    type Local = ();
    fn id(&self) -> &'static str {
        "C40"
    }
    fn rule(&self) -> String {
        "cases = generated JSON-schema documents (depth <= 5: typed primitives, type arrays, objects with odd property names / required / additionalProperties, arrays, enums and consts of every JSON type, oneOf/anyOf/allOf, the oneOf-of-consts enum idiom, $ref incl. cycles and dangling/odd targets, nested $defs/definitions, unknown and wrongly typed keywords, titles of every shape or absent, non-object documents) and 1-4 structural mutations of the bundled .emmyrc schema; x is_private on/off. non-trivial = the schema has a property name needing bracket/escaping, an enum/const string needing escaping, or a $ref; distinct = distinct case digest".into()
    }
    fn assumptions(&self) -> Vec<String> {
        vec![
            "the schema is any serde_json::Value (what convert() accepts); documents are not required to be valid per the JSON-Schema meta-schema, since the property quantifies over any JSON schema and real-world schemas carry unknown keywords".into(),
            "'parses without syntax errors' = LuaParser::parse with the default ParserConfig (Lua 5.5, EmmyLua docs on) reports no error of either kind".into(),
            "'declares the reported root type' = after indexing the text as the only file of a fresh workspace, the type index holds a class/alias/enum declaration located in that file whose full name equals root_type_name".into(),
        ]
    }
    fn cases(&self, tier: Tier) -> u32 {
        tier.pick(72_000, 2_000_000)
    }
    fn strategy(&self, tier: Tier) -> BoxedStrategy<Case> {
        let base = std::sync::Arc::new(bundled_schema());
        let depth = tier.pick(4, 5);
        let doc = prop_oneof![
            10 => schemas::document(depth).prop_map(|v| (v, "generated".to_string())),
            3 => proptest::collection::vec(schemas::smut(), 1..5).prop_map(move |muts| {
                let mut v = (*base).clone();
                for m in &muts {
                    schemas::apply_smut(&mut v, m);
                }
                (v, "emmyrc-mutated".to_string())
            }),
        ];
        (doc, any::<bool>()).prop_map(|((schema, src), is_private)| Case { schema, is_private, src }).boxed()
    }
    fn fixed_cases(&self, _tier: Tier) -> Vec<Case> {
        let mut out = vec![Case { schema: bundled_schema(), is_private: false, src: "emmyrc".into() }, Case { schema: bundled_schema(), is_private: true, src: "emmyrc".into() }];
        // schemas of earlier findings (corpus/schemas/regressions.json), both visibility modes
        let root = std::env::var("VERIF_ROOT").unwrap_or_else(|_| "/verif".to_string());
        let p = std::path::Path::new(&root).join("corpus/schemas/regressions.json");
        if let Some(Value::Array(a)) = std::fs::read_to_string(p).ok().and_then(|t| serde_json::from_str::<Value>(&t).ok()) {
            for schema in a {
                for is_private in [false, true] {
                    out.push(Case { schema: schema.clone(), is_private, src: "regression".into() });
                }
            }
        }
        out
    }
    fn simplify(&self, c: &Case) -> Vec<Case> {
        schemas::json_simplify(&c.schema).into_iter().map(|s| Case { schema: s, ..c.clone() }).collect()
    }
    fn render(&self, case: &Case) -> Value {
        let s = serde_json::to_string(&case.schema).unwrap_or_default();
        serde_json::json!({"schema": truncate_value(Value::String(s), 700), "is_private": case.is_private, "src": case.src})
    }
    fn local(&self) {}
    fn check(&self, c: &Case, _l: &mut (), obs: &mut Obs) -> Verdict {
        obs.class(&format!("src:{}", c.src));
        obs.class(if c.is_private { "private" } else { "public" });
        let mut odd = (false, false, false);
        has_odd_string(&c.schema, false, &mut odd);
        obs.class_if(odd.0, "odd-property-name");
        obs.class_if(odd.1, "enum-needs-escaping");
        obs.class_if(odd.2, "has-ref");
        let title = c.schema.get("title");
        obs.class(match title {
            None => "title:absent",
            Some(Value::String(t)) if is_plain_type_name(t) => "title:plain",
            Some(Value::String(_)) => "title:odd",
            Some(_) => "title:non-string",
        });
        obs.class_if(c.schema.get("$defs").and_then(|d| d.as_object()).map(|d| !d.is_empty()).unwrap_or(false), "has-defs");

        // 1. conversion must not panic
        let res = match catch(|| SchemaConverter::new(c.is_private).convert(&c.schema)) {
            Ok(r) => r,
            Err(m) => return Verdict::fail(format!("panic:{}", site(&m)), format!("convert panicked: {m}")),
        };
        let text = res.annotation_text;
        let root = res.root_type_name;
        obs.count("annotation-bytes", text.len() as u64);

        // 2. the text parses without errors, 3. the reported root type is declared
        match catch(|| judge_result(&c.schema, &text, &root)) {
            Ok(Ok(n)) => obs.count("declared-types", n as u64),
            Ok(Err((sig, msg))) => {
                if std::env::var("VERIF_SURVEY").is_ok() {
                    // debugging aid: histogram of failure signatures instead of stopping at the first one
                    obs.class(&format!("sig:{sig}"));
                    return Verdict::pass(false);
                }
                return Verdict::fail(sig, msg);
            }
            Err(_) => return Verdict::Skip("parser-or-analysis-panic(C02/C12)".into()),
        }
        Verdict::pass(odd.0 || odd.1 || odd.2)
    }
}
