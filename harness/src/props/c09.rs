//! C09 — Reindexing equals analysing the current files from scratch.
//!
//! A workspace is loaded, a history of updates / additions / removals / closes / batch updates /
//! configuration changes is replayed, then `reindex()`.  The observable dump must equal the dump of a
//! fresh analysis (final configuration set first) that loads the surviving files in the same relative
//! file-id order through one batch update.
//!
//! Configuration changes are replayed the way the only in-tree caller does it (`init_analysis`:
//! `update_config` followed by `reload_workspace_files(all files)`): that is the judged class.  The bare
//! sequence (`update_config` alone, then `reindex`) is run as an informational class that can never raise a
//! violation (reindex re-uses syntax trees parsed under the old configuration).
use crate::engine::*;
use crate::gens::history::{self as hist, Cfg, Setup};
use crate::gens::util::idx;
use crate::gens::workspace::{self as wsgen, Workspace, WsFile};
use emmylua_code_analysis::EmmyLuaAnalysis;
use proptest::prelude::*;
use serde::{Deserialize, Serialize};

#[derive(Clone, Debug, Serialize, Deserialize)]
pub enum Op {
    /// new content for an existing file (`update_file_by_uri`)
    Update(u16, String),
    /// several files at once (`update_files_by_uri`)
    BatchUpdate(Vec<(u16, String)>),
    Resubmit(u16),
    /// `remove_file_by_uri` (deleted / closed-and-not-on-disk)
    Remove(u16),
    /// `update_file_by_uri(uri, None)`
    Close(u16),
    /// a file by name (new, or a further update when the name exists)
    Add(WsFile),
    Config(Cfg),
}

#[derive(Clone, Debug, Serialize, Deserialize)]
pub struct Case {
    pub ws: Workspace,
    pub setup: Setup,
    pub cfg: Cfg,
    pub ops: Vec<Op>,
    /// configuration changes are NOT followed by the re-submission of all files (informational class)
    pub bare_config: bool,
}

pub struct C09;

pub struct Local {
    open: Vec<String>,
}

/// model of the Vfs registry: entries in file-id order; `None` text = closed (id kept)
#[derive(Clone, Debug, Default)]
struct Model {
    files: Vec<(String, Option<String>)>,
}

impl Model {
    fn set(&mut self, name: &str, text: Option<String>) {
        if let Some(e) = self.files.iter_mut().find(|e| e.0 == name) {
            e.1 = text;
        } else {
            self.files.push((name.to_string(), text));
        }
    }
    fn remove(&mut self, name: &str) {
        self.files.retain(|e| e.0 != name);
    }
    fn live(&self) -> Vec<WsFile> {
        self.files.iter().filter_map(|(n, t)| t.as_ref().map(|t| WsFile { name: n.clone(), text: t.clone() })).collect()
    }
}

fn op_strategy() -> BoxedStrategy<Op> {
    prop_oneof![
        4 => (any::<u16>(), wsgen::file_text(5)).prop_map(|(i, t)| Op::Update(i, t)),
        2 => proptest::collection::vec((any::<u16>(), wsgen::file_text(4)), 1..4).prop_map(Op::BatchUpdate),
        1 => any::<u16>().prop_map(Op::Resubmit),
        3 => any::<u16>().prop_map(Op::Remove),
        2 => any::<u16>().prop_map(Op::Close),
        2 => wsgen::any_file(5).prop_map(Op::Add),
        2 => hist::cfg_strategy().prop_map(Op::Config),
    ]
    .boxed()
}

fn apply(a: &mut EmmyLuaAnalysis, m: &mut Model, cfg: &mut Cfg, op: &Op, bare: bool) {
    let n = m.files.len();
    let name_at = |m: &Model, i: u16| -> Option<String> { if n == 0 { None } else { Some(m.files[idx(i, n)].0.clone()) } };
    match op {
        Op::Update(i, t) => {
            if let Some(name) = name_at(m, *i) {
                a.update_file_by_uri(&hist::uri_of(&name), Some(t.clone()));
                m.set(&name, Some(t.clone()));
            }
        }
        Op::BatchUpdate(v) => {
            let mut batch = vec![];
            let mut seen: Vec<String> = vec![];
            for (i, t) in v {
                if let Some(name) = name_at(m, *i) {
                    if seen.contains(&name) {
                        continue;
                    }
                    seen.push(name.clone());
                    batch.push((hist::uri_of(&name), Some(t.clone())));
                    m.set(&name, Some(t.clone()));
                }
            }
            a.update_files_by_uri(batch);
        }
        Op::Resubmit(i) => {
            if let Some(name) = name_at(m, *i) {
                let text = m.files.iter().find(|e| e.0 == name).and_then(|e| e.1.clone());
                if let Some(t) = text {
                    a.update_file_by_uri(&hist::uri_of(&name), Some(t));
                }
            }
        }
        Op::Remove(i) => {
            if let Some(name) = name_at(m, *i) {
                a.remove_file_by_uri(&hist::uri_of(&name));
                m.remove(&name);
            }
        }
        Op::Close(i) => {
            if let Some(name) = name_at(m, *i) {
                a.update_file_by_uri(&hist::uri_of(&name), None);
                m.set(&name, None);
            }
        }
        Op::Add(f) => {
            a.update_file_by_uri(&hist::uri_of(&f.name), Some(f.text.clone()));
            m.set(&f.name, Some(f.text.clone()));
        }
        Op::Config(c) => {
            *cfg = c.clone();
            a.update_config(c.emmyrc());
            if !bare {
                // what init_analysis does after a configuration change
                let files = m.live().into_iter().map(|f| (hist::base().join(&f.name), Some(f.text))).collect();
                a.reload_workspace_files(files, vec![]);
            }
        }
    }
}

impl Property for C09 {
    type Case = Case;
    type Local = Local;
    fn id(&self) -> &'static str {
        "C09"
    }
    fn rule(&self) -> String {
        "case = generated workspace (2-6 files) x setup x initial config, loaded by one batch update, then 1-15 ops from {Update, BatchUpdate, Resubmit, Remove(remove_file_by_uri), Close(update None), Add(file by name), Config(runtime.version / requirePattern / extensions / strict.* / diagnostics.disable / globals)}, then reindex(); oracle: dump(reindexed) == dump(fresh analysis with the final config set first, surviving files registered in ascending old-file-id order, one batch update); a Vfs model written in the check tracks which files survive and in which id order (and is itself compared with the Vfs listing). Config ops are followed by reload_workspace_files(all files) as init_analysis does (judged); with bare_config the re-submission is omitted and a mismatch is only counted (excluded.bare_config_sequence_differs). Cases whose fresh analysis is not reproducible are excluded (C11). non-trivial = history has a Remove/Close or Config and >=2 files survive; distinct = distinct case digest".into()
    }
    fn cases(&self, tier: Tier) -> u32 {
        tier.pick(5000, 300_000)
    }
    fn strategy(&self, tier: Tier) -> BoxedStrategy<Case> {
        (
            wsgen::workspace(2, 6, tier.pick(5, 8)),
            hist::setup_strategy(),
            prop_oneof![3 => Just(Cfg::base()), 1 => hist::cfg_strategy()],
            proptest::collection::vec(op_strategy(), 1..tier.pick(10, 16)),
            prop_oneof![5 => Just(false), 1 => Just(true)],
        )
            .prop_map(|(ws, setup, cfg, ops, bare_config)| Case { ws, setup, cfg, ops, bare_config })
            .boxed()
    }
    fn simplify(&self, c: &Case) -> Vec<Case> {
        let mut out: Vec<Case> = vec![];
        for i in 0..c.ops.len() {
            let mut ops = c.ops.clone();
            ops.remove(i);
            out.push(Case { ops, ..c.clone() });
        }
        for (i, op) in c.ops.iter().enumerate() {
            match op {
                Op::Update(k, t) => {
                    for t2 in wsgen::simplify_text(t) {
                        let mut ops = c.ops.clone();
                        ops[i] = Op::Update(*k, t2);
                        out.push(Case { ops, ..c.clone() });
                    }
                }
                Op::Add(f) => {
                    for t2 in wsgen::simplify_text(&f.text) {
                        let mut ops = c.ops.clone();
                        ops[i] = Op::Add(WsFile { name: f.name.clone(), text: t2 });
                        out.push(Case { ops, ..c.clone() });
                    }
                }
                Op::BatchUpdate(v) if v.len() > 1 => {
                    for j in 0..v.len() {
                        let mut w = v.clone();
                        w.remove(j);
                        let mut ops = c.ops.clone();
                        ops[i] = Op::BatchUpdate(w);
                        out.push(Case { ops, ..c.clone() });
                    }
                }
                Op::Config(cfg) if *cfg != Cfg::base() => {
                    let mut ops = c.ops.clone();
                    ops[i] = Op::Config(Cfg::base());
                    out.push(Case { ops, ..c.clone() });
                }
                _ => {}
            }
        }
        out.extend(wsgen::simplify(&c.ws, 1).into_iter().map(|ws| Case { ws, ..c.clone() }));
        if c.setup.std || c.setup.lib_root {
            out.push(Case { setup: Setup::default(), ..c.clone() });
        }
        if c.cfg != Cfg::base() {
            out.push(Case { cfg: Cfg::base(), ..c.clone() });
        }
        out
    }
    fn max_shrink_iters(&self, tier: Tier) -> u32 {
        tier.pick(400, 3000)
    }
    fn local(&self) -> Local {
        Local { open: hist::open_sigs("C09") }
    }
    fn check(&self, c: &Case, local: &mut Local, obs: &mut Obs) -> Verdict {
        let v = judge(c, local, obs);
        // A failure that is not a known finding must be reproducible: hash-order dependence inside the
        // analysis (C11) can make one evaluation of a case differ from the next.
        if let Verdict::Fail(f) = &v {
            if !local.open.contains(&f.sig) {
                for _ in 0..2 {
                    let mut scratch = Obs::default();
                    match judge(c, local, &mut scratch) {
                        Verdict::Fail(g) if g.sig == f.sig => {}
                        _ => return Verdict::Skip("unstable_failure(c11)".into()),
                    }
                }
            }
        }
        v
    }
}

fn judge(c: &Case, local: &mut Local, obs: &mut Obs) -> Verdict {
    {
        let r = catch(|| {
            let mut a = hist::new_analysis(&c.cfg, &c.setup);
            hist::load_batch(&mut a, &c.ws.files);
            let mut m = Model::default();
            for f in &c.ws.files {
                m.set(&f.name, Some(f.text.clone()));
            }
            let mut cfg = c.cfg.clone();
            for op in &c.ops {
                apply(&mut a, &mut m, &mut cfg, op, c.bare_config);
            }
            a.reindex();
            let got = hist::dump_of(&a, &[]);
            // the Vfs listing must agree with the model (names in id order)
            let listed: Vec<String> = crate::oracle::dump::live_files(&a)
                .into_iter()
                .filter(|f| !a.compilation.get_db().get_module_index().is_std(f))
                .filter_map(|f| a.compilation.get_db().get_vfs().get_file_path(&f).map(|p| p.strip_prefix(hist::base()).map(|r| r.to_string_lossy().to_string()).unwrap_or_default()))
                .collect();
            let survivors = m.live();
            let fresh = hist::fresh(&cfg, &c.setup, &survivors, false);
            let want = hist::dump_of(&fresh, &[]);
            let det = hist::is_deterministic(&cfg, &c.setup, &survivors, false, &want, 2);
            (got, want, det, listed, survivors)
        });
        let (got, want, det, listed, survivors) = match r {
            Ok(x) => x,
            Err(_) => return Verdict::Skip("analysis-panic(C12)".into()),
        };
        if !det {
            return Verdict::Skip("c11_nondeterministic".into());
        }
        hist::ws_label(&c.ws, obs);
        obs.class_if(c.setup.std, "std");
        obs.class_if(c.setup.lib_root, "lib-root");
        obs.class_if(c.bare_config, "bare-config");
        let mut has_rm = false;
        let mut has_cfg = false;
        for op in &c.ops {
            obs.class(match op {
                Op::Update(..) => "op:update",
                Op::BatchUpdate(_) => "op:batch-update",
                Op::Resubmit(_) => "op:resubmit",
                Op::Remove(_) => {
                    has_rm = true;
                    "op:remove"
                }
                Op::Close(_) => {
                    has_rm = true;
                    "op:close"
                }
                Op::Add(_) => "op:add",
                Op::Config(_) => {
                    has_cfg = true;
                    "op:config"
                }
            });
        }
        obs.class(&format!("survivors:{}", survivors.len().min(6)));
        let names: Vec<String> = survivors.iter().map(|f| f.name.clone()).collect();
        let mut cands = vec![];
        if listed != names {
            cands.push(("vfs-model-mismatch".to_string(), format!("Vfs lists {:?}, the model of the history says {:?}", listed, names)));
        }
        cands.extend(hist::dump_candidates("", &want, &got));
        // the shared classifier names additions-only differences after C08's relation; here they are facts a
        // fresh analysis does not have
        let cands: Vec<(String, String)> = cands.into_iter().map(|(s, m)| (s.replace("resubmit-resolves-more", "extra-facts-after-reindex"), m)).collect();
        if let Some((sig, msg)) = hist::select(cands, &local.open) {
            if c.bare_config && has_cfg {
                return Verdict::Skip("bare_config_sequence_differs".into());
            }
            return Verdict::fail(sig, format!("reindexed analysis differs from a fresh analysis of the same {} files (- fresh, + reindexed) after {:?}:\n{}", names.len(), c.ops, msg));
        }
        obs.class_if(c.bare_config && has_cfg, "bare-config-agrees");
        Verdict::pass((has_rm || has_cfg) && survivors.len() >= 2 && !(c.bare_config && has_cfg))
    }
}
