//! C24 — Every client request gets exactly one response.
use crate::engine::*;
use crate::ls::requests::{malformed, valid_params, METHODS};
use crate::ls::{did_change, did_close, did_open, uri_for, Ls, LsOpts};
use lsp_server::{Message, RequestId};
use proptest::prelude::*;
use serde::{Deserialize, Serialize};
use serde_json::{json, Value};
use std::collections::BTreeMap;

#[derive(Clone, Debug, Serialize, Deserialize)]
pub enum Msg {
    Open(u8, u8),
    Change(u8, u8),
    Close(u8),
    /// method index (METHODS.len() = unknown method), params kind (0 valid, 1.. malformed), doc, line, ch
    Req { method: u8, bad: u8, doc: u8, line: u8, ch: u8 },
    /// cancel the k-th request sent so far (monotone index), or an unknown id when none
    Cancel(u16),
    CancelUnknown,
    Advance(u16),
}

#[derive(Clone, Debug, Serialize, Deserialize)]
pub struct Case {
    pub msgs: Vec<Msg>,
    pub string_ids: bool,
    pub pull: bool,
    pub schedule: Vec<u8>,
    /// Some(k): instead of the in-process sequence, talk to the REAL `emmylua_ls` binary over stdio and send the
    /// `initialize` variant k (the handshake lives in run_ls, outside the in-process surface)
    #[serde(default)]
    pub handshake: Option<u8>,
}

/// `initialize` params variants: 0 well-formed, others do not deserialize or are odd
pub fn initialize_params(k: u8) -> Value {
    match k % 9 {
        0 => json!({"processId": null, "rootUri": null, "capabilities": {}}),
        1 => json!({"processId": null, "rootUri": null, "capabilities": "not-an-object"}),
        2 => json!({"processId": null, "rootUri": null, "capabilities": {"textDocument": 5}}),
        3 => json!({"processId": null, "rootUri": null, "capabilities": {"workspace": {"workspaceFolders": "yes"}}}),
        4 => json!({"processId": "pid", "capabilities": {}}),
        5 => json!([1, 2, 3]),
        6 => Value::Null,
        7 => json!({"capabilities": {}, "workspaceFolders": [{"uri": 1, "name": 2}]}),
        _ => json!({"capabilities": {"general": {"positionEncodings": 7}}}),
    }
}

fn ls_bin() -> std::path::PathBuf {
    let root = std::env::var("VERIF_ROOT").unwrap_or_else(|_| "/verif".into());
    std::path::Path::new(&root).join("harness/target-bins/release/emmylua_ls")
}

/// Sends one framed `initialize` request (id 1) to the real server; returns the number of responses with id 1 seen
/// within the deadline (result xor error each), or Err(text) when a response is malformed.
fn stdio_handshake(k: u8) -> Result<usize, String> {
    use std::io::{Read, Write};
    use std::process::{Command, Stdio};
    let dir = crate::ls::disk::TempWs::new("c24hs");
    let mut child = Command::new(ls_bin())
        .args(["--log-level", "error", "--log-path", "none"])
        .current_dir(&dir.root)
        .stdin(Stdio::piped())
        .stdout(Stdio::piped())
        .stderr(Stdio::null())
        .spawn()
        .map_err(|e| format!("spawn: {e}"))?;
    let body = serde_json::to_string(&json!({"jsonrpc": "2.0", "id": 1, "method": "initialize", "params": initialize_params(k)})).unwrap();
    let mut stdin = child.stdin.take().unwrap();
    let _ = write!(stdin, "Content-Length: {}\r\n\r\n{}", body.len(), body);
    let _ = stdin.flush();
    let mut stdout = child.stdout.take().unwrap();
    let (tx, rx) = std::sync::mpsc::channel::<Vec<u8>>();
    std::thread::spawn(move || {
        let mut buf = [0u8; 4096];
        loop {
            match stdout.read(&mut buf) {
                Ok(0) | Err(_) => break,
                Ok(n) => {
                    if tx.send(buf[..n].to_vec()).is_err() {
                        break;
                    }
                }
            }
        }
    });
    let mut acc: Vec<u8> = vec![];
    let deadline = std::time::Instant::now() + std::time::Duration::from_secs(30);
    let mut responses = 0usize;
    let mut result: Result<(), String> = Ok(());
    'outer: loop {
        // parse complete frames
        loop {
            let text = String::from_utf8_lossy(&acc).to_string();
            let Some(h) = text.find("\r\n\r\n") else { break };
            let len: usize = text[..h].lines().find_map(|l| l.strip_prefix("Content-Length: ").and_then(|x| x.trim().parse().ok())).unwrap_or(0);
            if acc.len() < h + 4 + len {
                break;
            }
            let frame: Vec<u8> = acc[h + 4..h + 4 + len].to_vec();
            acc.drain(..h + 4 + len);
            if let Ok(v) = serde_json::from_slice::<Value>(&frame) {
                if v.get("id") == Some(&json!(1)) && v.get("method").is_none() {
                    responses += 1;
                    if v.get("result").is_some() == v.get("error").is_some() {
                        result = Err(format!("response carries result and error, or neither: {v}"));
                    }
                    // one response seen: wait a little for a (wrong) second one, then stop
                    std::thread::sleep(std::time::Duration::from_millis(150));
                    while let Ok(more) = rx.try_recv() {
                        acc.extend(more);
                    }
                    if acc.is_empty() {
                        break 'outer;
                    }
                }
            }
        }
        match rx.recv_timeout(std::time::Duration::from_millis(200)) {
            Ok(more) => acc.extend(more),
            Err(std::sync::mpsc::RecvTimeoutError::Timeout) => {
                if std::time::Instant::now() > deadline {
                    break;
                }
                if let Ok(Some(_)) = child.try_wait() {
                    // process exited: drain what is left
                    while let Ok(more) = rx.recv_timeout(std::time::Duration::from_millis(100)) {
                        acc.extend(more);
                    }
                    if acc.is_empty() || !String::from_utf8_lossy(&acc).contains("\r\n\r\n") {
                        break;
                    }
                }
            }
            Err(_) => {
                if acc.is_empty() {
                    break;
                }
            }
        }
    }
    drop(stdin);
    let _ = child.kill();
    let _ = child.wait();
    result.map(|_| responses)
}

pub const TEXTS: &[&str] = &[
    "local a = 1\nprint(a)\n",
    "---@class A\n---@field x integer\nlocal A = {}\nfunction A:f(p) return p end\nreturn A\n",
    "local function f(x) return x end\nf(1)\nlocal t = { k = 1 }\nt.k = 2\n",
    "if x then\n  y = 1 -- c\nend",
    "local s = \"é😀\" .. 1\nlocal u = (",
    "",
];

pub struct C24;

fn msg_strategy() -> impl Strategy<Value = Msg> {
    let nm = METHODS.len() as u8;
    prop_oneof![
        2 => (0u8..3, 0u8..TEXTS.len() as u8).prop_map(|(d, t)| Msg::Open(d, t)),
        2 => (0u8..3, 0u8..TEXTS.len() as u8).prop_map(|(d, t)| Msg::Change(d, t)),
        1 => (0u8..3).prop_map(Msg::Close),
        10 => (0u8..=nm, prop_oneof![3 => Just(0u8), 2 => 1u8..5], 0u8..3, 0u8..7, 0u8..14).prop_map(|(method, bad, doc, line, ch)| Msg::Req { method, bad, doc, line, ch }),
        2 => any::<u16>().prop_map(Msg::Cancel),
        1 => Just(Msg::CancelUnknown),
        1 => (0u16..1500).prop_map(Msg::Advance),
    ]
}

fn rid(i: usize, string_ids: bool) -> RequestId {
    if string_ids {
        format!("s{i}").into()
    } else {
        (i as i32 + 1).into()
    }
}

fn rid_json(i: usize, string_ids: bool) -> Value {
    if string_ids {
        json!(format!("s{i}"))
    } else {
        json!(i as i32 + 1)
    }
}

impl Property for C24 {
    type Case = Case;
    type Local = ();
    fn id(&self) -> &'static str {
        "C24"
    }
    fn rule(&self) -> String {
        "cases = sequences of 1-40 client messages over 3 documents played through the real dispatcher in-process (memory connection, current-thread tokio runtime, paused clock): all 38 registered request methods with valid / wrong-type / missing-field / null / scalar params, unknown methods, $/cancelRequest for pending/finished/unknown ids, didOpen/didChange/didClose, virtual-time gaps, numeric or string ids, push or pull diagnostics client, a schedule vector for the task-start/lock scheduling points; oracle = after quiescence each request id has exactly one response and a final sentinel hover is answered; non-trivial = sequence has a malformed-param request or a cancel of an earlier request".into()
    }
    fn assumptions(&self) -> Vec<String> {
        vec![
            "the dispatcher is driven in-process (hook H3) the way ServerMessageProcessor::handle_message does; the stdio framing and the initialize handshake in run_ls are outside this surface".into(),
            "interleavings are explored at await granularity on one thread (hook H4 scheduling points)".into(),
        ]
    }
    fn cases(&self, tier: Tier) -> u32 {
        tier.pick(9000, 150_000)
    }
    fn strategy(&self, tier: Tier) -> BoxedStrategy<Case> {
        (proptest::collection::vec(msg_strategy(), 1..tier.pick(30, 60)), any::<bool>(), any::<bool>(), proptest::collection::vec(any::<u8>(), 0..40))
            .prop_map(|(msgs, string_ids, pull, schedule)| Case { msgs, string_ids, pull, schedule, handshake: None })
            .boxed()
    }
    fn fixed_cases(&self, _tier: Tier) -> Vec<Case> {
        // the stdio handshake variants against the real binary (enumerated, not sampled)
        (0..9u8).map(|k| Case { msgs: vec![], string_ids: false, pull: false, schedule: vec![], handshake: Some(k) }).collect()
    }
    fn on_uncaught_panic(&self, msg: &str) -> Verdict {
        Verdict::fail(format!("panic:{}", panic_site(msg)), format!("a notification handled inline by the main loop panicked: {msg}"))
    }
    fn local(&self) {}
    fn check(&self, c: &Case, _: &mut (), obs: &mut Obs) -> Verdict {
        if let Some(k) = c.handshake {
            if !ls_bin().exists() {
                return Verdict::Skip("emmylua_ls-binary-missing".into());
            }
            obs.class("stdio-handshake");
            return match stdio_handshake(k) {
                Ok(1) => Verdict::pass(k % 9 != 0),
                Ok(n) => Verdict::fail(
                    if n == 0 { "initialize:no-response" } else { "initialize:several-responses" },
                    format!("real emmylua_ls over stdio: initialize with params {} got {n} responses", initialize_params(k)),
                ),
                Err(e) => Verdict::fail("initialize:malformed-response", e),
            };
        }
        let _ = take_panics();
        let mut ls = Ls::new(LsOpts { pull_diagnostics: c.pull, schedule: c.schedule.clone(), ..Default::default() });
        let uris: Vec<_> = (0..3).map(|d| uri_for(&format!("/virtual_c24/doc{d}.lua"))).collect();
        let mut sent: Vec<(RequestId, String, bool)> = vec![]; // id, method, malformed
        let mut version = 1;
        let mut nontrivial = false;
        for m in &c.msgs {
            match m {
                Msg::Open(d, t) => ls.notify("textDocument/didOpen", did_open(&uris[*d as usize], TEXTS[*t as usize])),
                Msg::Change(d, t) => {
                    version += 1;
                    ls.notify("textDocument/didChange", did_change(&uris[*d as usize], version, TEXTS[*t as usize]))
                }
                Msg::Close(d) => ls.notify("textDocument/didClose", did_close(&uris[*d as usize])),
                Msg::Req { method, bad, doc, line, ch } => {
                    let id = rid(sent.len(), c.string_ids);
                    let (name, params) = if (*method as usize) < METHODS.len() {
                        let name = METHODS[*method as usize].name;
                        let v = valid_params(name, &uris[*doc as usize], *line as u32, *ch as u32, *line as u32 + 1, 2);
                        let p = if *bad == 0 { v } else { malformed(&v, *bad - 1) };
                        (name.to_string(), p)
                    } else {
                        ("textDocument/notAMethod".to_string(), json!({}))
                    };
                    if *bad != 0 && (*method as usize) < METHODS.len() {
                        nontrivial = true;
                        obs.class("malformed-params");
                    }
                    obs.class_if((*method as usize) >= METHODS.len(), "unknown-method");
                    sent.push((id.clone(), name.clone(), *bad != 0));
                    ls.request(id, &name, params);
                }
                Msg::Cancel(k) => {
                    if sent.is_empty() {
                        ls.notify("$/cancelRequest", json!({"id": 424242}));
                    } else {
                        let i = crate::gens::util::idx(*k, sent.len());
                        ls.notify("$/cancelRequest", json!({"id": rid_json(i, c.string_ids)}));
                        nontrivial = true;
                        obs.class("cancel-earlier");
                    }
                }
                Msg::CancelUnknown => ls.notify("$/cancelRequest", json!({"id": "never-sent"})),
                Msg::Advance(ms) => ls.advance(*ms as u64),
            }
        }
        // sentinel: the server keeps serving
        let sentinel = rid(sent.len() + 1000, c.string_ids);
        ls.notify("textDocument/didOpen", did_open(&uris[0], TEXTS[0]));
        ls.request(sentinel.clone(), "textDocument/hover", valid_params("textDocument/hover", &uris[0], 0, 6, 0, 6));
        ls.settle();
        let mut counts: BTreeMap<String, usize> = BTreeMap::new();
        for m in &ls.received {
            if let Message::Response(r) = m {
                *counts.entry(r.id.to_string()).or_default() += 1;
                if r.result.is_some() && r.error.is_some() {
                    return Verdict::fail("result-and-error", format!("response {} carries both result and error", r.id));
                }
            }
        }
        let panics = take_panics();
        obs.class(if c.pull { "pull-client" } else { "push-client" });
        obs.count("requests", sent.len() as u64);
        for (id, method, bad) in &sent {
            let n = counts.get(&id.to_string()).copied().unwrap_or(0);
            if n != 1 {
                let sig = if n == 0 {
                    if let Some(p) = panics.first() {
                        format!("no-response:panic:{}", panic_site(p))
                    } else if *bad {
                        "no-response:malformed-params".to_string()
                    } else {
                        format!("no-response:{method}")
                    }
                } else {
                    format!("{n}-responses:{method}")
                };
                return Verdict::fail(sig, format!("request id {id} ({method}, malformed={bad}) got {n} responses; panics={panics:?}"));
            }
        }
        if counts.get(&sentinel.to_string()).copied().unwrap_or(0) != 1 {
            return Verdict::fail("sentinel-unanswered", format!("final hover not answered exactly once; panics={panics:?}"));
        }
        let known: std::collections::BTreeSet<String> = sent.iter().map(|s| s.0.to_string()).chain(std::iter::once(sentinel.to_string())).collect();
        for k in counts.keys() {
            if !known.contains(k) {
                return Verdict::fail("response-to-unknown-id", format!("response for id {k} that was never requested"));
            }
        }
        Verdict::pass(nontrivial)
    }
}
