//! C38 — Concurrent read-only queries are race-free.
use crate::engine::*;
use crate::gens::workspace::{self, Workspace};
use emmylua_parser::LuaAstNode;
use emmylua_code_analysis::{humanize_type, DiagnosticCode, EmmyLuaAnalysis, Emmyrc, FileId, RenderLevel, VirtualUrlGenerator};
use proptest::prelude::*;
use serde::{Deserialize, Serialize};
use std::marker::PhantomData;
use std::sync::{Arc, Barrier};
use tokio_util::sync::CancellationToken;

#[derive(Clone, Debug, Serialize, Deserialize)]
pub struct Case {
    pub ws: Workspace,
    pub threads: u8,
    /// per-thread rotation/stride of the query list
    pub plan: Vec<(u8, u8)>,
    pub std: bool,
}

pub struct C38;

// ---- static census: is T Send + Sync on its own?  (inherent-method-over-trait-method trick: no compile error) ----
struct Probe<T>(PhantomData<T>);
trait Fallback {
    fn send_sync(&self) -> bool {
        false
    }
}
impl<T> Fallback for Probe<T> {}
impl<T: Send + Sync> Probe<T> {
    #[allow(dead_code)]
    fn send_sync(&self) -> bool {
        true
    }
}
macro_rules! census {
    ($($t:ty),* $(,)?) => {
        vec![$((stringify!($t), Probe::<$t>(PhantomData).send_sync())),*]
    };
}

pub fn census() -> Vec<(&'static str, bool)> {
    use emmylua_code_analysis::*;
    census![
        LuaCompilation,
        LuaDiagnostic,
        Emmyrc,
        DbIndex,
        Vfs,
        LuaDeclIndex,
        LuaReferenceIndex,
        LuaTypeIndex,
        LuaModuleIndex,
        LuaMemberIndex,
        LuaPropertyIndex,
        LuaSignatureIndex,
        DiagnosticIndex,
        LuaOperatorIndex,
        LuaFlowIndex,
        LuaDependencyIndex,
        LuaMetatableIndex,
        LuaGlobalIndex,
        JsonSchemaIndex,
        LuaType,
        LuaDecl,
        LuaMember,
        LuaSignature,
        LuaTypeDecl,
        FlowTree,
        emmylua_parser::LuaSyntaxTree,
    ]
}

fn query(a: &EmmyLuaAnalysis, id: FileId, kind: u8) -> String {
    match kind % 3 {
        0 => {
            let mut d: Vec<String> = a
                .diagnose_file(id, CancellationToken::new())
                .unwrap_or_default()
                .iter()
                .map(|d| format!("{}:{}-{}:{} {:?} {}", d.range.start.line, d.range.start.character, d.range.end.line, d.range.end.character, d.code, d.message))
                .collect();
            d.sort();
            d.join("\n")
        }
        1 => {
            let Some(model) = a.compilation.get_semantic_model(id) else { return String::new() };
            let db = model.get_db();
            let root = model.get_root().syntax().clone();
            let mut out = String::new();
            for (n, el) in root.descendants_with_tokens().enumerate() {
                if n > 3000 {
                    break;
                }
                if let rowan::NodeOrToken::Token(t) = el {
                    if t.text().trim().is_empty() {
                        continue;
                    }
                    if let Some(info) = model.get_semantic_info(rowan::NodeOrToken::Token(t.clone())) {
                        out.push_str(&format!("{}:{} ", usize::from(t.text_range().start()), humanize_type(db, &info.typ, RenderLevel::Simple)));
                    }
                }
            }
            out
        }
        _ => {
            let Some(model) = a.compilation.get_semantic_model(id) else { return String::new() };
            let db = model.get_db();
            let mut out = String::new();
            use emmylua_parser::LuaExpr;
            for (k, e) in model.get_root().descendants::<LuaExpr>().enumerate() {
                if k > 600 {
                    break;
                }
                match model.infer_expr(e) {
                    Ok(t) => out.push_str(&humanize_type(db, &t, RenderLevel::Detailed)),
                    Err(_) => out.push('!'),
                }
                out.push(';');
            }
            out
        }
    }
}

impl Property for C38 {
    type Case = Case;
    type Local = ();
    fn id(&self) -> &'static str {
        "C38"
    }
    fn rule(&self) -> String {
        "dynamic part: cases = generated multi-file workspaces (3-8 files; classes split across files, require cycles, conflicting globals; std lib on for 1 in 4) analysed once into ONE shared EmmyLuaAnalysis, x T in {2,4,8,16} threads released together by a barrier, each running the full list of (file, query) with query in {diagnose_file with all codes, semantic info + rendered type of every token, infer_expr + rendered type of every expression} in its own rotation/stride order on the shared &EmmyLuaAnalysis; oracle = every concurrent result equals the sequential result computed beforehand on the same object (cases whose two sequential runs already differ are excluded: that is C11); static part (evidence key send_sync_census, evaluated at compile time without failing the build): whether each component type of the analysis is Send + Sync on its own; a component that is not is reported as a violation; non-trivial = >=2 threads querying the same file and >=1 symbol shared across files".into()
    }
    fn assumptions(&self) -> Vec<String> {
        vec![
            "a data race that does not change results is invisible to the differential; only the Send/Sync census speaks to it (TSan build of the whole dependency tree was not attempted)".into(),
            "thread schedules are whatever the OS produces under a start barrier; they are not enumerated".into(),
        ]
    }
    fn cases(&self, tier: Tier) -> u32 {
        tier.pick(1200, 20_000)
    }
    fn shards(&self, _tier: Tier) -> usize {
        4
    }
    fn strategy(&self, _tier: Tier) -> BoxedStrategy<Case> {
        (workspace::workspace(3, 8, 6), prop_oneof![Just(2u8), Just(4u8), Just(8u8), Just(16u8)], proptest::collection::vec((any::<u8>(), 1u8..7), 16), proptest::bool::weighted(0.25))
            .prop_map(|(ws, threads, plan, std)| Case { ws, threads, plan, std })
            .boxed()
    }
    fn simplify(&self, c: &Case) -> Vec<Case> {
        workspace::simplify(&c.ws, 1).into_iter().map(|ws| Case { ws, ..c.clone() }).collect()
    }
    fn local(&self) {}
    fn fixed_cases(&self, _tier: Tier) -> Vec<Case> {
        vec![]
    }
    fn check(&self, c: &Case, _: &mut (), obs: &mut Obs) -> Verdict {
        // static census first (cheap, same for every case)
        for (name, ok) in census() {
            obs.class(&format!("census:{name}:{}", if ok { "Send+Sync" } else { "NOT Send+Sync" }));
            if !ok {
                return Verdict::fail(format!("not-send-sync:{name}"), format!("component type {name} is not Send + Sync on its own: sharing the analysis across threads relies on the unsafe impl for EmmyLuaAnalysis"));
            }
        }
        let mut a = EmmyLuaAnalysis::new();
        let mut e = Emmyrc::default();
        e.diagnostics.enables = DiagnosticCode::all().to_vec();
        a.update_config(Arc::new(e));
        if c.std {
            a.init_std_lib(None);
        }
        let urls = VirtualUrlGenerator::new();
        a.add_main_workspace(urls.base.clone());
        let files: Vec<_> = c.ws.files.iter().map(|f| (urls.new_uri(&f.name), Some(f.text.clone()))).collect();
        let mut ids = a.update_files_by_uri(files);
        ids.sort();
        if ids.is_empty() {
            return Verdict::Skip("no-files".into());
        }
        let queries: Vec<(FileId, u8)> = ids.iter().flat_map(|id| (0..3u8).map(move |k| (*id, k))).collect();
        let seq1: Vec<String> = match catch(|| queries.iter().map(|(id, k)| query(&a, *id, *k)).collect()) {
            Ok(v) => v,
            Err(m) => return Verdict::Skip(format!("panic(C12):{}", panic_site(&m))),
        };
        let seq2: Vec<String> = match catch(|| queries.iter().map(|(id, k)| query(&a, *id, *k)).collect()) {
            Ok(v) => v,
            Err(m) => return Verdict::Skip(format!("panic(C12):{}", panic_site(&m))),
        };
        if seq1 != seq2 {
            return Verdict::Skip("sequentially-nondeterministic(C11)".into());
        }
        let t = c.threads.max(2) as usize;
        obs.class(&format!("threads:{t}"));
        obs.class_if(c.std, "std-lib");
        let barrier = Barrier::new(t);
        let a_ref = &a;
        let q_ref = &queries;
        let results: Vec<Result<Vec<(usize, String)>, String>> = std::thread::scope(|s| {
            let hs: Vec<_> = (0..t)
                .map(|ti| {
                    let (rot, stride) = c.plan[ti % c.plan.len()];
                    let barrier = &barrier;
                    std::thread::Builder::new()
                        .stack_size(16 << 20)
                        .spawn_scoped(s, move || {
                            let n = q_ref.len();
                            // a permutation by rotation + stride coprime with n
                            let mut st = stride as usize % n.max(1);
                            if st == 0 {
                                st = 1;
                            }
                            while gcd(st, n) != 1 {
                                st += 1;
                            }
                            barrier.wait();
                            catch(|| {
                                (0..n)
                                    .map(|j| {
                                        let qi = (rot as usize + j * st) % n;
                                        let (id, k) = q_ref[qi];
                                        (qi, query(a_ref, id, k))
                                    })
                                    .collect::<Vec<_>>()
                            })
                        })
                        .expect("spawn")
                })
                .collect();
            hs.into_iter().map(|h| h.join().unwrap_or_else(|_| Err("thread panicked".into()))).collect()
        });
        for (ti, r) in results.iter().enumerate() {
            match r {
                Err(m) => return Verdict::fail(format!("concurrent-panic:{}", panic_site(m)), format!("thread {ti} panicked during concurrent queries although the sequential run was fine: {m}")),
                Ok(v) => {
                    for (qi, got) in v {
                        if *got != seq1[*qi] {
                            let (id, k) = queries[*qi];
                            let kind = ["diagnose_file", "semantic-info", "infer_expr"][k as usize % 3];
                            return Verdict::fail(
                                format!("concurrent-result-differs:{kind}"),
                                format!("thread {ti} of {t}: {kind} of file {:?} differs from the sequential result on the same analysis object; sequential: {} ; concurrent: {}", id, one_line(&seq1[*qi], 300), one_line(got, 300)),
                            );
                        }
                    }
                }
            }
        }
        let shared = !workspace::shared_symbols(&c.ws).is_empty();
        Verdict::pass(shared)
    }
}

fn gcd(a: usize, b: usize) -> usize {
    if b == 0 {
        a
    } else {
        gcd(b, a % b)
    }
}
