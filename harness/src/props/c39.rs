//! C39 — In-place formatting never leaves a truncated file (fault enumeration over `luafmt --write`).
use crate::engine::*;
use crate::ls::disk::TempWs;
use proptest::prelude::*;
use serde::{Deserialize, Serialize};
use std::path::{Path, PathBuf};
use std::process::{Command, Stdio};

#[derive(Clone, Debug, Serialize, Deserialize)]
pub struct FileSpec {
    /// 0 = unformatted valid code, 1 = already formatted, 2 = syntax error, 3 = large unformatted
    pub kind: u8,
    pub stmts: u16,
}

#[derive(Clone, Debug, Serialize, Deserialize)]
pub struct Case {
    pub files: Vec<FileSpec>,
    pub sub_dir: bool,
}

pub struct C39;

/// (syscall, faults) enumerated at every occurrence k of that syscall in the traced run
const PLAN: &[(&str, &[&str])] = &[
    ("write", &["error=ENOSPC", "error=EFBIG", "error=EIO", "error=EDQUOT", "signal=KILL"]),
    ("openat", &["error=ENOSPC", "error=EACCES", "signal=KILL"]),
    ("rename", &["error=EIO", "error=ENOSPC", "signal=KILL"]),
    ("renameat", &["error=EIO", "signal=KILL"]),
    ("renameat2", &["error=EIO", "signal=KILL"]),
    ("fsync", &["error=EIO", "signal=KILL"]),
    ("fdatasync", &["error=EIO", "signal=KILL"]),
    ("ftruncate", &["error=EIO", "signal=KILL"]),
    ("fchmod", &["error=EPERM", "signal=KILL"]),
    ("chmod", &["error=EPERM", "signal=KILL"]),
    ("close", &["signal=KILL"]),
    ("unlink", &["signal=KILL"]),
    ("unlinkat", &["signal=KILL"]),
];

fn luafmt() -> PathBuf {
    let root = std::env::var("VERIF_ROOT").unwrap_or_else(|_| "/verif".into());
    Path::new(&root).join("harness/target-bins/release/luafmt")
}

fn content(i: usize, f: &FileSpec) -> String {
    let n = match f.kind % 4 {
        3 => 400 + f.stmts as usize * 8,
        _ => 1 + f.stmts as usize % 40,
    };
    let mut s = String::new();
    for k in 0..n {
        match f.kind % 4 {
            1 => s.push_str(&format!("local v{i}_{k} = {k}\n")),
            2 if k == n / 2 => s.push_str("local = = (\n"),
            _ => s.push_str(&format!("local   v{i}_{k}={k}+   {i}  ;  t{k}={{a=1,b   =2}}\n")),
        }
    }
    s
}

fn names(c: &Case) -> Vec<String> {
    c.files.iter().enumerate().map(|(i, _)| if c.sub_dir && i % 2 == 1 { format!("sub/f{i}.lua") } else { format!("f{i}.lua") }).collect()
}

fn populate(ws: &TempWs, c: &Case) -> Vec<Vec<u8>> {
    ws.clear();
    let mut out = vec![];
    for (i, (f, name)) in c.files.iter().zip(names(c)).enumerate() {
        let t = content(i, f);
        ws.write(&name, &t);
        out.push(t.into_bytes());
    }
    out
}

fn read_all(ws: &TempWs, c: &Case) -> Vec<Option<Vec<u8>>> {
    names(c).iter().map(|n| std::fs::read(ws.path(n)).ok()).collect()
}

fn run_plain(ws: &TempWs) -> bool {
    Command::new(luafmt()).arg("--write").arg(&ws.root).stdin(Stdio::null()).stdout(Stdio::null()).stderr(Stdio::null()).status().is_ok()
}

/// number of calls of `syscall` in an unfaulted run (strace -c style count from a trace log)
fn count_calls(ws: &TempWs, syscall: &str, log: &Path) -> Option<usize> {
    let _ = std::fs::remove_file(log);
    let st = Command::new("strace")
        .args(["-f", "-qq", "-e", &format!("trace={syscall}"), "-o"])
        .arg(log)
        .arg(luafmt())
        .arg("--write")
        .arg(&ws.root)
        .stdin(Stdio::null())
        .stdout(Stdio::null())
        .stderr(Stdio::null())
        .status()
        .ok()?;
    let _ = st;
    let text = std::fs::read_to_string(log).ok()?;
    Some(text.lines().filter(|l| l.contains(&format!("{syscall}("))).count())
}

fn run_faulted(ws: &TempWs, syscall: &str, fault: &str, k: usize) -> bool {
    Command::new("strace")
        .args(["-f", "-qq", "-o", "/dev/null", "-e", &format!("trace={syscall}"), "-e", &format!("inject={syscall}:{fault}:when={k}")])
        .arg(luafmt())
        .arg("--write")
        .arg(&ws.root)
        .stdin(Stdio::null())
        .stdout(Stdio::null())
        .stderr(Stdio::null())
        .status()
        .is_ok()
}

impl Property for C39 {
    type Case = Case;
    type Local = (TempWs, TempWs);
    fn id(&self) -> &'static str {
        "C39"
    }
    fn level(&self) -> &'static str {
        "fault_enumeration"
    }
    fn rule(&self) -> String {
        "cases = scratch directories with 1-5 Lua files (unformatted / already formatted / syntax error / large) x the real `luafmt --write <dir>` binary built from /repo; per directory the run is traced with strace to count every write/openat/rename*/fsync/fdatasync/ftruncate/fchmod/chmod/close/unlink* call, then for EVERY occurrence k of each call the binary is re-run on a pristine copy with one injected fault at exactly that call (strace -e inject=...:when=k): error results ENOSPC/EFBIG/EIO/EDQUOT/EACCES/EPERM as applicable, and SIGKILL on entering the call (crash point); oracle = after each faulted run every target file holds either its complete original bytes or its complete formatted bytes; evaluations = directories (the number of faulted runs is in counters.faulted-runs); non-trivial = the directory has a file whose formatted content differs from the original, distinct by (directory digest)".into()
    }
    fn assumptions(&self) -> Vec<String> {
        vec![
            "faults are injected at system-call granularity with strace (ptrace); a power loss between rename and directory sync is not modelled".into(),
            "stray temporary files left by a crash are allowed (they are not targets)".into(),
        ]
    }
    fn cases(&self, tier: Tier) -> u32 {
        tier.pick(16, 120)
    }
    fn strategy(&self, _tier: Tier) -> BoxedStrategy<Case> {
        (proptest::collection::vec((prop_oneof![3 => Just(0u8), 1 => Just(1u8), 1 => Just(2u8), 1 => Just(3u8)], 0u16..60).prop_map(|(kind, stmts)| FileSpec { kind, stmts }), 1..5), any::<bool>())
            .prop_map(|(files, sub_dir)| Case { files, sub_dir })
            .boxed()
    }
    fn max_shrink_iters(&self, _tier: Tier) -> u32 {
        12
    }
    fn local(&self) -> (TempWs, TempWs) {
        (TempWs::new("c39"), TempWs::new("c39log"))
    }
    fn check(&self, c: &Case, (ws, logs): &mut (TempWs, TempWs), obs: &mut Obs) -> Verdict {
        if !luafmt().exists() {
            return Verdict::Skip("luafmt-binary-missing".into());
        }
        // baseline: what a clean run produces
        let original = populate(ws, c);
        if !run_plain(ws) {
            return Verdict::Skip("luafmt-does-not-start".into());
        }
        let formatted: Vec<Vec<u8>> = read_all(ws, c).into_iter().map(|x| x.unwrap_or_default()).collect();
        let differs = original.iter().zip(&formatted).any(|(a, b)| a != b);
        obs.class_if(differs, "formatting-changes-a-file");
        obs.class_if(c.files.iter().any(|f| f.kind % 4 == 2), "has-syntax-error-file");
        obs.class_if(c.files.iter().any(|f| f.kind % 4 == 3), "has-large-file");
        let log = logs.path("trace.log");
        let mut runs = 0u64;
        for (syscall, faults) in PLAN {
            populate(ws, c);
            let Some(n) = count_calls(ws, syscall, &log) else {
                return Verdict::Skip("strace-unavailable".into());
            };
            obs.count(&format!("calls:{syscall}"), n as u64);
            for k in 1..=n {
                for fault in *faults {
                    populate(ws, c);
                    if !run_faulted(ws, syscall, fault, k) {
                        return Verdict::Skip("strace-unavailable".into());
                    }
                    runs += 1;
                    let after = read_all(ws, c);
                    for (i, got) in after.iter().enumerate() {
                        let ok = match got {
                            Some(bytes) => *bytes == original[i] || *bytes == formatted[i],
                            None => false,
                        };
                        if !ok {
                            let state = match got {
                                None => "missing".to_string(),
                                Some(b) if b.is_empty() => "empty".to_string(),
                                Some(b) if original[i].starts_with(b) || formatted[i].starts_with(b) => format!("truncated to {} of {} bytes", b.len(), formatted[i].len()),
                                Some(b) => format!("corrupt ({} bytes)", b.len()),
                            };
                            let kind = if fault.starts_with("signal") { "crash" } else { "error" };
                            return Verdict::fail(
                                format!("target-file-damaged:{kind}-at-{syscall}"),
                                format!("after `luafmt --write` with {fault} injected at {syscall} call #{k}, file {} is {state} (original {} bytes, formatted {} bytes)", names(c)[i], original[i].len(), formatted[i].len()),
                            );
                        }
                    }
                }
            }
        }
        obs.count("faulted-runs", runs);
        Verdict::pass(differs)
    }
}
