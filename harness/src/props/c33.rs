//! C33 — require paths resolve to the files the configured patterns select.
use crate::engine::*;
use crate::gens::util;
use crate::oracle::modres::{self, Cfg, FileNames, MapRule};
use emmylua_code_analysis::{file_path_to_uri, EmmyLuaAnalysis, Emmyrc, LuaType, WorkspaceFolder};
use emmylua_parser::{LuaAstNode, LuaCallExpr, LuaExpr};
use proptest::prelude::*;
use serde::{Deserialize, Serialize};
use std::path::PathBuf;
use std::sync::Arc;

#[derive(Clone, Debug, Serialize, Deserialize)]
pub enum Op {
    /// batch load/update (the server's workspace load and watched-files path)
    Load(Vec<u16>),
    /// single-file update (didOpen/didChange path)
    Update(u16),
    /// remove; `true` = through `update_file_by_uri(uri, None)`, `false` = `remove_file_by_uri`
    Remove(u16, bool),
    Reindex,
}

#[derive(Clone, Debug, Serialize, Deserialize)]
pub struct Case {
    /// extra roots besides the main root `/ws`: (path, is_library)
    pub roots: Vec<(String, bool)>,
    pub extensions: Vec<String>,
    pub require_pattern: Vec<String>,
    /// (prefix rule?, old, new)
    pub module_map: Vec<(bool, String, String)>,
    pub strict: bool,
    /// absolute file paths (distinct)
    pub files: Vec<String>,
    pub ops: Vec<Op>,
    /// query recipes: (file pick, transform, amount)
    pub queries: Vec<(u16, u8, u8)>,
}

pub struct C33;

const MAIN: &str = "/ws";
const EXTRA_ROOTS: &[(&str, bool)] = &[("/ws/src", false), ("/other", false), ("/ws/vendor", true), ("/libs/x", true), ("/ws/src/lib", true)];
const DIRS: &[&str] = &["", "", "a", "a/b", "b", "src", "src/a", "vendor", "vendor/a", "lib", "lib/a", "script", "script/a", "old"];
const NAMES: &[&str] = &["m", "n", "init", "a", "b", "lib", "main", "old", "script"];
const FORMS: &[&str] = &[".lua", ".lua", ".lua", "/init.lua", "/init.lua", ".lua.txt", ".luau", ".txt", "/main.lua", "/init.lua.txt"];
const EXT_CFGS: &[&[&str]] = &[&[], &[], &[".lua.txt"], &["*.luau"], &["txt", ".lua.txt"], &[".lua"]];
const PATTERN_CFGS: &[&[&str]] = &[&[], &[], &[], &["?.lua", "?/init.lua"], &["?/init.lua", "src/?.lua"], &["?/main.lua"], &["lib/?/init.lua", "?/init.lua"], &["?.lua"]];
const JUNK_QUERIES: &[&str] = &["", ".", "zz", "a..b", ".a", "a.", "zz.m", "m.zz", "init", "a.init", "lib", "lua", "m.lua", "a/b/m", "a\\b\\m", "A.M", "ab", "script.a.m", "lib.a.m", "old", "new"];

fn map_rules() -> BoxedStrategy<Vec<(bool, String, String)>> {
    // rule outputs never match another rule's pattern, so chained and first-match application agree
    let rule = prop_oneof![
        Just((true, "lib".to_string(), "script".to_string())),
        Just((true, "old".to_string(), "mapped".to_string())),
        Just((false, "old".to_string(), "a.m".to_string())),
        Just((false, "old.m".to_string(), "a.b.m".to_string())),
        Just((true, "vendor.".to_string(), "".to_string())),
    ];
    prop_oneof![1 => Just(vec![]), 1 => proptest::collection::vec(rule, 1..3)].boxed()
}

fn sel(items: &'static [&'static [&'static str]]) -> BoxedStrategy<Vec<String>> {
    (0..items.len()).prop_map(move |i| items[i].iter().map(|s| s.to_string()).collect()).boxed()
}

impl Case {
    fn cfg(&self) -> Cfg {
        Cfg {
            extensions: self.extensions.clone(),
            require_pattern: self.require_pattern.clone(),
            module_map: self
                .module_map
                .iter()
                .map(|(pre, old, new)| if *pre { MapRule::Prefix { old: old.clone(), new: new.clone() } } else { MapRule::Exact { old: old.clone(), new: new.clone() } })
                .collect(),
            strict: self.strict,
        }
    }
    fn root_paths(&self) -> Vec<String> {
        let mut v = vec![MAIN.to_string()];
        v.extend(self.roots.iter().map(|r| r.0.clone()));
        v
    }
    fn emmyrc(&self) -> Emmyrc {
        let cfg = self.cfg();
        let mut e = Emmyrc::default();
        e.runtime.extensions = self.extensions.clone();
        e.runtime.require_pattern = self.require_pattern.clone();
        e.strict.require_path = self.strict;
        let mm: Vec<serde_json::Value> = cfg.module_map.iter().map(|r| r.to_config()).map(|(p, r)| serde_json::json!({"pattern": p, "replace": r})).collect();
        e.workspace.module_map = serde_json::from_value(serde_json::Value::Array(mm)).unwrap_or_default();
        e
    }
    /// concrete require strings
    fn query_strings(&self, names: &[FileNames]) -> Vec<String> {
        let mut out = vec![];
        for (pick, tr, amt) in &self.queries {
            if names.is_empty() || *tr >= 10 {
                out.push(JUNK_QUERIES[util::idx(*pick, JUNK_QUERIES.len())].to_string());
                continue;
            }
            let f = &names[util::idx(*pick, names.len())];
            let all: Vec<&String> = f.any.iter().collect();
            let base: String = match (tr % 2, &f.primary) {
                (0, Some(p)) => p.clone(),
                _ if !all.is_empty() => all[(*amt as usize) % all.len()].clone(),
                _ => "zz".into(),
            };
            let segs: Vec<&str> = base.split('.').collect();
            let q = match tr {
                0 | 1 => base.clone(),
                2 | 3 => base.replace('.', "/"),
                // proper suffix (fuzzy)
                4 | 5 => {
                    let k = 1 + (*amt as usize) % segs.len().max(1);
                    segs[k.min(segs.len() - 1)..].join(".")
                }
                // un-mapped spelling of a mapped name
                6 => {
                    let mut s = base.clone();
                    for (pre, old, new) in &self.module_map {
                        if *pre && !new.is_empty() && s.starts_with(new.as_str()) {
                            s = format!("{old}{}", &s[new.len()..]);
                        } else if !*pre && s == *new {
                            s = old.clone();
                        }
                    }
                    s
                }
                7 => format!("zz.{base}"),
                8 => format!("{base}.zz"),
                _ => base.replace('.', "\\"),
            };
            out.push(q);
        }
        out.sort();
        out.dedup();
        out
    }
}

type Answers = Vec<Vec<Option<usize>>>;

struct Run {
    /// per step (op), per query: index of the resolved file
    answers: Answers,
    /// after the history: for each query the integer the inferred `require` type carries (module files `return 1000+idx`)
    types: Vec<Option<Result<i64, String>>>,
    /// targeted removal: for each query (first few), answer after removing the chosen file
    after_removal: Vec<(usize, usize, Option<usize>)>,
}

fn content(i: usize) -> String {
    format!("return {}\n", 1000 + i)
}

fn run_history(c: &Case, queries: &[String], reverse_batches: bool, with_probe: bool) -> Result<Run, String> {
    let mut a = EmmyLuaAnalysis::new();
    a.update_config(Arc::new(c.emmyrc()));
    a.add_main_workspace(PathBuf::from(MAIN));
    for (r, lib) in &c.roots {
        if *lib {
            a.add_library_workspace(&WorkspaceFolder::new(PathBuf::from(r), true));
        } else {
            a.add_main_workspace(PathBuf::from(r));
        }
    }
    let uris: Vec<_> = c.files.iter().map(|p| file_path_to_uri(&PathBuf::from(p))).collect();
    if uris.iter().any(|u| u.is_none()) {
        return Err("uri".into());
    }
    let uris: Vec<_> = uris.into_iter().map(|u| u.unwrap()).collect();
    let n = c.files.len();
    let mut present = vec![false; n];
    let ask = |a: &EmmyLuaAnalysis, q: &str| -> Option<usize> {
        let db = a.compilation.get_db();
        let info = db.get_module_index().find_module(q)?;
        let path = db.get_vfs().get_file_path(&info.file_id)?;
        let p = path.to_string_lossy().to_string();
        Some(c.files.iter().position(|f| *f == p).unwrap_or(usize::MAX))
    };
    let mut answers = vec![];
    for op in &c.ops {
        match op {
            Op::Load(v) => {
                let mut idxs: Vec<usize> = vec![];
                for r in v {
                    let i = util::idx(*r, n);
                    if !idxs.contains(&i) {
                        idxs.push(i);
                    }
                }
                if reverse_batches {
                    idxs.reverse();
                }
                let batch = idxs.iter().map(|i| (uris[*i].clone(), Some(content(*i)))).collect();
                a.update_files_by_uri(batch);
                idxs.iter().for_each(|i| present[*i] = true);
            }
            Op::Update(r) => {
                let i = util::idx(*r, n);
                a.update_file_by_uri(&uris[i], Some(content(i)));
                present[i] = true;
            }
            Op::Remove(r, by_update) => {
                let i = util::idx(*r, n);
                if present[i] {
                    if *by_update {
                        a.update_file_by_uri(&uris[i], None);
                    } else {
                        a.remove_file_by_uri(&uris[i]);
                    }
                    present[i] = false;
                }
            }
            Op::Reindex => a.reindex(),
        }
        answers.push(queries.iter().map(|q| ask(&a, q)).collect());
    }
    let mut types = vec![];
    let mut after_removal = vec![];
    if with_probe {
        // inferred module type of `require(q)` in a fresh file agrees with find_module
        let mut src = String::new();
        for q in queries {
            src.push_str(&format!("local _ = require({})\n", crate::gens::configs::lua_string(q)));
        }
        let probe_uri = file_path_to_uri(&PathBuf::from("/ws/zz__probe.lua")).ok_or("uri")?;
        if let Some(fid) = a.update_file_by_uri(&probe_uri, Some(src)) {
            if let Some(model) = a.compilation.get_semantic_model(fid) {
                let calls: Vec<LuaCallExpr> = model.get_root().descendants::<LuaCallExpr>().collect();
                for call in calls.into_iter().take(queries.len()) {
                    let t = model.infer_expr(LuaExpr::CallExpr(call));
                    types.push(Some(match t {
                        Ok(LuaType::IntegerConst(n)) | Ok(LuaType::DocIntegerConst(n)) => Ok(n),
                        Ok(other) => Err(format!("{other:?}")),
                        Err(e) => Err(format!("err:{e:?}")),
                    }));
                }
            }
        }
        a.remove_file_by_uri(&probe_uri);
        // targeted removal of the chosen file
        for (qi, q) in queries.iter().enumerate().take(3) {
            if let Some(f) = ask(&a, q) {
                if f < n && present[f] {
                    a.remove_file_by_uri(&uris[f]);
                    let after = ask(&a, q);
                    after_removal.push((qi, f, after));
                    // put it back through the single-file path
                    a.update_file_by_uri(&uris[f], Some(content(f)));
                }
            }
        }
    }
    Ok(Run { answers, types, after_removal })
}

impl Property for C33 {
    type Case = Case;
    type Local = ();
    fn id(&self) -> &'static str {
        "C33"
    }
    fn rule(&self) -> String {
        "cases = virtual workspace with main root /ws + 0-2 extra roots (second main root, library roots nested under the main root or outside) x 2-9 files (nested dirs, init files, several extensions, duplicates of one module name across roots/patterns, files outside every root) x runtime.extensions x runtime.requirePattern x workspace.moduleMap (prefix/exact rewrite rules) x strict.requirePath x a history of batch loads, single updates, removals (both APIs) and reindex x require strings derived from the files' module names (dotted, slashed, back-slashed, proper suffixes, un-mapped spellings, extra leading/trailing segment) plus junk; after every step every require string is judged against the reference resolver (must resolve when a file's primary name matches exactly / through moduleMap / by suffix with fuzzy on; the answer must be an allowed candidate; exact before fuzzy; fewest leading segments), 10 fresh analyses replay the history and must answer identically, the chosen file is removed and the answer must move to another allowed candidate or none, and the inferred type of require(..) must be the chosen file's return value; non-trivial = some judged query had >=2 allowed candidates, or needed moduleMap or fuzzy matching, or followed a removal of a file that was its answer; distinct = distinct case digest".into()
    }
    fn assumptions(&self) -> Vec<String> {
        vec![
            "where the documentation is silent the model is permissive: any (root, pattern) reading of a file is an acceptable name; only the nearest-root/most-literal-pattern name is demanded to resolve".into(),
            "dependence of the choice among duplicates on load order is counted (counter dup-choice-differs-when-batches-reversed), not judged: the statement asks for determinism, which is checked as same history => same answers over fresh analyses".into(),
            "go-to-definition on the require string is checked by the LSP-layer properties, not here".into(),
        ]
    }
    fn cases(&self, tier: Tier) -> u32 {
        tier.pick(16_000, 500_000)
    }
    fn strategy(&self, _tier: Tier) -> BoxedStrategy<Case> {
        // files come in clusters around one module path: the same relative path under several roots, `x.lua` next to
        // `x/init.lua`, other extensions -- so that duplicate module names are the rule, not the exception
        let variant = (any::<u8>(), 0..FORMS.len());
        let cluster = (0..DIRS.len(), 0..NAMES.len(), proptest::collection::vec(variant, 1..4));
        let roots = proptest::collection::vec(0..EXTRA_ROOTS.len(), 0..3).prop_map(|v| {
            let mut out: Vec<(String, bool)> = vec![];
            for i in v {
                let r = (EXTRA_ROOTS[i].0.to_string(), EXTRA_ROOTS[i].1);
                if !out.contains(&r) {
                    out.push(r);
                }
            }
            out
        });
        let op = prop_oneof![
            3 => proptest::collection::vec(any::<u16>(), 1..6).prop_map(Op::Load),
            2 => any::<u16>().prop_map(Op::Update),
            3 => (any::<u16>(), any::<bool>()).prop_map(|(i, b)| Op::Remove(i, b)),
            1 => Just(Op::Reindex),
        ];
        (
            roots,
            sel(EXT_CFGS),
            sel(PATTERN_CFGS),
            map_rules(),
            proptest::bool::weighted(0.3),
            proptest::collection::vec(cluster, 1..5),
            proptest::collection::vec(op, 0..6),
            proptest::collection::vec((any::<u16>(), 0u8..11, any::<u8>()), 1..8),
        )
            .prop_map(|(roots, extensions, require_pattern, module_map, strict, clusters, mut ops, queries)| {
                let mut bases: Vec<String> = vec![MAIN.to_string()];
                bases.extend(roots.iter().map(|r| r.0.clone()));
                bases.push(MAIN.to_string());
                bases.push("/outside".to_string());
                let mut files: Vec<String> = vec![];
                for (d, n, variants) in clusters {
                    let rel = if DIRS[d].is_empty() { NAMES[n].to_string() } else { format!("{}/{}", DIRS[d], NAMES[n]) };
                    for (b, f) in variants {
                        files.push(format!("{}/{}{}", bases[b as usize % bases.len()], rel, FORMS[f]));
                    }
                }
                files.sort();
                files.dedup();
                // every history starts with a batch load of all files (the workspace load)
                let all: Vec<u16> = (0..files.len()).map(|i| (((i as u32) << 16) / files.len() as u32 + 1) as u16).collect();
                ops.insert(0, Op::Load(all));
                Case { roots, extensions, require_pattern, module_map, strict, files, ops, queries }
            })
            .boxed()
    }
    fn fixed_cases(&self, _tier: Tier) -> Vec<Case> {
        let base = |files: &[&str], queries: Vec<(u16, u8, u8)>| Case {
            roots: vec![],
            extensions: vec![],
            require_pattern: vec![],
            module_map: vec![],
            strict: false,
            files: files.iter().map(|s| s.to_string()).collect(),
            ops: vec![Op::Load((0..files.len()).map(|i| (((i as u32) << 16) / files.len() as u32 + 1) as u16).collect())],
            queries,
        };
        vec![
            // duplicates of module `a`: a.lua and a/init.lua
            base(&["/ws/a.lua", "/ws/a/init.lua", "/ws/b/m.lua"], vec![(0, 0, 0), (30000, 0, 0), (60000, 4, 0)]),
            // same module name in two roots
            Case { roots: vec![("/libs/x".into(), true)], ..base(&["/libs/x/m.lua", "/ws/m.lua", "/ws/a/m.lua"], vec![(0, 0, 0), (60000, 4, 0)]) },
        ]
    }
    fn simplify(&self, c: &Case) -> Vec<Case> {
        let mut out = vec![];
        for i in 1..c.ops.len() {
            let mut d = c.clone();
            d.ops.remove(i);
            out.push(d);
        }
        for i in 0..c.queries.len() {
            if c.queries.len() > 1 {
                let mut d = c.clone();
                d.queries.remove(i);
                out.push(d);
            }
        }
        for i in 0..c.roots.len() {
            let mut d = c.clone();
            d.roots.remove(i);
            out.push(d);
        }
        if !c.module_map.is_empty() {
            out.push(Case { module_map: vec![], ..c.clone() });
        }
        if !c.extensions.is_empty() {
            out.push(Case { extensions: vec![], ..c.clone() });
        }
        if !c.require_pattern.is_empty() {
            out.push(Case { require_pattern: vec![], ..c.clone() });
        }
        out
    }
    fn local(&self) {}
    fn check(&self, c: &Case, _local: &mut (), obs: &mut Obs) -> Verdict {
        let cfg = c.cfg();
        let roots = c.root_paths();
        let names: Vec<FileNames> = c.files.iter().map(|f| modres::names_of(f, &roots, &cfg)).collect();
        let queries = c.query_strings(&names);
        let n = c.files.len();
        if n == 0 || queries.is_empty() {
            return Verdict::Skip("empty".into());
        }
        obs.class(&format!("roots:{}", roots.len()));
        obs.class_if(c.roots.iter().any(|r| r.1), "library-root");
        obs.class_if(c.roots.iter().any(|r| r.0.starts_with("/ws/")), "nested-root");
        obs.class_if(!c.module_map.is_empty(), "moduleMap");
        obs.class_if(c.strict, "strict.requirePath");
        obs.class_if(!c.extensions.is_empty(), "extensions");
        obs.class_if(!c.require_pattern.is_empty(), "requirePattern");
        obs.class_if(names.iter().any(|f| f.primary.is_none()), "file-outside-roots-or-patterns");
        {
            let mut prim: Vec<&String> = names.iter().filter_map(|f| f.primary.as_ref()).collect();
            prim.sort();
            let total = prim.len();
            prim.dedup();
            obs.class_if(prim.len() < total, "duplicate-module-name");
        }

        let first = match catch(|| run_history(c, &queries, false, true)) {
            Ok(Ok(r)) => r,
            Ok(Err(_)) => return Verdict::Skip("uri".into()),
            Err(m) => return Verdict::fail(format!("panic:{}", crate::props::c31::site(&m)), format!("analysis panicked: {m}; {}", describe(c, &queries))),
        };

        // model replay
        let mut present = vec![false; n];
        let mut nontrivial = false;
        let mut last_answer: Vec<Option<usize>> = vec![None; queries.len()];
        let mut stages: Vec<Vec<&'static str>> = vec![];
        for (step, op) in c.ops.iter().enumerate() {
            let mut removed_now: Vec<usize> = vec![];
            match op {
                Op::Load(v) => v.iter().for_each(|r| present[util::idx(*r, n)] = true),
                Op::Update(r) => present[util::idx(*r, n)] = true,
                Op::Remove(r, _) => {
                    let i = util::idx(*r, n);
                    if present[i] {
                        removed_now.push(i);
                    }
                    present[i] = false;
                }
                Op::Reindex => {}
            }
            obs.class(match op {
                Op::Load(_) => "op:load",
                Op::Update(_) => "op:update",
                Op::Remove(_, true) => "op:remove-by-update",
                Op::Remove(_, false) => "op:remove",
                Op::Reindex => "op:reindex",
            });
            let live: Vec<Option<FileNames>> = names.iter().enumerate().map(|(i, f)| if present[i] { Some(f.clone()) } else { None }).collect();
            stages.push(vec![]);
            for (qi, q) in queries.iter().enumerate() {
                let got = first.answers[step][qi];
                let exp = modres::expect(q, &live, &cfg);
                stages[step].push(exp.stage);
                obs.class(&format!("stage:{}", exp.stage));
                if let Some(v) = judge_answer(got, &exp, &present, q, step, c, &queries) {
                    return v;
                }
                if got.is_some() {
                    obs.class("resolved");
                    if exp.allowed.len() >= 2 {
                        obs.class("multi-candidate");
                        nontrivial = true;
                    }
                    if exp.stage == "mapped" || exp.stage == "fuzzy" {
                        nontrivial = true;
                    }
                }
                if let Some(prev) = last_answer[qi] {
                    if removed_now.contains(&prev) {
                        obs.class("answer-was-removed");
                        nontrivial = true;
                    }
                }
                last_answer[qi] = got;
            }
        }

        // targeted removal
        for (qi, f, after) in &first.after_removal {
            let mut p2 = present.clone();
            p2[*f] = false;
            let live: Vec<Option<FileNames>> = names.iter().enumerate().map(|(i, x)| if p2[i] { Some(x.clone()) } else { None }).collect();
            let exp = modres::expect(&queries[*qi], &live, &cfg);
            if *after == Some(*f) {
                return Verdict::fail("removed-file-still-resolves", format!("require({:?}) still resolves to {} after that file was removed; {}", queries[*qi], c.files[*f], describe(c, &queries)));
            }
            if let Some(v) = judge_answer(*after, &exp, &p2, &queries[*qi], c.ops.len(), c, &queries) {
                return v;
            }
            obs.class("targeted-removal");
            nontrivial = true;
        }

        // inferred module type agrees with the resolution
        if let Some(lastans) = first.answers.last() {
            for (qi, t) in first.types.iter().enumerate() {
                let Some(t) = t else { continue };
                match (lastans[qi], t) {
                    (Some(f), Ok(nv)) => {
                        obs.class("type-agreement-judged");
                        if *nv != 1000 + f as i64 {
                            return Verdict::fail(
                                "require-type-disagrees",
                                format!("require({:?}) resolves to {} (returns {}) but its inferred type is the constant {}; {}", queries[qi], c.files.get(f).cloned().unwrap_or_default(), 1000 + f, nv, describe(c, &queries)),
                            );
                        }
                    }
                    (Some(_), Err(_)) => obs.class("type-not-an-integer-const"),
                    (None, Ok(nv)) => {
                        return Verdict::fail("require-type-disagrees", format!("require({:?}) is unresolved but its inferred type is the constant {}; {}", queries[qi], nv, describe(c, &queries)));
                    }
                    (None, Err(_)) => {}
                }
            }
        }

        // determinism: the same history on fresh analyses gives the same answers
        for rep in 0..9 {
            let again = match catch(|| run_history(c, &queries, false, false)) {
                Ok(Ok(r)) => r,
                _ => return Verdict::Skip("rerun-failed".into()),
            };
            if again.answers != first.answers {
                let (step, qi) = first_answer_diff(&first.answers, &again.answers);
                return Verdict::fail(
                    format!("nondeterministic-choice:{}", stages.get(step).and_then(|v| v.get(qi)).copied().unwrap_or("?")),
                    format!(
                        "fresh analysis #{rep} with the same history answers require({:?}) differently after step {step}: {} vs {}; {}",
                        queries[qi],
                        show(first.answers[step][qi], c),
                        show(again.answers[step][qi], c),
                        describe(c, &queries)
                    ),
                );
            }
        }
        // observation only: does the choice depend on the order inside a batch?
        if let Ok(Ok(rev)) = catch(|| run_history(c, &queries, true, false)) {
            if rev.answers != first.answers {
                obs.count("dup-choice-differs-when-batches-reversed", 1);
            }
        }
        Verdict::pass(nontrivial)
    }
}

fn first_answer_diff(a: &Answers, b: &Answers) -> (usize, usize) {
    for (s, (x, y)) in a.iter().zip(b.iter()).enumerate() {
        for (q, (u, v)) in x.iter().zip(y.iter()).enumerate() {
            if u != v {
                return (s, q);
            }
        }
    }
    (0, 0)
}

fn show(a: Option<usize>, c: &Case) -> String {
    match a {
        None => "unresolved".into(),
        Some(i) => c.files.get(i).cloned().unwrap_or_else(|| "<file outside the case>".into()),
    }
}

fn judge_answer(got: Option<usize>, exp: &modres::Expect, present: &[bool], q: &str, step: usize, c: &Case, queries: &[String]) -> Option<Verdict> {
    match got {
        None => {
            if exp.must {
                return Some(Verdict::fail(
                    format!("unresolved:{}", exp.stage),
                    format!("require({q:?}) is unresolved after step {step} but must resolve ({}) to one of {:?}; {}", exp.stage, exp.allowed.iter().map(|i| &c.files[*i]).collect::<Vec<_>>(), describe(c, queries)),
                ));
            }
        }
        Some(f) => {
            if f >= present.len() || !present[f] {
                return Some(Verdict::fail("resolves-to-absent-file", format!("require({q:?}) resolves after step {step} to {} which is not in the workspace; {}", show(Some(f), c), describe(c, queries))));
            }
            if !exp.allowed.contains(&f) {
                return Some(Verdict::fail(
                    format!("wrong-file:{}", exp.stage),
                    format!("require({q:?}) resolves after step {step} to {} but the allowed candidates ({}) are {:?}; {}", c.files[f], exp.stage, exp.allowed.iter().map(|i| &c.files[*i]).collect::<Vec<_>>(), describe(c, queries)),
                ));
            }
        }
    }
    None
}

fn describe(c: &Case, queries: &[String]) -> String {
    format!(
        "roots={:?} extensions={:?} requirePattern={:?} moduleMap={:?} strict={} files={:?} ops={:?} queries={:?}",
        c.roots,
        c.extensions,
        c.require_pattern,
        c.cfg().module_map.iter().map(|r| r.to_config()).collect::<Vec<_>>(),
        c.strict,
        c.files,
        c.ops,
        queries
    )
}
