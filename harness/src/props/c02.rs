//! C02 — Parsing never crashes or hangs on any input.
//!
//! Every case runs in a worker child on a thread with a 2 MiB stack (the stack of the tokio worker threads the
//! language server parses on).  Three input families:
//! * `Text`  – C01's text domain (token soup, mutated corpus windows, lossy bytes, doc-heavy text, corpus files);
//! * `Nest`  – one construct nested / chained `depth` times (log-uniform up to 200 000), closed or left open;
//! * `Scale` – a small unit `u`; `u^k` is parsed for k = 256, 2 048, 16 384 … and the CPU time of the last two
//!   steps is compared (roughly-linear-time clause).
use crate::engine::*;
use crate::gens::{nesting, soup, util};
use emmylua_parser::{LuaFeatures, LuaFeaturesSet, LuaParser, ParserConfig, SpecialFunction};
use proptest::prelude::*;
use serde::{Deserialize, Serialize};
use std::collections::HashMap;

#[derive(Clone, Debug, Serialize, Deserialize)]
pub enum Input {
    Text { text: String, src: String },
    /// `capped`: the generator wanted a larger depth but the kind has a recorded stack-overflow finding
    Nest {
        kind: String,
        depth: u32,
        closed: bool,
        capped: bool,
        /// comment line between the levels (`nesting::FILLERS`, 0 = none), after every `period` levels
        #[serde(default)]
        filler: u8,
        #[serde(default)]
        period: u16,
    },
    /// `max_mib`: size bound of the scaled input (1 quick, 4 thorough)
    Scale { unit: String, src: String, max_mib: u8 },
}

#[derive(Clone, Debug, Serialize, Deserialize)]
pub struct Case {
    pub input: Input,
    pub level: u8,
    pub doc: bool,
    pub ext: u8,
    pub cache: bool,
    /// non-empty `special_like` map (require-like / assert-like names)
    pub special: bool,
}

pub struct C02;

pub const MAX_DEPTH: u32 = 200_000;
pub const STACK: usize = 2 << 20;

/// Depth caps of the "chain" kinds: left-associative chains are parsed by a loop (no recursion, so the parser's
/// nesting limit does not apply) but produce a syntax tree as deep as the chain is long.  Two recorded, open
/// findings make deep chains unusable for exploration:
/// * C02-F2 dropping a tree deeper than ~26 100 levels overflows a 2 MiB stack (rowan's recursive drop); measured
///   smallest crashing depths: 26 130..26 134 levels (method-chain: 13 066 units = 2 levels each);
/// * C02-F3 parse time is quadratic in the tree depth when the chain nodes are interned (rowan NodeCache re-hash):
///   4 000 levels = 0.1 s, 32 000 levels = 7 s, 200 000 levels = minutes (watchdog).
/// The spaced add chain is not interned (5 children per node), parses in linear time and carries the F2 witness.
/// Kinds without an entry are explored up to MAX_DEPTH.  Capped cases are counted (`capped:<kind>`).
pub const DEPTH_CAPS: &[(&str, u32)] = &[
    ("add-chain", 4000),
    ("or-chain", 4000),
    ("index-chain", 4000),
    ("call-chain", 4000),
    ("method-chain", 2000),
    ("string-call-chain", 4000),
    ("safe-nav-chain", 4000),
    ("doc-union-chain", 4000),
    ("doc-inter-chain", 4000),
    ("doc-array", 4000),
    ("doc-nullable", 4000),
    ("add-chain-spaced", 20000),
];

pub fn depth_cap(kind: &str) -> u32 {
    DEPTH_CAPS.iter().find(|c| c.0 == kind).map(|c| c.1).unwrap_or(MAX_DEPTH)
}

fn parser_config<'a>(c: &Case, cache: Option<&'a mut rowan::NodeCache>) -> ParserConfig<'a> {
    let mut feats = vec![];
    if c.ext & 1 != 0 {
        feats.push(LuaFeatures::DoubleSlash);
    }
    if c.ext & 2 != 0 {
        feats.push(LuaFeatures::SlashStar);
    }
    let mut special = HashMap::new();
    if c.special {
        special.insert("a".to_string(), SpecialFunction::Require);
        special.insert("f".to_string(), SpecialFunction::Assert);
        special.insert("foo".to_string(), SpecialFunction::Type);
        special.insert("import".to_string(), SpecialFunction::Require);
    }
    ParserConfig::new(util::level(c.level), cache, special, LuaFeaturesSet::new(feats), c.doc)
}

pub fn thread_cpu_s() -> f64 {
    let mut ts = libc::timespec { tv_sec: 0, tv_nsec: 0 };
    // SAFETY: plain syscall writing into a local
    unsafe {
        libc::clock_gettime(libc::CLOCK_THREAD_CPUTIME_ID, &mut ts);
    }
    ts.tv_sec as f64 + ts.tv_nsec as f64 * 1e-9
}

/// small repeatable units for the scaling clause
fn unit_strategy() -> BoxedStrategy<(String, String)> {
    const STATS: &[&str] = &[
        "local x = 1\n", "x = x + 1\n", "f(x, y)\n", "local t = { a = 1, b = 2 }\n", "if x then y = 1 end\n", "for i = 1, 2 do end\n",
        "function f(a, b) return a end\n", "return\n", "x.y.z = 1\n", "a:b(c)\n", "local s = \"str\"\n", "goto l\n", "::l::\n", ";", "do end\n",
        "x = -y ^ 2 .. z\n", "local a <const> = 1\n", "-- comment\n", "--[[ long ]]\n", "--- doc\n", "---@type string\n", "---@param x integer\n",
        "---@class A: B\n", "---@field x integer\n", "---@return integer, string # desc\n", "---@alias X\n---| 'a' # d\n---| 'b'\n", "---@generic T\n",
        "---@type fun(a: string): { x: integer }[]\n", "---@overload fun(a: A<B, C>): D | E\n", "---@diagnostic disable-next-line: x\n", "---@see a#b\n",
        "---@cast x +string\n", "---@type A<\n", "---@type {[\n", "---@type (\n", "---| A\n", "```lua\n", "--region r\n", "--endregion\n", "#!sh\n",
        "1,", "a=1,", "[1]=2;", "{},", "{", "}", "(", ")", "[", "]", "[[", "]]", "end\n", "then\n", "else\n", "elseif x then\n", "until x\n", "local\n", "function\n",
        "x =\n", "f(\n", "t = {\n", "a.", "a:", "a[", "= 1\n", ", ", "..", "...", "\"unterminated\n", "'", "\\", "?.", "->", "|x| ", "a ? b : ", "::", "goto\n",
        "\u{0}", "\r", "\r\n", "\t", " ", "\n", "\n\n", "é", "名", "😀",
    ];
    prop_oneof![
        4 => proptest::collection::vec(0..STATS.len(), 1..4).prop_map(|v| (v.iter().map(|i| STATS[*i]).collect::<String>(), "unit:stat".to_string())),
        4 => (proptest::collection::vec(soup::fragment(), 1..8), 0u8..3).prop_map(|(f, sep)| {
            let sep = match sep { 0 => "", 1 => " ", _ => "\n" };
            let mut s = String::new();
            for x in f { s.push_str(x); s.push_str(sep); }
            (s, "unit:soup".to_string())
        }),
        2 => (0..nesting::KINDS.len(), 1u32..24, any::<bool>()).prop_map(|(k, d, c)| (nesting::render(k, d, c), "unit:nest".to_string())),
        1 => crate::props::c01::doc_heavy(3).prop_map(|s| (s, "unit:doc".to_string())),
    ]
    .boxed()
}

/// first k of the scaling series and growth factor
const K0: usize = 256;
const STEP: usize = 8;
/// CPU seconds the last run must reach before a pair is judged
const FLOOR_S: f64 = 0.25;
/// t(8k) < RATIO * t(k) must hold (linear ≈ 8, quadratic ≈ 64)
const RATIO: f64 = 32.0;

/// panic location relative to the repository (stable across checkouts)
fn site(p: &str) -> String {
    let loc = panic_site(p);
    match loc.find("crates/") {
        Some(i) => loc[i..].to_string(),
        None => loc,
    }
}

/// While the deep-tree finding (C02-F-superlinear-deep-tree) is open, units whose repetition makes the tree
/// deeper and deeper are classified by a cheap pre-screen and not timed (each would cost ~15 s CPU to re-confirm
/// the same defect); the pinned witness of the finding is still timed at every run.
const SKIP_DEEP_TREE_UNITS: bool = true;

/// maximum depth of the syntax tree (iterative walk)
fn tree_depth(tree: &emmylua_parser::LuaSyntaxTree) -> usize {
    let (mut d, mut max) = (0usize, 0usize);
    for ev in tree.get_red_root().preorder() {
        match ev {
            rowan::WalkEvent::Enter(_) => {
                d += 1;
                max = max.max(d);
            }
            rowan::WalkEvent::Leave(_) => d -= 1,
        }
    }
    max
}

/// minor page faults of this thread so far
fn thread_minflt() -> i64 {
    // SAFETY: plain syscall writing into a local
    unsafe {
        let mut ru: libc::rusage = std::mem::zeroed();
        libc::getrusage(libc::RUSAGE_THREAD, &mut ru);
        ru.ru_minflt
    }
}

impl C02 {
    /// (thread-CPU seconds of one parse, undisturbed?).  A run is disturbed when it touched fresh memory (minor
    /// page faults): first-touch faults are the one size-dependent noise source seen on the (virtualised, shared)
    /// test machine - under memory pressure they made a 1 MiB single-token input look 20x slower than linear.
    /// Worker processes keep their heap (mallopt in main.rs), so repeated runs of one input converge to ~0 faults.
    /// Contention can inflate a measurement several-fold but never deflate it, so every time is an upper bound and
    /// all decisions use minima; the larger input of a suspicious pair only counts when undisturbed.
    fn measure(&self, c: &Case, text: &str) -> Result<(f64, bool), String> {
        let cfg = parser_config(c, None);
        let f0 = thread_minflt();
        let t0 = thread_cpu_s();
        let tree = catch(|| LuaParser::parse(text, cfg))?;
        let t1 = thread_cpu_s();
        let faults = thread_minflt() - f0;
        drop(tree);
        Ok((t1 - t0, faults as usize <= 64 + text.len() / 16384))
    }

    /// minimum over undisturbed runs (up to `tries` runs, stops after `want` undisturbed ones); None if none was
    fn clean_min(&self, c: &Case, text: &str, want: usize, tries: usize) -> Result<Option<f64>, String> {
        let (mut best, mut good) = (f64::INFINITY, 0);
        for _ in 0..tries {
            let (t, clean) = self.measure(c, text)?;
            if clean {
                best = best.min(t);
                good += 1;
                if good >= want {
                    break;
                }
            }
        }
        Ok(if good > 0 { Some(best) } else { None })
    }

    /// does the tree get deeper when the unit is repeated more often?
    fn deepens(&self, c: &Case, unit: &str) -> Result<bool, String> {
        let d = |k: usize| -> Result<usize, String> {
            let text = unit.repeat(k);
            let cfg = parser_config(c, None);
            let tree = catch(|| LuaParser::parse(&text, cfg))?;
            Ok(tree_depth(&tree))
        };
        Ok(d(96)? >= d(32)? + 32)
    }

    fn check_scale(&self, c: &Case, unit: &str, src: &str, max_mib: u8, obs: &mut Obs) -> Verdict {
        obs.class(&format!("src:{src}"));
        if unit.is_empty() {
            return Verdict::Skip("scale:empty-unit".into());
        }
        let panic_fail = |p: String, k: usize| Verdict::fail(format!("panic:{}", site(&p)), format!("parser panicked on unit^{k}: {p}; unit={unit:?}"));
        let deep = match self.deepens(c, unit) {
            Ok(d) => d,
            Err(p) => return panic_fail(p, 96),
        };
        obs.class(if deep { "scale:deep-tree-unit" } else { "scale:flat-unit" });
        if deep && SKIP_DEEP_TREE_UNITS && !matches!(src, "witness") {
            return Verdict::Skip("scale:deep-tree-unit(known finding, not re-timed)".into());
        }
        let max = (max_mib.clamp(1, 64) as usize) << 20;
        let mut k = K0;
        let mut prev: Option<(usize, f64)> = None;
        loop {
            if unit.len() * k > max {
                obs.class("scale:size-cap-before-floor");
                // never reached the CPU floor: fast at every explored size; no pair to judge
                return Verdict::pass(prev.is_some());
            }
            let text = unit.repeat(k);
            // times are upper bounds: one run below the floor settles "below the floor", but an undisturbed one is
            // preferred (it becomes the denominator of the next pair); at or above the floor an undisturbed run is
            // required
            let (mut any_min, mut clean_min) = (f64::INFINITY, f64::INFINITY);
            for run in 1..=8 {
                match self.measure(c, &text) {
                    Ok((t, clean)) => {
                        any_min = any_min.min(t);
                        if clean {
                            clean_min = clean_min.min(t);
                        }
                        if clean || (any_min < FLOOR_S && run >= 3) {
                            break;
                        }
                    }
                    Err(p) => return panic_fail(p, k),
                }
            }
            if any_min < FLOOR_S {
                prev = Some((k, any_min));
                k *= STEP;
                continue;
            }
            if !clean_min.is_finite() {
                return Verdict::Skip("scale:memory-noise".into());
            }
            let t = clean_min;
            let Some((pk, pt)) = prev else {
                obs.class("scale:floor-at-first-step");
                return Verdict::Skip("scale:floor-at-first-step".into());
            };
            obs.class("scale:judged");
            // minima over interleaved re-measurements; stop as soon as one pair is unsuspicious
            let small = unit.repeat(pk);
            let (mut small_min, mut big_min, mut runs, mut spent) = (pt, t, 1, t);
            while big_min >= RATIO * small_min && runs < 4 && (runs < 2 || spent < 30.0) {
                let a = match self.measure(c, &small) {
                    Ok((a, _)) => a,
                    Err(_) => return Verdict::Skip("scale:unstable".into()),
                };
                small_min = small_min.min(a);
                match self.clean_min(c, &text, 1, 3) {
                    Ok(Some(b)) => {
                        big_min = big_min.min(b);
                        spent += b;
                    }
                    Ok(None) => return Verdict::Skip("scale:memory-noise".into()),
                    Err(_) => return Verdict::Skip("scale:unstable".into()),
                }
                runs += 1;
            }
            if big_min < RATIO * small_min {
                obs.class_if(runs > 1, "scale:suspicious-then-cleared");
                return Verdict::pass(true);
            }
            if big_min < FLOOR_S {
                return Verdict::Skip("scale:below-floor-after-remeasuring".into());
            }
            // shape confirmation on a x2 step: quadratic cost predicts x4, linear x2; demand > x3
            // (an inflated half-size time only lowers the ratio, so disturbed runs are acceptable here)
            let half = unit.repeat(k / 2);
            let mut half_min = f64::INFINITY;
            for _ in 0..3 {
                match self.measure(c, &half) {
                    Ok((a, _)) => half_min = half_min.min(a),
                    Err(_) => return Verdict::Skip("scale:unstable".into()),
                }
            }
            if big_min < 3.0 * half_min {
                obs.class("scale:not-confirmed-by-halving");
                return Verdict::Skip("scale:not-confirmed-by-halving".into());
            }
            let key = if deep { "deep-tree".to_string() } else { format!("flat:{}", superlinear_key(unit)) };
            return Verdict::fail(
                format!("superlinear:{key}"),
                format!(
                    "parse time grows faster than roughly linear: unit^{pk} ({} bytes) takes {:.4}s CPU, unit^{} ({} bytes) {:.4}s, unit^{k} ({} bytes) {:.4}s (x{:.1} for x8 input, threshold x{RATIO}; x{:.1} for x2; minima over {runs} runs); tree depth grows with k: {deep}; level={} doc={} unit={:?}",
                    unit.len() * pk, small_min, k / 2, unit.len() * k / 2, half_min, unit.len() * k, big_min, big_min / small_min, big_min / half_min,
                    util::level_name(c.level), c.doc, one_line(unit, 200)
                ),
            );
        }
    }
}

/// Root-cause key of a super-linear unit: the unit itself when short (so a recorded finding is exactly that
/// repeatable unit), else its digest.
pub fn superlinear_key(unit: &str) -> String {
    if unit.len() <= 24 {
        format!("{:?}", unit)
    } else {
        format!("{:016x}", fnv64(unit.as_bytes()))
    }
}

fn input_label(i: &Input) -> String {
    match i {
        Input::Text { src, .. } => src.clone(),
        Input::Nest { kind, .. } => kind.clone(),
        Input::Scale { src, .. } => src.clone(),
    }
}

impl Property for C02 {
    type Case = Case;
    type Local = rowan::NodeCache;
    fn id(&self) -> &'static str {
        "C02"
    }
    fn rule(&self) -> String {
        "cases run in a worker process on a 2 MiB-stack thread; inputs = C01's text domain (soup / mutated corpus / lossy bytes / doc-heavy / corpus files; ~98.9 %), nesting (50 construct kinds x depth log-uniform 1..200000 x closed/unclosed x an optional comment line (plain, well-formed doc tag, doc tag with a cut-off type) after every 1..400 levels; chain kinds capped below the recorded findings; ~1 %) and scaling units (u^k for k=256,2048,.. up to 1 MiB quick / 4 MiB thorough; thread-CPU time of the last two sizes compared once the larger reaches 0.25 s; ~0.03 %) x 8 language levels x doc on/off x extension bits x shared cache x special-function map; non-trivial = nesting depth >= 64, or >= 1 parse error, or a scaling unit measured at >= 2 sizes; distinct = distinct case digest".into()
    }
    fn assumptions(&self) -> Vec<String> {
        vec![
            "stack overflow is recognised by the Rust runtime's 'has overflowed its stack' message on the worker's stderr; other deaths keep the signal name".into(),
            "timing clause is deliberately weak: a violation needs min t(8k) >= 32 * min t(k) with t(8k) >= 0.25 s thread-CPU (minima over up to 4 interleaved runs, the larger input measured without page faults) and min t(8k) >= 3 * min t(4k); quick inputs stop at 1 MiB, so super-linear growth that stays below 0.25 s at 1 MiB is not seen".into(),
            "units whose repetition deepens the syntax tree are not timed while finding C02-F3 (quadratic time for deep chains) is open; a scaling unit whose repetition overflows the stack is left to the nesting family".into(),
        ]
    }
    fn cases(&self, tier: Tier) -> u32 {
        tier.pick(160_000, 8_000_000)
    }
    fn isolated(&self) -> bool {
        true
    }
    fn stack_bytes(&self) -> usize {
        STACK
    }
    fn case_timeout_s(&self) -> u64 {
        300
    }
    fn max_shrink_iters(&self, tier: Tier) -> u32 {
        // every failing evaluation costs two process spawns (and seconds for a scaling case)
        tier.pick(60, 200)
    }
    fn strategy(&self, tier: Tier) -> BoxedStrategy<Case> {
        let max_mib: u8 = tier.pick(1, 4);
        // 160 000 quick cases: ~158 300 texts, ~1 700 nestings, ~50 scaling units
        let (wt, wn, ws) = (9497, 100, 3);
        let input = prop_oneof![
            wt => crate::props::c01::text_strategy(tier).prop_map(|(text, src)| Input::Text { text, src }),
            wn => (nesting::nesting(MAX_DEPTH), prop_oneof![2 => Just(0u8), 1 => 1u8..nesting::FILLERS.len() as u8], prop_oneof![Just(1u16), Just(7), Just(100), Just(200), Just(255), 1u16..400]).prop_map(|((k, d, closed), filler, period)| {
                let kind = nesting::kind_name(k).to_string();
                let cap = depth_cap(&kind);
                Input::Nest { depth: d.min(cap), capped: d > cap, kind, closed, filler, period }
            }),
            ws => unit_strategy().prop_map(move |(unit, src)| Input::Scale { unit, src, max_mib }),
        ];
        (input, 0u8..8, prop::bool::weighted(0.85), 0u8..4, any::<bool>(), any::<bool>())
            .prop_map(|(input, level, doc, ext, cache, special)| Case { input, level, doc, ext, cache, special })
            .boxed()
    }
    fn fixed_cases(&self, _tier: Tier) -> Vec<Case> {
        // every nesting kind at a moderate depth, closed and unclosed, default config: a deterministic floor of coverage
        let mut v = vec![];
        for k in nesting::KINDS {
            for closed in [true, false] {
                let depth = 100u32.min(depth_cap(k.name));
                v.push(Case { input: Input::Nest { kind: k.name.to_string(), depth, closed, capped: false, filler: 0, period: 0 }, level: 6, doc: true, ext: 0, cache: false, special: false });
            }
        }
        v
    }
    fn simplify(&self, c: &Case) -> Vec<Case> {
        match &c.input {
            Input::Text { text, src } => util::text_simplify(text).into_iter().map(|t| Case { input: Input::Text { text: t, src: src.clone() }, ..c.clone() }).collect(),
            Input::Nest { kind, depth, closed, capped, filler, period } => {
                // bisection-like candidates: large steps first, then -1 (greedy loop converges to the smallest failing depth)
                let d = *depth;
                let mut out = vec![];
                let mut step = d / 2;
                while step >= 1 {
                    out.push(Case { input: Input::Nest { kind: kind.clone(), depth: d - step, closed: *closed, capped: *capped, filler: *filler, period: *period }, ..c.clone() });
                    step /= 2;
                }
                if *filler != 0 {
                    out.push(Case { input: Input::Nest { kind: kind.clone(), depth: d, closed: *closed, capped: *capped, filler: 0, period: 0 }, ..c.clone() });
                }
                if c.level != 1 || c.ext != 0 || c.cache || c.special || !c.doc {
                    out.push(Case { level: 1, ext: 0, cache: false, special: false, doc: true, ..c.clone() });
                }
                out
            }
            Input::Scale { unit, src, max_mib } => util::text_simplify(unit).into_iter().filter(|t| !t.is_empty()).map(|t| Case { input: Input::Scale { unit: t, src: src.clone(), max_mib: *max_mib }, ..c.clone() }).collect(),
        }
    }
    fn render(&self, case: &Case) -> serde_json::Value {
        truncate_value(serde_json::to_value(case).unwrap_or(serde_json::Value::Null), 300)
    }
    fn local(&self) -> rowan::NodeCache {
        rowan::NodeCache::default()
    }
    fn on_abort(&self, c: &Case, how: &str, stderr: &str, msg: String) -> Verdict {
        let overflow = stderr.contains("overflowed its stack");
        let what = if overflow { "stack-overflow" } else { how };
        if overflow && matches!(c.input, Input::Scale { .. }) {
            // u^k nests k deep for this unit: stack overflow is the Nest family's business, the timing clause cannot be judged
            return Verdict::Skip("scale:unit-nests-until-stack-overflow".into());
        }
        // last phase marker written by `check` before the worker died
        let phase = match stderr.rfind("@C02:") {
            Some(i) => stderr[i + 5..].split_whitespace().next().unwrap_or("?").to_string(),
            None => "?".to_string(),
        };
        Verdict::fail(format!("abort:{what}:{}:{phase}", input_label(&c.input)), format!("{msg}; input={}", describe(c)))
    }
    fn check(&self, c: &Case, cache: &mut rowan::NodeCache, obs: &mut Obs) -> Verdict {
        obs.class(util::level_name(c.level));
        obs.class_if(c.cache, "shared-cache");
        obs.class_if(!c.doc, "doc-off");
        let owned;
        let (text, depth): (&str, u32) = match &c.input {
            Input::Text { text, src } => {
                obs.class(&format!("src:{src}"));
                (text.as_str(), 0)
            }
            Input::Nest { kind, depth, closed, capped, filler, period } => {
                let Some(k) = nesting::kind_index(kind) else { return Verdict::Skip("unknown-nesting-kind".into()) };
                obs.class(&format!("nest:{kind}"));
                obs.class(if *closed { "nest-closed" } else { "nest-unclosed" });
                obs.class(match *depth { 0..=63 => "depth<64", 64..=999 => "depth:64-999", 1000..=9999 => "depth:1k-10k", 10000..=49999 => "depth:10k-50k", _ => "depth>=50k" });
                if *capped {
                    obs.class(&format!("capped:{kind}"));
                    obs.count("depth-capped-cases", 1);
                }
                obs.class_if(*filler != 0 && *period > 0, "nest-with-comment-lines-between-levels");
                owned = nesting::render_with(k, *depth, *closed, *filler, *period);
                (owned.as_str(), *depth)
            }
            Input::Scale { unit, src, max_mib } => return self.check_scale(c, unit, src, *max_mib, obs),
        };
        // phase markers on stderr (read back by on_abort when the worker dies); only nesting inputs can overflow
        let mark = depth > 0;
        if mark {
            eprintln!("@C02:parse");
        }
        let cfg = parser_config(c, if c.cache { Some(cache) } else { None });
        let tree = match catch(|| LuaParser::parse(text, cfg)) {
            Ok(t) => t,
            Err(p) => {
                return Verdict::fail(
                    format!("panic:{}", site(&p)),
                    format!("parser panicked: {p}; level={} doc={} ext={} input={}", util::level_name(c.level), c.doc, c.ext, describe(c)),
                )
            }
        };
        let nerr = tree.get_errors().len();
        obs.class_if(nerr > 0, "has-errors");
        if mark {
            eprintln!("@C02:drop");
        }
        drop(tree);
        if mark {
            eprintln!("@C02:done");
        }
        Verdict::pass(depth >= 64 || nerr > 0)
    }
}

fn describe(c: &Case) -> String {
    match &c.input {
        Input::Nest { kind, depth, closed, filler, period, .. } => format!("nest {kind} depth={depth} closed={closed} filler={:?}/{period}", nesting::FILLERS[*filler as usize % nesting::FILLERS.len()]),
        Input::Text { text, .. } => format!("{:?}", one_line(text, 300)),
        Input::Scale { unit, .. } => format!("unit {:?}", one_line(unit, 300)),
    }
}
