//! C29 — After a reload, open files keep the editor's text.
use crate::engine::*;
use crate::ls::disk::TempWs;
use crate::ls::{did_change, did_close, did_open, Ls, LsOpts};
use proptest::prelude::*;
use serde::{Deserialize, Serialize};
use serde_json::json;

#[derive(Clone, Debug, Serialize, Deserialize)]
pub enum Op {
    Edit(u8),
    /// the editor saves (disk := editor text, didSave, watched CHANGED) and closes the document
    SaveClose(u8),
    Save(u8),
    /// external modification of a closed on-disk file + watched-files event (1 created/2 changed)
    DiskWrite(u8),
    /// external deletion of a closed file + watched-files DELETED event
    DiskDelete(u8),
    /// workspace/didChangeConfiguration -> workspace reload
    Reload,
    /// config file changed on disk + watched event -> debounced (2 s) reload
    ConfigTouched,
    Advance(u16),
}

#[derive(Clone, Debug, Serialize, Deserialize)]
pub struct Case {
    pub ops: Vec<Op>,
    pub schedule: Vec<u8>,
    pub pull: bool,
}

pub struct C29;
const NDOCS: u8 = 4;
const NAMES: [&str; 4] = ["a.lua", "sub/b.lua", "c.lua", "new.lua"];

fn op_strategy() -> impl Strategy<Value = Op> {
    prop_oneof![
        6 => (0..NDOCS).prop_map(Op::Edit),
        2 => (0..NDOCS).prop_map(Op::SaveClose),
        1 => (0..NDOCS).prop_map(Op::Save),
        2 => (0..NDOCS).prop_map(Op::DiskWrite),
        1 => (0..NDOCS).prop_map(Op::DiskDelete),
        3 => Just(Op::Reload),
        1 => Just(Op::ConfigTouched),
        3 => prop_oneof![0u16..50, 0u16..3000].prop_map(Op::Advance),
    ]
}

impl Property for C29 {
    type Case = Case;
    type Local = TempWs;
    fn id(&self) -> &'static str {
        "C29"
    }
    fn rule(&self) -> String {
        "cases = histories (3-30 ops) over an on-disk scratch workspace with 4 documents (3 on disk initially, 1 created later): editor edits (open/change), save+close, external disk writes/deletes of closed files with their watched-file events, workspace reloads (didChangeConfiguration) and debounced config-file reloads, didSave-triggered reindex, virtual-time gaps; x a schedule vector for task starts/lock acquisitions; played in-process; the editor model is faithful: a document is closed only after saving, external changes only touch closed files and are announced; oracle = after quiescence every open workspace file's analysis text equals its latest editor text, every closed file's analysis text equals its on-disk content, a file that is not on disk and not open is absent; non-trivial = an edit or close directly follows a reload trigger without virtual time passing in between (so the notification lands while the reload task is pending or running)".into()
    }
    fn assumptions(&self) -> Vec<String> {
        vec!["C27's ordering defect is excluded by the fix (didOpen handled inline); disk changes are always announced by a watched-files event as a client-side watcher would".into()]
    }
    fn cases(&self, tier: Tier) -> u32 {
        tier.pick(1500, 50_000)
    }
    fn strategy(&self, tier: Tier) -> BoxedStrategy<Case> {
        (proptest::collection::vec(op_strategy(), 3..tier.pick(30, 60)), proptest::collection::vec(any::<u8>(), 0..150), any::<bool>())
            .prop_map(|(ops, schedule, pull)| Case { ops, schedule, pull })
            .boxed()
    }
    fn local(&self) -> TempWs {
        TempWs::new("c29")
    }
    fn check(&self, c: &Case, ws: &mut TempWs, obs: &mut Obs) -> Verdict {
        let _ = take_panics();
        ws.clear();
        ws.write(".emmyrc.json", "{}\n");
        let mut disk: [Option<String>; NDOCS as usize] = [Some("return 'a0'\n".into()), Some("return 'b0'\n".into()), Some("return 'c0'\n".into()), None];
        for d in 0..NDOCS as usize {
            if let Some(t) = &disk[d] {
                ws.write(NAMES[d], t);
            }
        }
        let uris: Vec<_> = NAMES.iter().map(|n| crate::ls::uri_for(ws.path(n).to_str().unwrap())).collect();
        let cfg_uri = crate::ls::uri_for(ws.path(".emmyrc.json").to_str().unwrap());
        let mut ls = Ls::new(LsOpts { pull_diagnostics: c.pull, schedule: c.schedule.clone(), roots: vec![ws.root.clone()], load_disk: true, ..Default::default() });
        let mut editor: [Option<String>; NDOCS as usize] = [None, None, None, None];
        let mut version = 0;
        let mut reload_pending = false;
        let mut nontrivial = false;
        for (i, op) in c.ops.iter().enumerate() {
            match op {
                Op::Edit(d) => {
                    let d = *d as usize;
                    version += 1;
                    let text = format!("return 'edit{i}'\n");
                    if editor[d].is_some() {
                        ls.notify("textDocument/didChange", did_change(&uris[d], version, &text));
                    } else {
                        ls.notify("textDocument/didOpen", did_open(&uris[d], &text));
                    }
                    editor[d] = Some(text);
                    if reload_pending {
                        nontrivial = true;
                        obs.class("edit-during-reload");
                    }
                }
                Op::SaveClose(d) => {
                    let d = *d as usize;
                    if let Some(text) = editor[d].take() {
                        let existed = disk[d].is_some();
                        ws.write(NAMES[d], &text);
                        disk[d] = Some(text);
                        ls.notify("textDocument/didSave", json!({"textDocument": {"uri": uris[d]}}));
                        ls.notify("workspace/didChangeWatchedFiles", json!({"changes": [{"uri": uris[d], "type": if existed { 2 } else { 1 }}]}));
                        ls.notify("textDocument/didClose", did_close(&uris[d]));
                        if reload_pending {
                            nontrivial = true;
                            obs.class("close-during-reload");
                        }
                    }
                }
                Op::Save(d) => {
                    let d = *d as usize;
                    if let Some(text) = editor[d].clone() {
                        let existed = disk[d].is_some();
                        ws.write(NAMES[d], &text);
                        disk[d] = Some(text);
                        ls.notify("textDocument/didSave", json!({"textDocument": {"uri": uris[d]}}));
                        ls.notify("workspace/didChangeWatchedFiles", json!({"changes": [{"uri": uris[d], "type": if existed { 2 } else { 1 }}]}));
                    }
                }
                Op::DiskWrite(d) => {
                    let d = *d as usize;
                    if editor[d].is_none() {
                        let existed = disk[d].is_some();
                        let text = format!("return 'disk{i}'\n");
                        ws.write(NAMES[d], &text);
                        disk[d] = Some(text);
                        ls.notify("workspace/didChangeWatchedFiles", json!({"changes": [{"uri": uris[d], "type": if existed { 2 } else { 1 }}]}));
                        obs.class("external-write");
                    }
                }
                Op::DiskDelete(d) => {
                    let d = *d as usize;
                    if editor[d].is_none() && disk[d].is_some() {
                        ws.remove(NAMES[d]);
                        disk[d] = None;
                        ls.notify("workspace/didChangeWatchedFiles", json!({"changes": [{"uri": uris[d], "type": 3}]}));
                        obs.class("external-delete");
                    }
                }
                Op::Reload => {
                    ls.notify("workspace/didChangeConfiguration", json!({"settings": {"n": i}}));
                    reload_pending = true;
                    obs.class("reload");
                }
                Op::ConfigTouched => {
                    ws.write(".emmyrc.json", &format!("{{\"diagnostics\": {{\"diagnosticInterval\": {}}}}}\n", 400 + i));
                    ls.notify("workspace/didChangeWatchedFiles", json!({"changes": [{"uri": cfg_uri, "type": 2}]}));
                    reload_pending = true;
                    obs.class("config-reload");
                }
                Op::Advance(ms) => {
                    ls.advance(*ms as u64);
                    if *ms >= 2100 {
                        reload_pending = false;
                    }
                }
            }
        }
        ls.settle();
        if let Some(w) = &ls.wedged {
            return Verdict::fail(format!("wedged:{w}"), format!("main loop wedged while handling {w}"));
        }
        let panics = take_panics();
        if let Some(p) = panics.first() {
            return Verdict::Skip(format!("server-task-panic:{}", panic_site(p)));
        }
        for d in 0..NDOCS as usize {
            let uri = &uris[d];
            let analysed: Option<String> = ls.with_analysis(|a| {
                let id = a.get_file_id(uri)?;
                a.compilation.get_db().get_vfs().get_file_content(&id).cloned()
            });
            match (&editor[d], &disk[d]) {
                (Some(text), _) => {
                    if analysed.as_deref() != Some(text.as_str()) {
                        return Verdict::fail("open-file-lost-editor-text", format!("{} is open with editor text {text:?} but the analysis holds {analysed:?} (disk: {:?})", NAMES[d], disk[d]));
                    }
                }
                (None, Some(on_disk)) => {
                    if analysed.as_deref() != Some(on_disk.as_str()) {
                        return Verdict::fail("closed-file-differs-from-disk", format!("{} is closed, disk holds {on_disk:?} but the analysis holds {analysed:?}", NAMES[d]));
                    }
                }
                (None, None) => {
                    if analysed.is_some() {
                        return Verdict::fail("absent-file-still-analysed", format!("{} is neither open nor on disk but the analysis holds {analysed:?}", NAMES[d]));
                    }
                }
            }
        }
        Verdict::pass(nontrivial && !c.schedule.is_empty())
    }
}
