//! C07 — Range formatting only rewrites code around the selection (through `emmylua_formatter::reformat_range`).
use crate::engine::*;
use crate::gens::fmt_input::{self, FmtCase};
use crate::gens::{fmt_config, util};
use crate::oracle::tokcanon::{self, Quot};
use crate::props::c05::{ceil, floor, label_input, site};
use emmylua_formatter::{SourceText, TextRange, reformat_range};
use proptest::prelude::*;
use serde::{Deserialize, Serialize};

pub struct C07;

#[derive(Clone, Debug, Serialize, Deserialize)]
pub struct Case {
    #[serde(flatten)]
    pub doc: FmtCase,
    /// selection as byte offsets (may lie beyond the end; always start <= end)
    pub sel: (u32, u32),
    pub sel_kind: String,
}

/// selection classes; raw numbers are mapped monotonically onto the text
fn select(text: &str, kind: u8, p: u16, q: u16) -> ((u32, u32), &'static str) {
    let len = text.len();
    let at = |raw: u16| floor(text, util::idx(raw, len + 1));
    let (a, b) = {
        let (x, y) = (at(p), at(q));
        (x.min(y), x.max(y))
    };
    let line_start = |o: usize| text[..o].rfind('\n').map(|i| i + 1).unwrap_or(0);
    let line_end = |o: usize| text[o..].find('\n').map(|i| o + i).unwrap_or(len);
    match kind % 12 {
        0 => ((a as u32, a as u32), "empty"),
        1 => ((a as u32, b as u32), "arbitrary"),
        2 => ((0, len as u32), "whole-file"),
        3 => ((a as u32, (len + 1 + q as usize % 50) as u32), "end-beyond-eof"),
        4 => (((len + p as usize % 50) as u32, (len + 50 + q as usize % 50) as u32), "start-beyond-eof"),
        5 => ((line_start(a) as u32, line_end(a) as u32), "one-line"),
        6 => ((line_start(a) as u32, ceil(text, (line_end(b) + 1).min(len)) as u32), "full-lines"),
        7 => {
            // a few characters (partial token)
            let e = ceil(text, (a + 1 + (q as usize % 4)).min(len));
            ((a as u32, e as u32), "few-chars")
        }
        8 => {
            // inside a string literal or comment if there is one: pick the p-th quote / dash position
            let cands: Vec<usize> = text.match_indices(['"', '\'', '[', '-']).map(|(i, _)| i).collect();
            if cands.is_empty() {
                ((a as u32, b as u32), "arbitrary")
            } else {
                let s = cands[util::idx(p, cands.len())];
                let e = ceil(text, (s + 1 + q as usize % 12).min(len));
                ((s as u32 + 1, e.max(s + 1).min(len) as u32), "in-string-or-comment")
            }
        }
        9 => {
            // inside brackets: table / args / params (the explicit-target path)
            let cands: Vec<usize> = text.match_indices(['{', '(']).map(|(i, _)| i).collect();
            if cands.is_empty() {
                ((a as u32, a as u32), "empty")
            } else {
                let s = cands[util::idx(p, cands.len())];
                let e = ceil(text, (s + 1 + q as usize % 30).min(len));
                ((ceil(text, s + 1) as u32, e.max(s + 1).min(len) as u32), "in-brackets")
            }
        }
        10 => {
            // whitespace-only: indentation of a line
            let ls = line_start(a);
            let ind = text[ls..].chars().take_while(|c| *c == ' ' || *c == '\t').count();
            ((ls as u32, (ls + ind) as u32), "indentation")
        }
        _ => ((line_start(a) as u32, line_end(b) as u32), "lines-without-eol"),
    }
}

impl Property for C07 {
    type Case = Case;
    type Local = ();
    fn thorough_family(&self, _c: &Self::Case, f: &Fail) -> Option<String> {
        // shapes of whole-document formatter defects (C05 families) seen through a range; the range-specific
        // clauses (range malformed, not covering the selection, erroneous document formatted) are never mapped
        if f.sig.starts_with("tokens:") || f.sig.starts_with("C:") || f.sig.starts_with("A:") {
            Some("family:formatter-output-defect-in-range-unclassified-shape".into())
        } else {
            None
        }
    }
    fn id(&self) -> &'static str {
        "C07"
    }
    fn rule(&self) -> String {
        "cases = document (same input space as C05: generated programs | windows of std/*.lua and formatter-test snippets | mutations; error-free and erroneous) x 8 levels x generated LuaFormatConfig x selection (empty, arbitrary, whole file, end/start beyond EOF, one line, full lines, few characters, inside a string/comment, inside brackets, indentation only; offsets on char boundaries as the LSP layer produces them) through reformat_range; oracle: erroneous document => None; Some{range,text} => range inside the document on char boundaries covering every non-whitespace char of the clamped selection, splice parses, token stream equal modulo config-documented normalisations, comments equal modulo whitespace, doc structure equal. non-trivial = Some and text != document[range]; distinct = distinct case digest".into()
    }
    fn assumptions(&self) -> Vec<String> {
        vec![
            "selection offsets lie on UTF-8 character boundaries (LuaDocument::to_rowan_range produces only such offsets) and start <= end".into(),
            "text outside the replaced region is untouched by construction of the splice (the API returns one replacement)".into(),
            "the LSP handler path (position conversion, edit list) is not exercised here".into(),
        ]
    }
    fn cases(&self, tier: Tier) -> u32 {
        tier.pick(200_000, 8_000_000)
    }
    fn strategy(&self, tier: Tier) -> BoxedStrategy<Case> {
        (fmt_input::case(tier), any::<u8>(), any::<u16>(), any::<u16>())
            .prop_map(|(doc, kind, p, q)| {
                let (sel, k) = select(&doc.text, kind, p, q);
                Case { doc, sel, sel_kind: k.to_string() }
            })
            .boxed()
    }
    fn fixed_cases(&self, _tier: Tier) -> Vec<Case> {
        // every std file: whole-file selection and a selection per 40th line under the default config
        let mut out = vec![];
        for f in fmt_input::corpus().iter().filter(|f| !f.name.starts_with("fmt_")) {
            let doc = FmtCase { text: f.text.clone(), level: 0, cfg: Default::default(), src: format!("corpus:{}", f.name) };
            out.push(Case { doc: doc.clone(), sel: (0, f.text.len() as u32), sel_kind: "whole-file".into() });
            let mut off = 0usize;
            for (i, l) in f.text.split_inclusive('\n').enumerate() {
                if i % 40 == 7 {
                    out.push(Case { doc: doc.clone(), sel: (off as u32, (off + l.len()) as u32), sel_kind: "full-lines".into() });
                }
                off += l.len();
            }
        }
        out
    }
    fn simplify(&self, c: &Case) -> Vec<Case> {
        let mut out = vec![];
        let t = &c.doc.text;
        let (s, e) = (c.sel.0 as usize, c.sel.1 as usize);
        for ed in fmt_input::text_edits(t, c.doc.level) {
            // only edits that do not overlap the selection; shift it when the edit lies before
            let (a, b, ref rep) = ed;
            let sel = if b <= s {
                let delta = (b - a) as i64 - rep.len() as i64;
                (((s as i64) - delta) as u32, ((e as i64) - delta) as u32)
            } else if a >= e.min(t.len()) {
                c.sel
            } else if a >= s && b <= e && e <= t.len() && rep.is_empty() {
                // inside the selection: shrink it
                (c.sel.0, (e - (b - a)) as u32)
            } else {
                continue;
            };
            if let Some(nt) = fmt_input::apply_edit(t, &ed) {
                let ok = |o: u32| (o as usize) > nt.len() || nt.is_char_boundary(o as usize);
                if ok(sel.0) && ok(sel.1) && sel.0 <= sel.1 {
                    out.push(Case { doc: FmtCase { text: nt, ..c.doc.clone() }, sel, sel_kind: c.sel_kind.clone() });
                }
            }
        }
        for cfg in fmt_input::simpler_configs(&c.doc.cfg) {
            out.push(Case { doc: FmtCase { cfg, ..c.doc.clone() }, ..c.clone() });
        }
        // shrink the selection
        if e > s {
            let m = floor(t, (s + e.min(t.len())) / 2);
            if m > s && m < e {
                out.push(Case { sel: (s as u32, m as u32), ..c.clone() });
                out.push(Case { sel: (m as u32, e as u32), ..c.clone() });
            }
            out.push(Case { sel: (s as u32, s as u32), ..c.clone() });
        }
        out
    }
    fn local(&self) {}
    fn check(&self, c: &Case, _: &mut (), obs: &mut Obs) -> Verdict {
        let d = &c.doc;
        let text = &d.text;
        let (s, e) = (c.sel.0 as usize, c.sel.1 as usize);
        if s > e || (s <= text.len() && !text.is_char_boundary(s)) || (e <= text.len() && !text.is_char_boundary(e)) {
            return Verdict::Skip("selection-not-on-char-boundary".into());
        }
        let q = Quot::of(&d.cfg);
        let tree = tokcanon::parse(text, d.level);
        let a = tokcanon::canon_tree(&tree, q);
        label_input(d, &a, obs);
        obs.class(&format!("sel:{}", c.sel_kind));
        let res = match catch(|| reformat_range(&SourceText { text, level: util::level(d.level) }, TextRange::new(c.sel.0.into(), c.sel.1.into()), &d.cfg)) {
            Ok(r) => r,
            Err(p) => {
                return Verdict::fail(
                    format!("panic:{}", site(&p)),
                    format!("reformat_range panicked: {p}; sel={:?} ({}); cfg: {}; input: {:?}", c.sel, c.sel_kind, fmt_config::describe(&d.cfg), one_line(text, 400)),
                );
            }
        };
        if a.syntax_errors > 0 {
            obs.class("erroneous-input");
            return match res {
                None => Verdict::pass(false),
                Some(_) => Verdict::fail("D:erroneous-document-range-formatted", format!("document has syntax errors ({:?}) but reformat_range returned an edit", a.first_syntax_error)),
            };
        }
        obs.class("error-free-input");
        let Some(r) = res else {
            obs.class("result:None");
            return Verdict::pass(false);
        };
        obs.class("result:Some");
        let (rs, re) = (usize::from(r.replace_range.start()), usize::from(r.replace_range.end()));
        let tail = format!("sel={:?} ({}) replace={}..{}; cfg: {}; input: {:?}", c.sel, c.sel_kind, rs, re, fmt_config::describe(&d.cfg), one_line(text, 400));
        // (a) region well-formed and covering the selected code
        if rs > re || re > text.len() || !text.is_char_boundary(rs) || !text.is_char_boundary(re) {
            return Verdict::fail("a:replace-range-malformed", format!("replace_range is not a char-boundary range inside the document; {tail}"));
        }
        let (cs, ce) = (s.min(text.len()), e.min(text.len()));
        // "covers the selected code": every selected part of a code token (comments and the shebang line are not code)
        let uncovered = a.toks.iter().filter(|t| t.len > 0 && !(t.off == 0 && t.text.starts_with('#'))).find_map(|t| {
            let (x, y) = (t.off.max(cs), (t.off + t.len).min(ce));
            if x < y && (x < rs || y > re) { Some(if x < rs { x } else { re.max(x) }) } else { None }
        });
        if let Some(at) = uncovered {
            let construct = tokcanon::construct_at(&tree, at);
            return Verdict::fail(format!("a:selection-not-covered:{construct}"), format!("selected code at {at} is outside the replaced region; {tail}"));
        }
        let changed = r.text != text[rs..re];
        obs.class_if(changed, "replacement!=original");
        // Formatter-output defects (C05) inside the replaced region are not range-formatting defects: when formatting
        // the whole document already violates C05 at a place inside the region, the case is excluded here (counted).
        let c05_in_region = |splice_sig: &String| -> bool {
            if crate::props::c05::open_c05_signatures().contains(splice_sig) {
                return true; // the same formatter-output defect family is an open C05 finding
            }
            if a.risky_doc_blocks > 0 {
                return true; // output may depend on HashMap order (see C05): not a range-formatting matter
            }
            let Ok(full) = crate::props::c05::run_formatter(text, d.level, &d.cfg) else { return true };
            let ft = tokcanon::parse(&full, d.level);
            let fc = tokcanon::canon_tree(&ft, q);
            let diff = if fc.syntax_errors > 0 {
                tokcanon::compare_tokens("A", text, &a, &full, &fc, &d.cfg, false, fc.first_syntax_error.as_ref().map(|e| e.0))
            } else {
                tokcanon::compare(text, &a, &full, &fc, &d.cfg)
            };
            match diff {
                Some(df) => fc.syntax_errors > 0 || df.sig == *splice_sig || (df.loc + 1 >= rs && df.loc <= re + 1),
                None => false,
            }
        };
        // (b) splice
        let spliced = format!("{}{}{}", &text[..rs], r.text, &text[re..]);
        let stree = tokcanon::parse(&spliced, d.level);
        let b = tokcanon::canon_tree(&stree, q);
        if b.syntax_errors > 0 {
            let (off, m) = b.first_syntax_error.clone().unwrap_or((0, String::new()));
            let cause = tokcanon::compare_tokens("A", text, &a, &spliced, &b, &d.cfg, false, Some(off));
            let (sig, why) = match cause {
                Some(d) => (d.sig, d.msg),
                None => (format!("A:same-tokens-unparsable:{}", tokcanon::construct_at(&stree, off)), String::new()),
            };
            if c05_in_region(&sig) {
                return Verdict::Skip("formatter-defect-in-region(C05)".into());
            }
            return Verdict::fail(sig, format!("spliced document does not parse: {m} at {off}; {why}; replacement {:?}; {tail}", one_line(&r.text, 300)));
        }
        if let Some(df) = tokcanon::compare(text, &a, &spliced, &b, &d.cfg) {
            if c05_in_region(&df.sig) {
                return Verdict::Skip("formatter-defect-in-region(C05)".into());
            }
            return Verdict::fail(df.sig.clone(), format!("[{}] {}; replacement {:?}; {tail}", df.clause, df.msg, one_line(&r.text, 300)));
        }
        Verdict::pass(changed)
    }
}
