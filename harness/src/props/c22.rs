//! C22 — Offsets and LSP positions convert consistently and stay in bounds.
//!
//! Per generated small text, exhaustively: every char-boundary offset -> position -> offset, and every
//! (line, character) pair in and beyond range -> offset, through `LineIndex` and through
//! `LuaDocument` (obtained from a real `Vfs`).
use crate::engine::*;
use crate::gens::{texts, util};
use crate::oracle::utf16::{self, Eol, Unit};
use emmylua_code_analysis::{Emmyrc, Vfs, file_path_to_uri};
use emmylua_parser::LineIndex;
use proptest::prelude::*;
use rowan::{TextRange, TextSize};
use serde::{Deserialize, Serialize};
use std::collections::BTreeMap;
use std::path::PathBuf;
use std::sync::Arc;

#[derive(Clone, Debug, Serialize, Deserialize)]
pub struct Case {
    pub text: String,
}

pub struct C22;

pub struct Local {
    emmyrc: Arc<Emmyrc>,
    uri: lsp_types::Uri,
}

/// columns beyond anything in the text; clients really send the largest ones for "end of line"
const BIG_COLS: &[usize] = &[1000, i32::MAX as usize, u32::MAX as usize];

fn q(s: &str) -> String {
    format!("{:?}", s)
}

impl C22 {
    fn judge(&self, text: &str, local: &mut Local, obs: &mut Obs) -> Result<bool, Fail> {
        let fail = |sig: &str, msg: String| Fail { sig: sig.to_string(), msg: format!("{msg}; text={}", q(text)) };
        let len = text.len();
        let idx = LineIndex::parse(text);

        // Which terminator set does the index follow?  (Which one it *should* follow is C23's business;
        // everything below is judged against the reference line table for that set.)
        let n_all = utf16::lines(text, Eol::All).len();
        let n_nl = utf16::lines(text, Eol::NlOnly).len();
        let lc = idx.line_count();
        let eol = if lc == n_nl {
            Eol::NlOnly
        } else if lc == n_all {
            Eol::All
        } else {
            return Err(fail("line-count", format!("line_count()={lc}, expected {n_nl} (lines end at \\n) or {n_all} (also at lone \\r)")));
        };
        let lines = utf16::lines(text, eol);
        let has_non_ascii_line = lines.iter().any(|l| !text[l.start..l.end].is_ascii());
        obs.class(if lines.len() >= 2 { "lines>=2" } else { "lines=1" });
        obs.class_if(has_non_ascii_line, "non-ascii-line");
        obs.class_if(text.contains("\r\n"), "crlf");
        obs.class_if(text.contains('\r') && n_all != n_nl, "lone-cr");
        obs.class_if(lines.iter().any(|l| l.start == l.content_end), "empty-line");
        obs.class_if(lines.last().map(|l| l.start == l.end).unwrap_or(false), "trailing-terminator");
        obs.class_if(text.chars().any(|c| c as u32 >= 0x10000), "astral");
        obs.class_if(text.is_empty(), "empty-text");

        // ---- every char-boundary offset -> position -> offset
        // attained[line] : column -> offset
        let mut attained: Vec<BTreeMap<usize, usize>> = vec![BTreeMap::new(); lines.len()];
        let mut conversions = 0u64;
        for o in (0..=len).filter(|o| text.is_char_boundary(*o)) {
            let Some((l, c)) = idx.get_line_col(TextSize::from(o as u32), text) else {
                return Err(fail("offset-to-position-none", format!("get_line_col({o}) = None for an offset inside the document (len {len})")));
            };
            let ref_line = utf16::position(text, o, Unit::Utf16, eol).0 as usize;
            if l != ref_line {
                return Err(fail("offset-line-wrong", format!("get_line_col({o}) = ({l},{c}) but offset {o} lies on line {ref_line}")));
            }
            if idx.get_line(TextSize::from(o as u32)) != Some(l) || idx.get_col(TextSize::from(o as u32), text) != Some(c) {
                return Err(fail("get-line/get-col-disagree", format!("get_line/get_col({o}) disagree with get_line_col = ({l},{c})")));
            }
            let back = idx.get_offset(l, c, text).map(usize::from);
            if back != Some(o) {
                return Err(fail("roundtrip", format!("offset {o} -> ({l},{c}) -> {back:?}")));
            }
            attained[l].insert(c, o);
            conversions += 2;
        }

        // ---- every (line, character) in and beyond range -> offset
        let max_col = attained.iter().filter_map(|m| m.keys().next_back().copied()).max().unwrap_or(0);
        let mut cols: Vec<usize> = (0..=max_col + 3).collect();
        cols.extend_from_slice(BIG_COLS);
        let mut beyond_eol_queries = 0u64;
        for line in 0..lc + 3 {
            for &col in &cols {
                let r = idx.get_offset(line, col, text).map(usize::from);
                let rel = idx.get_col_offset_at_line(line, col, text).map(usize::from);
                conversions += 2;
                if line >= lc {
                    if r.is_some() {
                        return Err(fail("missing-line-some", format!("get_offset({line},{col}) = {r:?} but the text has only {lc} lines")));
                    }
                    if rel.is_some() {
                        return Err(fail("missing-line-some", format!("get_col_offset_at_line({line},{col}) = {rel:?} but the text has only {lc} lines")));
                    }
                    continue;
                }
                let Some(r) = r else {
                    return Err(fail("existing-line-none", format!("get_offset({line},{col}) = None but line {line} exists ({lc} lines)")));
                };
                let l = &lines[line];
                // last offset that still belongs to this line: the position of its final terminator
                // byte, or the end of the text on the last line
                let last_of_line = if l.end > l.content_end { l.end - 1 } else { l.end };
                let line_max_col = attained[line].keys().next_back().copied().unwrap_or(0);
                if r > len || !text.is_char_boundary(r) {
                    let sig = if col > line_max_col { "past-eol-not-clamped" } else { "offset-out-of-document" };
                    return Err(fail(sig, format!("get_offset({line},{col}) = {r} is not a char-boundary offset inside the document (len {len}); line {line} is [{},{}]", l.start, last_of_line)));
                }
                if let Some(&o) = attained[line].get(&col) {
                    if r != o {
                        return Err(fail("roundtrip", format!("({line},{col}) is the position of offset {o} but converts to {r}")));
                    }
                } else if col > line_max_col {
                    beyond_eol_queries += 1;
                    // clamped to the end of that line: from the end of the line's content up to its last offset
                    if r < l.content_end || r > last_of_line {
                        return Err(fail(
                            "past-eol-not-clamped",
                            format!("get_offset({line},{col}) = {r}: column past the end of line {line} (content [{},{}], last offset {last_of_line}) is not clamped to that line (len {len})", l.start, l.content_end),
                        ));
                    }
                } else {
                    // a column inside the line that is no character start (e.g. the middle of a surrogate pair)
                    obs.class("mid-character-col");
                    if r < l.start || r > last_of_line {
                        return Err(fail("mid-character-col-leaves-line", format!("get_offset({line},{col}) = {r} leaves line {line} [{},{last_of_line}]", l.start)));
                    }
                }
                // the line-relative variant must agree
                match rel {
                    Some(x) if l.start + x == r => {}
                    other => {
                        let sig = if col > line_max_col { "past-eol-not-clamped" } else { "col-offset-at-line-disagrees" };
                        return Err(fail(sig, format!("get_col_offset_at_line({line},{col}) = {other:?} but get_offset = {r} and the line starts at {}", l.start)));
                    }
                }
            }
        }
        obs.count("conversions", conversions);
        obs.count("beyond_eol_queries", beyond_eol_queries);

        // ---- the same through LuaDocument
        let mut vfs = Vfs::new();
        vfs.update_config(local.emmyrc.clone());
        let id = vfs.set_file_content(&local.uri, Some(text.to_string()));
        let Some(doc) = vfs.get_document(&id) else {
            return Err(fail("no-document", "Vfs::get_document returned None after set_file_content".into()));
        };
        if doc.get_line_count() != lc {
            return Err(fail("document-disagrees", format!("LuaDocument::get_line_count() = {} but LineIndex::line_count() = {lc}", doc.get_line_count())));
        }
        let offsets: Vec<usize> = (0..=len).filter(|o| text.is_char_boundary(*o)).collect();
        for &o in &offsets {
            let p = doc.to_lsp_position(TextSize::from(o as u32));
            let lc_ = idx.get_line_col(TextSize::from(o as u32), text);
            if p.map(|p| (p.line as usize, p.character as usize)) != lc_ {
                return Err(fail("document-disagrees", format!("to_lsp_position({o}) = {p:?} but LineIndex::get_line_col = {lc_:?}")));
            }
        }
        // ranges: all pairs for short texts, else pairs with a stride
        let stride = (offsets.len() / 40).max(1);
        let mut pairs = 0u64;
        for (i, &a) in offsets.iter().enumerate() {
            for &b in offsets[i..].iter().step_by(stride) {
                let tr = TextRange::new(TextSize::from(a as u32), TextSize::from(b as u32));
                let Some(lr) = doc.to_lsp_range(tr) else {
                    return Err(fail("offset-to-position-none", format!("to_lsp_range({a}..{b}) = None")));
                };
                let back = doc.to_rowan_range(lr);
                if back != Some(tr) {
                    return Err(fail("roundtrip", format!("to_rowan_range(to_lsp_range({a}..{b}) = {lr:?}) = {back:?}")));
                }
                pairs += 1;
            }
        }
        for line in 0..lc + 2 {
            for &col in &cols {
                let a = doc.get_offset(line, col);
                let b = idx.get_offset(line, col, text);
                if a != b {
                    return Err(fail("document-disagrees", format!("LuaDocument::get_offset({line},{col}) = {a:?} but LineIndex::get_offset = {b:?}")));
                }
                // a client range ending past the end of the line / in a missing line
                let range = lsp_types::Range { start: lsp_types::Position { line: line as u32, character: 0 }, end: lsp_types::Position { line: line as u32, character: col.min(u32::MAX as usize) as u32 } };
                let rr = doc.to_rowan_range(range);
                match (line < lc, rr) {
                    (false, Some(x)) => return Err(fail("missing-line-some", format!("to_rowan_range({range:?}) = {x:?} but the text has only {lc} lines"))),
                    (true, None) => return Err(fail("existing-line-none", format!("to_rowan_range({range:?}) = None"))),
                    (true, Some(x)) => {
                        let l = &lines[line];
                        let last_of_line = if l.end > l.content_end { l.end - 1 } else { l.end };
                        if usize::from(x.end()) > last_of_line || usize::from(x.start()) != l.start {
                            return Err(fail("past-eol-not-clamped", format!("to_rowan_range({range:?}) = {x:?} leaves line {line} [{},{last_of_line}] (len {len})", l.start)));
                        }
                    }
                    _ => {}
                }
            }
        }
        obs.count("range_roundtrips", pairs);
        Ok(lines.len() >= 2 && (has_non_ascii_line || beyond_eol_queries > 0))
    }
}

impl Property for C22 {
    type Case = Case;
    type Local = Local;
    fn id(&self) -> &'static str {
        "C22"
    }
    fn level(&self) -> &'static str {
        "exploration"
    }
    fn rule(&self) -> String {
        "cases = small texts (0-8 terminated lines + optional unterminated last line, 0-12 chars per line; line alphabets ASCII / +BMP / +astral; terminators \\n, \\r\\n, lone \\r), each checked EXHAUSTIVELY: every char-boundary offset -> position -> offset, every (line, character) with line <= lines+2 and character <= longest line+3 plus 1000 / i32::MAX / u32::MAX -> offset, every (or strided) offset pair as a range, through LineIndex and LuaDocument; non-trivial = text has >=2 lines and (a non-ASCII line or a queried character beyond a line's end); distinct = distinct text".into()
    }
    fn assumptions(&self) -> Vec<String> {
        vec![
            "which terminators end a line (only \\n, or also lone \\r) is taken from the index's own line_count() and judged by C23; everything else is judged against an independent line table for that terminator set".into(),
            "a character past the end of a line may be clamped anywhere from the end of the line's content to the line's last offset (the position of its terminating \\n), because the property also demands that the offset between \\r and \\n round-trips".into(),
            "a character that points into the middle of a multi-unit character is only required to stay inside its line".into(),
        ]
    }
    fn cases(&self, tier: Tier) -> u32 {
        tier.pick(300_000, 2_000_000)
    }
    fn strategy(&self, tier: Tier) -> BoxedStrategy<Case> {
        texts::small_text(tier.pick(8, 10), tier.pick(12, 16)).prop_map(|text| Case { text }).boxed()
    }
    fn simplify(&self, c: &Case) -> Vec<Case> {
        util::text_simplify(&c.text).into_iter().map(|t| Case { text: t }).collect()
    }
    fn fixed_cases(&self, _tier: Tier) -> Vec<Case> {
        ["", "ab\ncd\nef", "ab\r\ncd\r\n", "é😀\nx", "a\rb\nc", "\n\n", "😀", "a\r\n\r\nb"].iter().map(|t| Case { text: t.to_string() }).collect()
    }
    fn local(&self) -> Local {
        let uri = file_path_to_uri(&PathBuf::from("/verif-c22/doc.lua")).expect("uri");
        Local { emmyrc: Arc::new(Emmyrc::default()), uri }
    }
    fn check(&self, c: &Case, local: &mut Local, obs: &mut Obs) -> Verdict {
        match catch(|| self.judge(&c.text, local, obs)) {
            Ok(Ok(nontrivial)) => Verdict::pass(nontrivial),
            Ok(Err(f)) => Verdict::Fail(f),
            Err(p) => Verdict::fail(format!("panic:{}", crate::props::c34::site(&p)), format!("conversion panicked: {p}; text={}", q(&c.text))),
        }
    }
}
