//! C06 — Formatting is idempotent.
use crate::engine::*;
use crate::gens::fmt_input::{self, FmtCase};
use crate::gens::{fmt_config, util};
use crate::oracle::tokcanon::{self, Quot};
use crate::props::c05::{label_input, run_formatter, site};
use emmylua_formatter::{check_text, format_text};
use proptest::prelude::*;

pub struct C06;

/// first differing line of two texts: (line number, byte offset in `a`, line of a, line of b)
pub fn first_diff_line(a: &str, b: &str) -> (usize, usize, String, String) {
    let mut off = 0usize;
    let mut la = a.split_inclusive('\n');
    let mut lb = b.split_inclusive('\n');
    let mut n = 1;
    loop {
        match (la.next(), lb.next()) {
            (Some(x), Some(y)) => {
                if x != y {
                    // offset of the first differing byte inside the line
                    let common = x.bytes().zip(y.bytes()).take_while(|(p, q)| p == q).count();
                    let mut o = off + common;
                    while !a.is_char_boundary(o) {
                        o -= 1;
                    }
                    return (n, o, x.to_string(), y.to_string());
                }
                off += x.len();
                n += 1;
            }
            (Some(x), None) => return (n, off, x.to_string(), "<EOF>".into()),
            (None, Some(y)) => return (n, off.min(a.len()), "<EOF>".into(), y.to_string()),
            (None, None) => return (n, off.min(a.len()), String::new(), String::new()),
        }
    }
}

/// Key of a layout-only difference between two passes (families first, construct + kind of change as fallback).
#[allow(clippy::too_many_arguments)]
fn layout_key(x: &tokcanon::Canon, f1: &str, t1: &emmylua_parser::LuaSyntaxTree, c1: &tokcanon::Canon, f2: &str, off: usize, l1: &str, l2: &str, cfg: &emmylua_formatter::LuaFormatConfig) -> String {
    let nows = |s: &str| s.chars().filter(|ch| !ch.is_whitespace()).collect::<String>();
    let (n1, n2) = (nows(l1), nows(l2));
    let lead = |s: &str| s.len() - s.trim_start().len();
    let change = if n1 == n2 {
        if lead(l1) != lead(l2) {
            "indent"
        } else {
            "space"
        }
    } else {
        "break"
    };
    if c1.comments.iter().any(|cm| cm.doc_err && cm.off <= off && off <= cm.end) {
        return "layout:malformed-doc".into();
    }
    // a comment between the tokens of a statement (in the input or still in pass 1's output)
    if !x.inner_regions.is_empty() || tokcanon::inner_comment_at(f1, c1, off).is_some() {
        return "layout:inner-comment".into();
    }
    let construct = tokcanon::construct_at(t1, off);
    if construct.starts_with("Comment") {
        return format!("layout:comment:{change}");
    }
    // an empty statement `;` (in the input, or still around the difference): it is dropped or re-attached to a
    // neighbouring line on every pass
    let near_lines = |text: &str| -> String {
        let start = text[..off.min(text.len())].rmatch_indices('\n').nth(1).map(|x| x.0 + 1).unwrap_or(0);
        let mut end = off.min(text.len());
        for _ in 0..3 {
            match text[end..].find('\n') {
                Some(k) => end += k + 1,
                None => end = text.len(),
            }
        }
        text[start..end].to_string()
    };
    let has_lone_semicolon = |t: &str| t.lines().any(|l| l.trim() == ";" || l.trim_end().ends_with(" ;") || l.trim_start().starts_with("; ") || l.contains("do ;") || l.contains("; end"));
    if x.n_empty_stats > 0 || has_lone_semicolon(&near_lines(f1)) || has_lone_semicolon(&near_lines(f2)) {
        return "layout:empty-statement".into();
    }
    if change == "space" {
        // which token the unstable gap precedes
        let common = l1.bytes().zip(l2.bytes()).take_while(|(x, y)| x == y).count();
        let next = |l: &str| l.get(common.min(l.len())..).unwrap_or("").trim_start().chars().next().unwrap_or(' ');
        let (x, y) = (next(l1), next(l2));
        let what = if x == '=' || y == '=' {
            "before-assign"
        } else if x == '(' || y == '(' {
            "before-call-paren"
        } else if x == '-' || y == '-' {
            "before-trailing-comment"
        } else {
            "other"
        };
        return format!("layout:space:{what}");
    }
    // width pressure: a line around the difference is close to max_line_width, or the statement header does not fit on one line
    let w = cfg.layout.max_line_width;
    let wide = |t: &str| near_lines(t).lines().any(|l| l.trim_end().chars().count() + 12 >= w);
    let header_too_wide = {
        let root = t1.get_red_root();
        let o = rowan::TextSize::new(off.min(f1.len().saturating_sub(1)) as u32);
        let stat = match root.token_at_offset(o) {
            rowan::TokenAtOffset::None => None,
            rowan::TokenAtOffset::Single(t) => t.parent(),
            rowan::TokenAtOffset::Between(_, t) => t.parent(),
        }
        .and_then(|n| n.ancestors().find(|x| tokcanon::is_stat(x.kind().to_syntax())));
        match stat {
            Some(st) => {
                let mut width = 0usize;
                for el in st.descendants_with_tokens() {
                    if let rowan::NodeOrToken::Token(t) = el {
                        let in_inner_block = t.parent_ancestors().take_while(|x| *x != st).any(|x| x.kind().to_syntax() == emmylua_parser::LuaSyntaxKind::Block);
                        let k = t.kind().to_token();
                        if !in_inner_block && !matches!(k, emmylua_parser::LuaTokenKind::TkWhitespace | emmylua_parser::LuaTokenKind::TkEndOfLine) {
                            width += t.text().chars().count() + 1;
                        }
                    }
                }
                width + 4 >= w
            }
            None => false,
        }
    };
    if wide(f1) || wide(f2) || header_too_wide {
        return format!("layout:width-break:{change}");
    }
    use emmylua_formatter::ExpandStrategy::Always;
    if cfg.layout.table_expand == Always || cfg.layout.call_args_expand == Always || cfg.layout.func_params_expand == Always {
        return "layout:forced-expand(Always)".into();
    }
    if change == "indent" {
        return "layout:continuation-indent".into();
    }
    let inner = construct.rsplit('/').next().unwrap_or("").to_string();
    if inner.starts_with("Table") {
        return format!("layout:table:{change}");
    }
    format!("layout:{inner}:{change}")
}

impl Property for C06 {
    type Case = FmtCase;
    type Local = ();
    fn thorough_family(&self, _c: &Self::Case, f: &Fail) -> Option<String> {
        if f.sig.starts_with("nonidempotent:") {
            Some("family:formatter-nonidempotent-unclassified-shape".into())
        } else {
            None
        }
    }
    fn id(&self) -> &'static str {
        "C06"
    }
    fn rule(&self) -> String {
        "cases = same input space as C05 (generated programs with comments, doc blocks and code fences | windows of std/*.lua and formatter-test snippets | their mutations) x 8 levels x generated LuaFormatConfig (width near a line length +-3 in 40% of the cases); judged when the input has no syntax error: f(f(x)) == f(x) for reformat_lua_code and check_text(format_text(x)).changed == false (a third pass only classifies drift vs. settle); non-trivial = f(x) != x; distinct = distinct case digest".into()
    }
    fn assumptions(&self) -> Vec<String> {
        vec!["inputs with syntax errors are returned unchanged by the formatter, hence trivially idempotent; they are counted as excluded, not judged".into()]
    }
    fn cases(&self, tier: Tier) -> u32 {
        tier.pick(250_000, 10_000_000)
    }
    fn strategy(&self, tier: Tier) -> BoxedStrategy<FmtCase> {
        fmt_input::case(tier)
    }
    fn fixed_cases(&self, tier: Tier) -> Vec<FmtCase> {
        fmt_input::fixed(tier)
    }
    fn simplify(&self, c: &FmtCase) -> Vec<FmtCase> {
        fmt_input::simplify(c)
    }
    fn local(&self) {}
    fn check(&self, c: &FmtCase, _: &mut (), obs: &mut Obs) -> Verdict {
        let tree = tokcanon::parse(&c.text, c.level);
        if tree.has_syntax_errors() {
            return Verdict::Skip("input-has-syntax-errors".into());
        }
        let a = tokcanon::canon_tree(&tree, Quot::of(&c.cfg));
        label_input(c, &a, obs);
        let f1 = match run_formatter(&c.text, c.level, &c.cfg) {
            Ok(o) => o,
            Err(_) => return Verdict::Skip("formatter-panic-pass1(C05)".into()),
        };
        let f2 = match run_formatter(&f1, c.level, &c.cfg) {
            Ok(o) => o,
            Err(p) => return Verdict::fail(format!("panic-pass2:{}", site(&p)), format!("formatter panicked on its own output: {p}")),
        };
        obs.class_if(f1 != c.text, "f(x)!=x");
        // the output is not a function of (input, config) for blocks with two doc tags on one line (HashMap order):
        // probed, and reported under its own signature instead of as some random instability
        let c1x = tokcanon::canon_tree(&tokcanon::parse(&f1, c.level), Quot::of(&c.cfg));
        let multi = a.multi_tag_lines > 0 || c1x.multi_tag_lines > 0;
        if a.risky_doc_blocks > 0 || c1x.risky_doc_blocks > 0 {
            obs.class("doc-block-with-continuation-or-two-tags");
            let mut stable = true;
            for _ in 0..4 {
                stable = stable && run_formatter(&c.text, c.level, &c.cfg).map(|o| o == f1).unwrap_or(false) && run_formatter(&f1, c.level, &c.cfg).map(|o| o == f2).unwrap_or(false);
            }
            if !stable {
                return Verdict::fail(
                    "nondeterministic-output",
                    format!("formatting the same text twice gives different outputs (so --check after --write can report changes); cfg: {}; input: {:?}", fmt_config::describe(&c.cfg), one_line(&c.text, 300)),
                );
            }
        }
        if f2 != f1 {
            let t1 = tokcanon::parse(&f1, c.level);
            if t1.has_syntax_errors() {
                // f(x) does not parse: C05 clause A; f(f(x)) == f(x) would hold trivially, so this cannot happen
                return Verdict::Skip("pass1-output-has-syntax-errors(C05)".into());
            }
            let (line, off, l1, l2) = first_diff_line(&f1, &f2);
            let q = Quot::of(&c.cfg);
            let c1 = tokcanon::canon_tree(&t1, q);
            let t2 = tokcanon::parse(&f2, c.level);
            let c2 = tokcanon::canon_tree(&t2, q);
            let f3 = run_formatter(&f2, c.level, &c.cfg).unwrap_or_default();
            let behaviour = if f3 == f2 {
                "settles"
            } else if f3 == f1 {
                "oscillates"
            } else {
                "drifts"
            };
            obs.class(&format!("nonidempotent:{behaviour}"));
            // Root-cause key: the passes differ in content, or in layout only (construct + kind of change).
            // Pass 1 already changed or lost content: that is a C05 violation, and the instability that follows is the
            // same defect seen a second time; it is counted as excluded here (C05 reports it).
            if tokcanon::compare(&c.text, &a, &f1, &c1, &c.cfg).is_some() {
                return Verdict::Skip("pass1-violates-C05".into());
            }
            let construct = match tokcanon::compare(&f1, &c1, &f2, &c2, &c.cfg) {
                _ if multi => "doc-line-with-second-comment-prefix".to_string(),
                Some(d) if crate::props::c05::open_c05_signatures().contains(&d.sig) => return Verdict::Skip("pass2-shows-known-C05-family".into()),
                Some(d) => format!("content:{}", d.sig),
                None => layout_key(&a, &f1, &t1, &c1, &f2, off, &l1, &l2, &c.cfg),
            };
            return Verdict::fail(
                format!("nonidempotent:{construct}"),
                format!(
                    "f(f(x)) != f(x) ({behaviour} at pass 3); first difference at line {line}: pass1 {:?} pass2 {:?}; cfg: {}; input: {:?}",
                    l1,
                    l2,
                    fmt_config::describe(&c.cfg),
                    one_line(&c.text, 400)
                ),
            );
        }
        // `luafmt --check` right after `luafmt --write`
        let w = format_text(&c.text, util::level(c.level), &c.cfg);
        let ck = check_text(&w.formatted, util::level(c.level), &c.cfg);
        if ck.changed || !ck.changed_line_ranges.is_empty() || ck.formatted != w.formatted {
            return Verdict::fail("check-after-write-reports-changes", "check_text(format_text(x).formatted) reports changes although reformat_lua_code is idempotent here");
        }
        Verdict::pass(f1 != c.text)
    }
}
