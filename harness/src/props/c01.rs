//! C01 — Syntax trees are lossless for every input text.
use crate::engine::*;
use crate::gens::{soup, util};
use emmylua_parser::{LuaFeatures, LuaFeaturesSet, LuaParser, ParserConfig};
use proptest::prelude::*;
use serde::{Deserialize, Serialize};
use std::collections::HashMap;

#[derive(Clone, Debug, Serialize, Deserialize)]
pub struct Case {
    pub text: String,
    pub level: u8,
    pub doc: bool,
    pub ext: u8,
    pub cache: bool,
    pub src: String,
}

pub struct C01;

pub fn parser_config<'a>(level: u8, doc: bool, ext: u8, cache: Option<&'a mut rowan::NodeCache>) -> ParserConfig<'a> {
    let mut feats = vec![];
    if ext & 1 != 0 {
        feats.push(LuaFeatures::DoubleSlash);
    }
    if ext & 2 != 0 {
        feats.push(LuaFeatures::SlashStar);
    }
    ParserConfig::new(util::level(level), cache, HashMap::new(), LuaFeaturesSet::new(feats), doc)
}

pub fn text_strategy(tier: Tier) -> BoxedStrategy<(String, String)> {
    let corpus = std::sync::Arc::new(util::corpus_files());
    let n = corpus.len().max(1);
    let c2 = corpus.clone();
    let max_frag = tier.pick(60, 400);
    let max_bytes = tier.pick(512, 8192);
    prop_oneof![
        5 => soup::soup(max_frag).prop_map(|s| (s, "soup".to_string())),
        2 => (0..n, proptest::collection::vec(util::mut_strategy(), 1..6), any::<u16>(), 64usize..2048).prop_map(move |(i, muts, start, len)| {
            let base = corpus.get(i).map(|x| x.1.as_str()).unwrap_or("local x = 1\n");
            // window of the file so cases stay small
            let mut a = util::idx(start, base.len());
            while !base.is_char_boundary(a) { a -= 1; }
            let mut b = (a + len).min(base.len());
            while !base.is_char_boundary(b) { b -= 1; }
            let mut t = base[a..b].to_string();
            for m in &muts { t = util::apply_mut(&t, m); }
            (t, "mutate".to_string())
        }),
        1 => soup::lossy_bytes(max_bytes).prop_map(|s| (s, "bytes".to_string())),
        2 => doc_heavy(tier.pick(12, 60)).prop_map(|s| (s, "doc".to_string())),
        1 => (0..n).prop_map(move |i| (c2.get(i).map(|x| x.1.clone()).unwrap_or_default(), "corpus".to_string())),
    ]
    .boxed()
}

/// doc-annotation-heavy text: tag lines with doc types, multi-line unions, long-comment docs, code fences, injected errors
pub fn doc_heavy(max_lines: usize) -> impl Strategy<Value = String> {
    const TAGS: &[&str] = &[
        "---@class ", "---@field ", "---@param ", "---@return ", "---@type ", "---@alias ", "---@generic ", "---@overload ", "---@enum ",
        "---@cast ", "---@operator ", "---@diagnostic ", "---@see ", "---@as ", "---@module ", "---@namespace ", "---@version ",
        "---@field public ", "---@field private [", "---|", "---| ", "--- ", "---", "--[[@type ", "--[[@class ", "---@param x ",
        "---@return ", "---@type fun(", "---@alias A\n---| ", "---@attribute ", "---@using ", "---@export ", "---@language ",
    ];
    const TYPES: &[&str] = &[
        "string", "integer", "number?", "A", "A.B", "A<B>", "A<B, C<D>>", "string[]", "(string|integer)[]", "table<string, A>", "fun(a: string, ...: any): integer, string",
        "fun()", "async fun(x): A", "{ a: integer, b?: string, [1]: boolean }", "[integer, string]", "'lit'", "\"lit\"", "1", "-1", "true", "`T`", "T...",
        "A | B | nil", "A & B", "keyof A", "A extends B and C or D", "(A)", "((A))", "A[][]", "A?[]", "{", "<", "(", "[", "fun(", "|", ",", "?", "...", "😀", "名",
    ];
    const TAIL: &[&str] = &["", " # desc", " desc 名", " @ x", " ```lua", " \u{0}", ", ", " |", " --", " ]]", "\r", " \t"];
    const CODE: &[&str] = &[
        "local x = 1", "function f() end", "return", "local t = {", "}", "end", "x = x + 1 -- c", "print(x) --[[ c ]]", "--[[", "]]", "```lua", "```", "",
        "local s = [[", "--[==[", "]==]", "::l::", "goto l", "if x then", "for i = 1, 2 do",
    ];
    let line = prop_oneof![
        4 => (0..TAGS.len(), proptest::collection::vec(0..TYPES.len(), 0..4), 0..TAIL.len(), 0u8..3).prop_map(|(t, tys, tail, sep)| {
            let mut s = TAGS[t].to_string();
            for (k, ty) in tys.iter().enumerate() {
                if k > 0 { s.push_str(match sep { 0 => " ", 1 => ", ", _ => " | " }); }
                s.push_str(TYPES[*ty]);
            }
            s.push_str(TAIL[tail]);
            s
        }),
        1 => (0..CODE.len()).prop_map(|i| CODE[i].to_string()),
    ];
    (proptest::collection::vec((line, 0u8..8), 0..max_lines)).prop_map(|ls| {
        let mut s = String::new();
        for (l, e) in ls {
            s.push_str(&l);
            s.push_str(match e { 0 => "\r\n", 1 => "\r", 2 => "\n\n", 3 => "\n  ", _ => "\n" });
        }
        s
    })
}

/// the losslessness oracle; returns None when lossless, else a description
pub fn lossless(text: &str, tree: &emmylua_parser::LuaSyntaxTree) -> Option<String> {
    let root = tree.get_red_root();
    let mut pos: usize = 0;
    let mut ntok = 0usize;
    for el in root.descendants_with_tokens() {
        if let rowan::NodeOrToken::Token(t) = el {
            let r = t.text_range();
            let (s, e) = (usize::from(r.start()), usize::from(r.end()));
            if s != pos {
                return Some(format!("token #{ntok} {:?} starts at {s}, expected {pos}", t.kind()));
            }
            if e > text.len() || !text.is_char_boundary(s) || !text.is_char_boundary(e) || &text[s..e] != t.text() {
                return Some(format!("token #{ntok} {:?} text differs from input[{s}..{e}]", t.kind()));
            }
            pos = e;
            ntok += 1;
        }
    }
    if pos != text.len() {
        return Some(format!("tokens end at {pos}, input length {} (dropped suffix {:?})", text.len(), crate::engine::one_line(&text[pos..].chars().take(40).collect::<String>(), 80)));
    }
    let whole = root.text().to_string();
    if whole != text {
        return Some("root.text() != input".to_string());
    }
    None
}

impl Property for C01 {
    type Case = Case;
    type Local = rowan::NodeCache;
    fn id(&self) -> &'static str {
        "C01"
    }
    fn rule(&self) -> String {
        "cases = (text from token soup / mutated windows of std/*.lua / lossy bytes / doc-annotation-heavy lines / whole corpus files) x 8 language levels x doc on/off x non-standard-symbol bits x shared NodeCache on/off; non-trivial = tree has >=2 tokens and the text has a comment, doc tag, syntax error, non-ASCII char or CR; distinct = distinct case digest".into()
    }
    fn cases(&self, tier: Tier) -> u32 {
        tier.pick(3_000_000, 60_000_000)
    }
    fn strategy(&self, tier: Tier) -> BoxedStrategy<Case> {
        (text_strategy(tier), 0u8..8, any::<bool>(), 0u8..4, any::<bool>())
            .prop_map(|((text, src), level, doc, ext, cache)| Case { text, level, doc, ext, cache, src })
            .boxed()
    }
    fn simplify(&self, c: &Case) -> Vec<Case> {
        util::text_simplify(&c.text).into_iter().map(|t| Case { text: t, ..c.clone() }).collect()
    }
    fn local(&self) -> rowan::NodeCache {
        rowan::NodeCache::default()
    }
    fn check(&self, c: &Case, cache: &mut rowan::NodeCache, obs: &mut Obs) -> Verdict {
        let cfg = parser_config(c.level, c.doc, c.ext, if c.cache { Some(cache) } else { None });
        let tree = match catch(|| LuaParser::parse(&c.text, cfg)) {
            Ok(t) => t,
            Err(_) => return Verdict::Skip("parser-panic(C02)".into()),
        };
        obs.class(&format!("src:{}", c.src));
        obs.class(util::level_name(c.level));
        obs.class_if(c.cache, "shared-cache");
        obs.class_if(!c.doc, "doc-off");
        let has_nul = c.text.contains('\0');
        obs.class_if(has_nul, "has-NUL");
        obs.class_if(c.text.starts_with('\u{FEFF}'), "BOM-first");
        if let Some(why) = lossless(&c.text, &tree) {
            let sig = if has_nul { "lossy:nul" } else { "lossy:other" };
            return Verdict::fail(sig, format!("{why}; level={} doc={} ext={} text={:?}", util::level_name(c.level), c.doc, c.ext, one_line(&c.text, 300)));
        }
        let ntok = tree.get_red_root().descendants_with_tokens().filter(|e| e.as_token().is_some()).take(3).count();
        let interesting = c.text.contains("--") || !tree.get_errors().is_empty() || !c.text.is_ascii() || c.text.contains('\r');
        obs.class_if(!tree.get_errors().is_empty(), "has-errors");
        Verdict::pass(ntok >= 2 && interesting)
    }
}
