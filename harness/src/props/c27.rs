//! C27 — Document notifications take effect in message order.
use crate::engine::*;
use crate::ls::disk::TempWs;
use crate::ls::{did_change, did_close, did_open, Ls, LsOpts};
use proptest::prelude::*;
use serde::{Deserialize, Serialize};

#[derive(Clone, Debug, Serialize, Deserialize)]
pub enum Op {
    /// open the document if closed, otherwise change it (full-document sync, as advertised)
    Edit(u8),
    Close(u8),
    Save(u8),
    /// workspace/didChangeConfiguration: a workspace reload task is spawned and runs concurrently with what follows
    #[serde(alias = "Reload")]
    Reload,
    Advance(u16),
}

#[derive(Clone, Debug, Serialize, Deserialize)]
pub struct Case {
    pub ops: Vec<Op>,
    pub schedule: Vec<u8>,
    pub pull: bool,
}

pub struct C27;

/// docs 0,1: not on disk; doc 2: on disk inside the per-thread scratch workspace
const NDOCS: u8 = 3;

fn op_strategy() -> impl Strategy<Value = Op> {
    prop_oneof![
        6 => (0..NDOCS).prop_map(Op::Edit),
        2 => (0..NDOCS).prop_map(Op::Close),
        1 => (0..NDOCS).prop_map(Op::Save),
        1 => Just(Op::Reload),
        1 => (0u16..1200).prop_map(Op::Advance),
    ]
}

impl Property for C27 {
    type Case = Case;
    type Local = TempWs;
    fn id(&self) -> &'static str {
        "C27"
    }
    fn rule(&self) -> String {
        "cases = protocol-respecting notification sequences (2-25 of didOpen/didChange/didClose/didSave, workspace reloads triggered by didChangeConfiguration, virtual-time gaps) over 3 documents (2 not on disk, 1 on disk) played through the real notification dispatcher in-process, x a schedule vector consumed by the scheduling points at spawned-task starts and lock acquisitions (empty vector = natural FIFO schedule) x push/pull client; oracle = last-writer-wins in message order: after quiescence an open document's analysis text and the workspace manager's open-file text equal the text of its last open/change, a document closed last is not in the open-file table and (if not on disk) not in the analysis; non-trivial = an open immediately followed by a change of the same document, or a close/reopen pair".into()
    }
    fn assumptions(&self) -> Vec<String> {
        vec!["interleavings explored at await granularity on one thread; schedule vectors are sampled, not enumerated".into()]
    }
    fn cases(&self, tier: Tier) -> u32 {
        tier.pick(4000, 200_000)
    }
    fn strategy(&self, tier: Tier) -> BoxedStrategy<Case> {
        (
            proptest::collection::vec(op_strategy(), 2..tier.pick(25, 50)),
            prop_oneof![1 => Just(vec![]), 3 => proptest::collection::vec(any::<u8>(), 0..60)],
            any::<bool>(),
        )
            .prop_map(|(ops, schedule, pull)| Case { ops, schedule, pull })
            .boxed()
    }
    fn local(&self) -> TempWs {
        TempWs::new("c27")
    }
    fn check(&self, c: &Case, ws: &mut TempWs, obs: &mut Obs) -> Verdict {
        let _ = take_panics();
        ws.clear();
        ws.write("disk.lua", "local on_disk = 0\n");
        let uris = [
            // inside the workspace root (so the server analyses them) but never created on disk
            crate::ls::uri_for(ws.path("virt_a.lua").to_str().unwrap()),
            crate::ls::uri_for(ws.path("sub/virt_b.lua").to_str().unwrap()),
            crate::ls::uri_for(ws.path("disk.lua").to_str().unwrap()),
        ];
        let mut ls = Ls::new(LsOpts { pull_diagnostics: c.pull, schedule: c.schedule.clone(), roots: vec![ws.root.clone()], load_disk: true, ..Default::default() });
        // model: per doc (open?, last text), history kinds for classification
        let mut open = [false; NDOCS as usize];
        let mut last_text: [Option<String>; NDOCS as usize] = [None, None, None];
        let mut hist: [Vec<char>; NDOCS as usize] = [vec![], vec![], vec![]];
        let mut prev: Option<(usize, char)> = None;
        let mut nontrivial = false;
        let mut version = 0;
        for (i, op) in c.ops.iter().enumerate() {
            match op {
                Op::Edit(d) => {
                    let d = *d as usize;
                    let text = format!("local v{i} = {i}\nreturn v{i}\n");
                    version += 1;
                    if open[d] {
                        ls.notify("textDocument/didChange", did_change(&uris[d], version, &text));
                        if prev == Some((d, 'o')) {
                            nontrivial = true;
                            obs.class("open-then-change");
                        }
                        hist[d].push('c');
                        prev = Some((d, 'c'));
                    } else {
                        ls.notify("textDocument/didOpen", did_open(&uris[d], &text));
                        if hist[d].last() == Some(&'x') {
                            nontrivial = true;
                            obs.class("close-reopen");
                        }
                        open[d] = true;
                        hist[d].push('o');
                        prev = Some((d, 'o'));
                    }
                    last_text[d] = Some(text);
                }
                Op::Close(d) => {
                    let d = *d as usize;
                    if open[d] {
                        ls.notify("textDocument/didClose", did_close(&uris[d]));
                        open[d] = false;
                        hist[d].push('x');
                        prev = Some((d, 'x'));
                    }
                }
                Op::Save(d) => {
                    let d = *d as usize;
                    if open[d] {
                        ls.notify("textDocument/didSave", serde_json::json!({"textDocument": {"uri": uris[d]}}));
                        prev = None;
                    }
                }
                Op::Reload => {
                    ls.notify("workspace/didChangeConfiguration", serde_json::json!({"settings": {"n": i}}));
                    obs.class("reload-in-flight");
                }
                Op::Advance(ms) => {
                    ls.advance(*ms as u64);
                    prev = None;
                }
            }
        }
        ls.settle();
        let panics = take_panics();
        if let Some(p) = panics.first() {
            return Verdict::fail(format!("panic:{}", panic_site(p)), format!("a server task panicked: {panics:?}"));
        }
        let open_texts = ls.open_file_texts();
        obs.class(if c.schedule.is_empty() { "natural-schedule" } else { "generated-schedule" });
        for d in 0..NDOCS as usize {
            let uri = &uris[d];
            let in_table = open_texts.iter().find(|(u, _)| u == uri).map(|x| x.1.clone());
            let analysis_text: Option<String> = ls.with_analysis(|a| {
                let id = a.get_file_id(uri)?;
                a.compilation.get_db().get_vfs().get_file_content(&id).cloned()
            });
            let h: String = hist[d].iter().collect();
            if open[d] {
                let want = last_text[d].clone().unwrap_or_default();
                if analysis_text.as_deref() != Some(want.as_str()) {
                    let stale_from = if h.ends_with("oc") || h.contains("oc") { "open-overwrites-later-change" } else { "other" };
                    return Verdict::fail(
                        format!("stale-analysis-text:{stale_from}"),
                        format!("doc {d} (history {h}) is open with last text {want:?} but the analysis holds {analysis_text:?}"),
                    );
                }
                if in_table.as_deref() != Some(want.as_str()) {
                    return Verdict::fail("stale-open-file-text", format!("doc {d} (history {h}): open-file table holds {in_table:?}, expected {want:?}"));
                }
            } else if !hist[d].is_empty() {
                if in_table.is_some() {
                    return Verdict::fail("closed-doc-still-open", format!("doc {d} (history {h}) was closed last but is still in the open-file table"));
                }
                if d < 2 && analysis_text.is_some() {
                    return Verdict::fail("closed-virtual-doc-still-analysed", format!("doc {d} (history {h}, not on disk) was closed last but the analysis still holds {analysis_text:?}"));
                }
            }
        }
        Verdict::pass(nontrivial)
    }
}
