//! C21 — Reported diagnostics are well-formed and complete for syntax errors.
use crate::engine::*;
use crate::gens::lua_ast::{self as la, Layout, Program, Size};
use crate::gens::{soup, util};
use crate::props::c03::emmyrc_for;
use emmylua_code_analysis::{DiagnosticCode, FileId, VirtualWorkspace};
use emmylua_parser::LuaParseErrorKind;
use proptest::prelude::*;
use serde::{Deserialize, Serialize};
use std::collections::BTreeSet;
use tokio_util::sync::CancellationToken;

#[derive(Clone, Debug, Serialize, Deserialize)]
pub enum Src {
    /// generated valid program, then `muts` grammar-blind text mutations
    Gen { prog: Program, layout: Layout, muts: Vec<util::Mut> },
    Text { text: String, label: String },
}

#[derive(Clone, Debug, Serialize, Deserialize)]
pub struct Case {
    pub src: Src,
    /// analyzer language level (index of `gens::util::level`)
    pub level: u8,
    /// enable every diagnostic code (default: the default set)
    pub all_codes: bool,
    /// workspace with the bundled std library loaded
    pub std: bool,
}

pub struct C21;

#[derive(Default)]
pub struct Local {
    plain: Option<VirtualWorkspace>,
    std: Option<VirtualWorkspace>,
}

fn make_ws(std: bool) -> VirtualWorkspace {
    if std { VirtualWorkspace::new_with_init_std_lib() } else { VirtualWorkspace::new() }
}

fn configure(ws: &mut VirtualWorkspace, level: u8, all_codes: bool) {
    let mut e = emmyrc_for(level);
    if all_codes {
        e.diagnostics.enables = DiagnosticCode::all().to_vec();
    }
    ws.update_emmyrc(e);
}

#[derive(Clone, Debug, PartialEq, Eq, PartialOrd, Ord)]
struct D {
    range: (u32, u32, u32, u32),
    code: String,
    message: String,
    has_severity: bool,
}

struct Observed {
    diags: Vec<D>,
    /// (kind is doc error, message, start offset, end offset)
    parse_errors: Vec<(bool, String, usize, usize)>,
}

fn observe(ws: &mut VirtualWorkspace, text: &str) -> Option<Observed> {
    let id: FileId = ws.def_file("c21.lua", text);
    let diags = ws.analysis.diagnose_file(id, CancellationToken::new())?;
    let diags = diags
        .into_iter()
        .map(|d| D {
            range: (d.range.start.line, d.range.start.character, d.range.end.line, d.range.end.character),
            code: match &d.code {
                Some(lsp_types::NumberOrString::String(s)) => s.clone(),
                Some(lsp_types::NumberOrString::Number(n)) => format!("#{n}"),
                None => String::new(),
            },
            message: d.message.clone(),
            has_severity: d.severity.is_some(),
        })
        .collect();
    let db = ws.analysis.compilation.get_db();
    let tree = db.get_vfs().get_syntax_tree(&id)?;
    let parse_errors = tree
        .get_errors()
        .iter()
        .map(|e| (matches!(e.kind, LuaParseErrorKind::DocError), e.message.to_string(), usize::from(e.range.start()), usize::from(e.range.end())))
        .collect();
    Some(Observed { diags, parse_errors })
}

/// position of a byte offset in the server's own unit: lines end at LF, columns count characters
fn line_col(text: &str, off: usize) -> Option<(u32, u32)> {
    if off > text.len() || !text.is_char_boundary(off) {
        return None;
    }
    let before = &text[..off];
    let line = before.bytes().filter(|b| *b == b'\n').count();
    let start = before.rfind('\n').map(|i| i + 1).unwrap_or(0);
    Some((line as u32, text[start..off].chars().map(|c| c.len_utf16()).sum::<usize>() as u32))
}

/// an unsubstituted `%{name}` placeholder of the message catalogue (not one echoed from the source text)
fn has_placeholder(msg: &str, text: &str) -> bool {
    let mut rest = msg;
    while let Some(i) = rest.find("%{") {
        let tail = &rest[i + 2..];
        let n = tail.bytes().take_while(|b| b.is_ascii_alphanumeric() || *b == b'_').count();
        if n > 0 && tail[n..].starts_with('}') && !text.contains(&rest[i..i + 2 + n + 1]) {
            return true;
        }
        rest = tail;
    }
    false
}

fn judge(text: &str, o: &Observed, completeness: bool) -> Result<(), (String, String)> {
    let lines: Vec<u32> = text.split('\n').map(|l| l.chars().map(|c| c.len_utf16()).sum::<usize>() as u32).collect();
    let known: BTreeSet<String> = DiagnosticCode::all().iter().map(|c| c.get_name().to_string()).collect();
    for d in &o.diags {
        let (sl, sc, el, ec) = d.range;
        let slug = crate::props::c03::slug(&d.message);
        if (sl, sc) > (el, ec) {
            return Err((format!("range-start-after-end:{}", d.code), format!("{:?}", d)));
        }
        for (l, c) in [(sl, sc), (el, ec)] {
            if l as usize >= lines.len() {
                return Err((format!("range-line-out-of-document:{}", d.code), format!("{:?} but the document has {} lines", d, lines.len())));
            }
            if c > lines[l as usize] {
                return Err((format!("range-character-beyond-line:{}", d.code), format!("{:?} but line {} has {} UTF-16 code units", d, l, lines[l as usize])));
            }
        }
        if !known.contains(d.code.as_str()) || d.code == "none" {
            return Err((format!("unknown-code:{}", d.code), format!("{:?}", d)));
        }
        if !d.has_severity {
            return Err((format!("no-severity:{}", d.code), format!("{:?}", d)));
        }
        if d.message.trim().is_empty() {
            return Err((format!("empty-message:{}", d.code), format!("{:?}", d)));
        }
        if has_placeholder(&d.message, text) {
            return Err((format!("unsubstituted-placeholder:{}:{}", d.code, slug), format!("{:?}", d)));
        }
    }
    // exact duplicates
    let mut sorted: Vec<&D> = o.diags.iter().collect();
    sorted.sort();
    for w in sorted.windows(2) {
        if w[0] == w[1] {
            // root cause 1: the parser itself recorded the same (range, message) twice
            let twice_in_tree = o.parse_errors.iter().filter(|(_, m, a, b)| *m == w[0].message && line_col(text, *a).zip(line_col(text, *b)).map(|(s, e)| (s.0, s.1, e.0, e.1)) == Some(w[0].range)).count() >= 2;
            let sig = if twice_in_tree && w[0].code.ends_with("syntax-error") { "duplicate:parse-error-recorded-twice".to_string() } else { format!("duplicate:{}:{}", w[0].code, crate::props::c03::slug(&w[0].message)) };
            return Err((sig, format!("{:?} is reported twice", w[0])));
        }
    }
    if completeness {
        for (doc, msg, a, b) in &o.parse_errors {
            let code = if *doc { "doc-syntax-error" } else { "syntax-error" };
            let (Some(s), Some(e)) = (line_col(text, *a), line_col(text, *b)) else {
                return Err((format!("parse-error-range-not-in-text:{}", code), format!("parse error {:?} at {}..{} (text length {})", msg, a, b, text.len())));
            };
            let want = (s.0, s.1, e.0, e.1);
            let found = o.diags.iter().any(|d| d.code == code && d.message == *msg && d.range == want);
            if !found {
                let near: Vec<&D> = o.diags.iter().filter(|d| d.code == code && d.message == *msg).collect();
                let sig = if near.is_empty() { format!("parse-error-not-reported:{}", code) } else { format!("parse-error-at-other-range:{}", code) };
                return Err((sig, format!("parse error {:?} at bytes {}..{} = {:?} has no {} diagnostic there; same-message diagnostics: {:?}", msg, a, b, want, code, near)));
            }
        }
    }
    Ok(())
}

impl C21 {
    fn text_of(c: &Case) -> String {
        match &c.src {
            Src::Text { text, .. } => text.clone(),
            Src::Gen { prog, layout, muts } => {
                let mut p = prog.clone();
                la::sanitize(&mut p);
                let mut t = la::render(&p, layout).text;
                for m in muts {
                    t = util::apply_mut(&t, m);
                }
                t
            }
        }
    }
}

impl Property for C21 {
    type Case = Case;
    type Local = Local;
    fn id(&self) -> &'static str {
        "C21"
    }
    fn rule(&self) -> String {
        "cases = (valid lua_ast programs | lua_ast programs with 1-4 grammar-blind text mutations | token soup | C01's mutated/truncated corpus windows, lossy bytes, doc-heavy text, whole std files) x 8 language levels x default/all-codes configuration x std library on/off; oracle on the diagnose_file list: start<=end, both positions inside the document (line < LF-separated line count, character <= characters of that line), code in DiagnosticCode::all(), severity present, message non-empty without %{, no exact (range, code, message) duplicate, every tree.get_errors() entry present as syntax-error/doc-syntax-error at its translated range (completeness only for texts without ---@diagnostic / ---@meta). non-trivial = >=1 parse error or >=3 distinct diagnostic codes".into()
    }
    fn cases(&self, tier: Tier) -> u32 {
        tier.pick(300_000, 6_000_000)
    }
    // doc-heavy text can declare a self-referential generic alias (`---@alias A` + `---| A<B>`), whose analysis recurses
    // until the stack is gone (open finding C12-F3): the cases run in a worker child so that such an abort is a
    // per-case outcome.  Crash freedom is C12's property; here the case is only counted as not judged.
    fn isolated(&self) -> bool {
        true
    }
    fn on_abort(&self, _case: &Case, how: &str, stderr: &str, _msg: String) -> Verdict {
        if stderr.contains("overflowed its stack") {
            Verdict::Skip("analysis-stack-overflow(C12)".into())
        } else {
            Verdict::Skip(format!("analysis-abort(C12):{how}"))
        }
    }
    fn strategy(&self, tier: Tier) -> BoxedStrategy<Case> {
        let size = Size::for_tier(tier);
        let gen_valid = la::any_program(size).prop_map(|(prog, layout)| Src::Gen { prog, layout, muts: vec![] });
        let gen_mut = (la::any_program(size), proptest::collection::vec(util::mut_strategy(), 1..5)).prop_map(|((prog, layout), muts)| Src::Gen { prog, layout, muts });
        let soup = soup::soup(tier.pick(60, 300)).prop_map(|text| Src::Text { text, label: "soup".into() });
        let c01 = crate::props::c01::text_strategy(tier).prop_map(|(text, label)| Src::Text { text, label });
        let src = prop_oneof![3 => gen_valid, 4 => gen_mut, 2 => soup, 4 => c01];
        (src, 0u8..8, any::<bool>(), prop_oneof![3 => Just(false), 1 => Just(true)]).prop_map(|(src, level, all_codes, std)| Case { src, level, all_codes, std }).boxed()
    }
    fn simplify(&self, c: &Case) -> Vec<Case> {
        let mut out = vec![];
        if c.std {
            out.push(Case { std: false, ..c.clone() });
        }
        if c.all_codes {
            out.push(Case { all_codes: false, ..c.clone() });
        }
        // continue on the text itself (ddmin)
        let text = C21::text_of(c);
        if let Src::Gen { .. } = c.src {
            out.push(Case { src: Src::Text { text: text.clone(), label: "gen".into() }, ..c.clone() });
        }
        for t in util::text_simplify(&text) {
            out.push(Case { src: Src::Text { text: t, label: "min".into() }, ..c.clone() });
        }
        out
    }
    fn local(&self) -> Local {
        Local::default()
    }
    fn check(&self, c: &Case, local: &mut Local, obs: &mut Obs) -> Verdict {
        let text = C21::text_of(c);
        let slot = if c.std { &mut local.std } else { &mut local.plain };
        if slot.is_none() {
            *slot = Some(make_ws(c.std));
        }
        let r = {
            let ws = slot.as_mut().unwrap();
            catch(|| {
                configure(ws, c.level, c.all_codes);
                observe(ws, &text)
            })
        };
        let o = match r {
            Ok(Some(o)) => o,
            Ok(None) => return Verdict::Skip("no-diagnostics-produced".into()),
            Err(e) => {
                *slot = None; // state after a panic is unknown
                obs.class(&format!("panic:{}", panic_site(&e).trim_start_matches("/var/tmp/ag/ast/repo/")));
                return Verdict::Skip("analysis-panic(C12)".into());
            }
        };
        obs.class(match &c.src {
            Src::Gen { muts, .. } if muts.is_empty() => "src:lua_ast-valid",
            Src::Gen { .. } => "src:lua_ast-mutated",
            Src::Text { label, .. } => match label.as_str() {
                "soup" => "src:soup",
                "mutate" => "src:corpus-mutated",
                "bytes" => "src:bytes",
                "doc" => "src:doc-heavy",
                "corpus" => "src:corpus-file",
                _ => "src:text",
            },
        });
        obs.class(util::level_name(c.level));
        obs.class(if c.all_codes { "config:all-codes" } else { "config:default" });
        obs.class(if c.std { "std:on" } else { "std:off" });
        let completeness = !text.contains("diagnostic") && !text.contains("meta");
        obs.class_if(!completeness, "completeness-not-judged(suppression text)");
        let codes: BTreeSet<&str> = o.diags.iter().map(|d| d.code.as_str()).collect();
        for code in &codes {
            obs.class(&format!("code:{}", code));
        }
        obs.count("diagnostics", o.diags.len() as u64);
        obs.count("parse_errors", o.parse_errors.len() as u64);
        if let Err((sig, msg)) = judge(&text, &o, completeness) {
            // confirm on a fresh workspace: state carried over from earlier cases must not be charged to this case
            let confirm = catch(|| {
                let mut ws = make_ws(c.std);
                configure(&mut ws, c.level, c.all_codes);
                observe(&mut ws, &text)
            });
            match confirm {
                Ok(Some(o2)) => {
                    if let Err((sig2, msg2)) = judge(&text, &o2, completeness) {
                        return Verdict::fail(sig2, format!("{msg2}; level={} all_codes={} std={} text={:?}", util::level_name(c.level), c.all_codes, c.std, one_line(&text, 400)));
                    }
                    obs.class("reused-workspace-differs(C04/C08)");
                    let _ = (sig, msg);
                }
                _ => return Verdict::Skip("analysis-panic(C12)".into()),
            }
        }
        Verdict::pass(!o.parse_errors.is_empty() || codes.len() >= 3)
    }
}
