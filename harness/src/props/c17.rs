//! C17 — Rendered types read back as the same type.
use crate::engine::*;
use crate::gens::doc_types::{self as dt, Profile, Ty, World};
use crate::oracle::tyws;
use emmylua_code_analysis::{RenderLevel, humanize_type};
use proptest::prelude::*;
use serde::{Deserialize, Serialize};

#[derive(Clone, Debug, Serialize, Deserialize)]
pub struct Case {
    pub world: World,
    pub ty: Ty,
    /// 0 = RenderLevel::Documentation (full detail), 1 = RenderLevel::Detailed (what hovers use; smaller size limits)
    #[serde(default)]
    pub level: u8,
}

pub struct C17;

pub enum Outcome {
    Pass { rendered: String },
    Skip(&'static str),
    /// the generated annotation text itself has a syntax error (message kept for the class histogram)
    GenSyntax(String),
    Fail { what: &'static str, msg: String },
}

/// one round trip: annotation text -> type A -> rendering s -> type B; A and B must agree
pub fn round_trip(world: &World, ty: &Ty, level: u8) -> Outcome {
    let text = world.render(ty);
    let (mut ws, _) = tyws::workspace(world);
    let (fa, a) = match tyws::materialise(&mut ws, "a.lua", std::slice::from_ref(&text)) {
        Ok((f, mut v)) => (f, v.remove(0)),
        Err(_) => return Outcome::Skip("gen-not-materialised"),
    };
    if let Some(e) = tyws::syntax_errors(&ws, fa).first() {
        // the generated annotation itself is not accepted by the doc parser: not a case of this property
        return Outcome::GenSyntax(e.clone());
    }
    {
        if !matches!(a, emmylua_code_analysis::LuaType::Unknown) && tyws::mentions_unknown(tyws::db(&ws), &a) {
            // `unknown` inside a composite (e.g. `unknown|nil`): the annotation grammar itself collapses `unknown?` /
            // `unknown[]` to `unknown`, so such a type has no faithful annotation spelling
            return Outcome::Skip("unknown-inside");
        }
    }
    let s = humanize_type(tyws::db(&ws), &a, if level == 0 { RenderLevel::Documentation } else { RenderLevel::Detailed });
    if outside_strings(&s).contains("...") {
        return Outcome::Skip("truncated");
    }
    if s.contains('\n') {
        // expanded struct view of a class/enum with members at the root: display-only syntax
        return Outcome::Skip("expanded-struct-view");
    }
    let (fb, b) = match tyws::materialise(&mut ws, "b.lua", std::slice::from_ref(&s)) {
        Ok((f, mut v)) => (f, v.remove(0)),
        Err(e) => return Outcome::Fail { what: "reparse", msg: format!("rendering {s:?} of `{text}` cannot be read back: {e}") },
    };
    let errs = tyws::syntax_errors(&ws, fb);
    // aliases are transparent: `A?` is stored with the alias expanded while `A|nil` keeps the reference
    let o = tyws::CanonOpts { expand_aliases: true, merge_const_kinds: false, ..Default::default() };
    let ca = tyws::canon_with(tyws::db(&ws), &a, &o);
    let cb = tyws::canon_with(tyws::db(&ws), &b, &o);
    if !errs.is_empty() {
        return Outcome::Fail { what: "syntax", msg: format!("`{text}` renders as {s:?}, which does not parse as an annotation: {}; A={ca} B={cb}", errs.join("; ")) };
    }
    if ca != cb {
        return Outcome::Fail { what: "differs", msg: format!("`{text}` renders as {s:?}, which reads back as a different type: A={ca} B={cb}") };
    }
    Outcome::Pass { rendered: s }
}

/// the rendering with the contents of double-quoted string literals removed
fn outside_strings(s: &str) -> String {
    let mut out = String::new();
    let mut it = s.chars();
    while let Some(c) = it.next() {
        if c == '"' {
            out.push('"');
            while let Some(d) = it.next() {
                if d == '\\' {
                    it.next();
                } else if d == '"' {
                    break;
                }
            }
            out.push('"');
        } else {
            out.push(c);
        }
    }
    out
}

fn str_class(v: &str) -> &'static str {
    let cs: Vec<char> = v.chars().collect();
    if cs.windows(2).any(|w| w[0] == '\u{1b}' && w[1].is_ascii_digit()) {
        "esc+digit"
    } else if cs.iter().any(|c| *c == '"') {
        "dquote"
    } else if cs.iter().any(|c| c.is_control()) {
        "ctrl"
    } else if cs.iter().any(|c| *c == '\\' || *c == '\'') {
        "backslash/squote"
    } else {
        "plain"
    }
}

fn syntactically_nullable(t: &Ty) -> bool {
    match t {
        Ty::Opt(_) => true,
        Ty::Union(ms) => ms.iter().any(syntactically_nullable),
        Ty::Prim(i) => dt::PRIMS[*i as usize % dt::PRIMS.len()] == "nil",
        _ => false,
    }
}

fn node_sig(t: &Ty) -> String {
    match t {
        Ty::Array(x) if syntactically_nullable(x) => "array(nullable)".to_string(),
        Ty::Array(x) if matches!(&**x, Ty::Int(v) if v.starts_with('-')) => "array(negative-int)".to_string(),
        Ty::Str(v, _) => format!("str[{}]", str_class(v)),
        Ty::Int(_) => "int".to_string(),
        Ty::Record(fs) if fs.iter().any(|f| matches!(&f.key, dt::Key::Str(k) if !is_identifier(k))) => "record[non-identifier-key]".to_string(),
        _ => {
            // constructor with the kinds of its children (prims by kind only)
            let mut inner: Vec<&'static str> = dt::children(t).into_iter().map(dt::kind).collect();
            if matches!(t, Ty::Union(_) | Ty::Record(_)) {
                inner.sort();
                inner.dedup();
            }
            if inner.is_empty() { dt::kind(t).to_string() } else { format!("{}({})", dt::kind(t), inner.join(",")) }
        }
    }
}

/// the smallest sub-term that still fails on its own
fn minimal_failing<'a>(world: &World, t: &'a Ty, level: u8) -> &'a Ty {
    for c in dt::children(t) {
        if matches!(round_trip(world, c, level), Outcome::Fail { .. }) {
            return minimal_failing(world, c, level);
        }
    }
    t
}

fn is_identifier(k: &str) -> bool {
    let mut cs = k.chars();
    matches!(cs.next(), Some(c) if c.is_ascii_alphabetic() || c == '_') && cs.all(|c| c.is_ascii_alphanumeric() || c == '_')
}

fn needs_escape(v: &str) -> bool {
    v.chars().any(|c| c == '"' || c == '\\' || c.is_control())
}

impl Property for C17 {
    type Case = Case;
    type Local = ();
    fn id(&self) -> &'static str {
        "C17"
    }
    fn rule(&self) -> String {
        "case = generated prelude (classes with inheritance, aliases, enums) + one type from the sub-grammar {primitives, string/integer/boolean literals, unions, optionals, arrays, table<K,V>, records with optional fields, class/alias/enum references}, arity bounded per nesting depth by the renderer's limits; A = type of `---@type <text>`, s = humanize_type(A, Documentation) (3/4 of the cases) or humanize_type(A, Detailed) (1/4), B = type of `---@type <s>`; judged: s parses without syntax errors and canon(A) == canon(B) (unions flattened, members sorted); renderings containing `...` (size limit) or a newline (expanded struct view) are excluded and counted. non-trivial = the type has an array or optional whose element is a union/optional, or a string literal needing escapes, or a negative/huge integer literal".into()
    }
    fn assumptions(&self) -> Vec<String> {
        vec!["canonical comparison ignores union member order and duplicate members, record field order, and the identity of the table constant a bare `---@type table` produces; alias references are compared by their expansion (the analyzer itself stores `A?` expanded and `A|nil` unexpanded)".into()]
    }
    fn cases(&self, tier: Tier) -> u32 {
        tier.pick(360_000, 3_000_000)
    }
    fn strategy(&self, _tier: Tier) -> BoxedStrategy<Case> {
        (dt::world(), dt::ty(Profile::renderable()), prop_oneof![3 => Just(0u8), 1 => Just(1u8)]).prop_map(|(world, ty, level)| Case { world, ty, level }).boxed()
    }
    fn local(&self) {}
    fn fixed_cases(&self, _tier: Tier) -> Vec<Case> {
        let w = World {
            classes: vec![dt::ClassDecl { supers: vec![], generic_super: None, fields: vec![], dotted: false }],
            generics: vec![dt::GenericDecl { nparams: 1, fields: vec![] }],
            aliases: vec![dt::AliasDecl::Plain(Ty::Prim(0))],
            enums: vec![dt::EnumDecl { key: false, string_values: false, n: 2 }],
        };
        let b = |t: Ty| Box::new(t);
        vec![
            Ty::Array(b(Ty::Opt(b(Ty::Prim(0))))),
            Ty::Array(b(Ty::Union(vec![Ty::Prim(0), Ty::Prim(1)]))),
            Ty::Opt(b(Ty::Array(b(Ty::Opt(b(Ty::Class(0))))))),
            Ty::Str("\u{1b}1".into(), false),
            Ty::Str("a\"b\\c\n".into(), true),
            Ty::Int("-9223372036854775808".into()),
            Ty::Array(b(Ty::Int("-1".into()))),
            Ty::Int("-42".into()),
            Ty::Opt(b(Ty::Prim(7))),
            Ty::Record(vec![dt::Field { key: dt::Key::Name("a".into()), optional: true, ty: Ty::Array(b(Ty::Opt(b(Ty::Prim(1))))) }]),
            Ty::Map(b(Ty::Prim(0)), b(Ty::Opt(b(Ty::Union(vec![Ty::Class(0), Ty::Enum(0)]))))),
        ]
        .into_iter()
        .map(|ty| Case { world: w.clone(), ty, level: 0 })
        .collect()
    }
    fn simplify(&self, c: &Case) -> Vec<Case> {
        // sub-terms as whole cases, then a minimal world
        let mut out: Vec<Case> = vec![];
        fn subs<'a>(t: &'a Ty, out: &mut Vec<&'a Ty>) {
            for ch in dt::children(t) {
                out.push(ch);
                subs(ch, out);
            }
        }
        let mut ss = vec![];
        subs(&c.ty, &mut ss);
        for s in ss {
            out.push(Case { world: c.world.clone(), ty: s.clone(), level: c.level });
        }
        let mut w = c.world.clone();
        if w.classes.len() > 1 {
            w.classes.truncate(1);
            out.push(Case { world: w.clone(), ty: c.ty.clone(), level: c.level });
        }
        for cl in w.classes.iter_mut() {
            cl.fields.clear();
            cl.generic_super = None;
            cl.supers.clear();
        }
        w.generics.truncate(1);
        w.aliases.truncate(1);
        w.enums.truncate(1);
        if w != c.world {
            out.push(Case { world: w, ty: c.ty.clone(), level: c.level });
        }
        out
    }
    fn check(&self, c: &Case, _l: &mut (), obs: &mut Obs) -> Verdict {
        let t = &c.ty;
        obs.class(&format!("root:{}", dt::kind(t)));
        let d = dt::depth(t);
        obs.class(&format!("depth:{}", d.min(6)));
        let arr_of_u = dt::any_node(t, &|n| matches!(n, Ty::Array(x) if matches!(**x, Ty::Union(_) | Ty::Opt(_))));
        let opt_of_u = dt::any_node(t, &|n| matches!(n, Ty::Opt(x) if matches!(**x, Ty::Union(_) | Ty::Opt(_))));
        let esc = dt::any_node(t, &|n| matches!(n, Ty::Str(v, _) if needs_escape(v)));
        let oddint = dt::any_node(t, &|n| matches!(n, Ty::Int(v) if v.starts_with('-') || v.len() > 15));
        obs.class_if(arr_of_u, "array-of-union/optional");
        obs.class_if(opt_of_u, "optional-of-union/optional");
        obs.class_if(esc, "string-needing-escape");
        obs.class_if(oddint, "negative/huge-integer");
        obs.class_if(dt::any_node(t, &|n| matches!(n, Ty::Record(fs) if fs.iter().any(|f| matches!(&f.key, dt::Key::Str(k) if !is_identifier(k))))), "record-with-non-identifier-key");
        for k in ["record", "map", "class", "alias", "enum", "bool", "str", "int"] {
            obs.class_if(dt::any_node(t, &|n| dt::kind(n) == k), &format!("has:{k}"));
        }
        obs.class(if c.level == 0 { "level:Documentation" } else { "level:Detailed" });
        let r = match catch(|| round_trip(&c.world, t, c.level)) {
            Ok(r) => r,
            Err(p) => return Verdict::Skip(format!("excluded.panic(C12):{}", panic_site(&p))),
        };
        match r {
            Outcome::Skip(cat) => Verdict::Skip(format!("excluded.{cat}")),
            Outcome::GenSyntax(e) => {
                let msg: String = e.splitn(2, ": ").nth(1).unwrap_or(&e).chars().take(40).collect();
                obs.class(&format!("gen-syntax:{msg}"));
                if std::env::var("VERIF_DEBUG").is_ok() {
                    eprintln!("GEN-SYNTAX {e} :: {}", c.world.render(t));
                }
                Verdict::Skip("excluded.gen-syntax-error".into())
            }
            Outcome::Pass { rendered } => {
                obs.class_if(rendered.contains('?'), "rendered-has-?");
                obs.class_if(rendered.contains("[]"), "rendered-has-[]");
                Verdict::pass(arr_of_u || opt_of_u || esc || oddint)
            }
            Outcome::Fail { what, msg } => {
                let m = minimal_failing(&c.world, t, c.level);
                let (what2, msg2) = match round_trip(&c.world, m, c.level) {
                    Outcome::Fail { what, msg } => (what, msg),
                    _ => (what, msg.clone()),
                };
                let mut ns = node_sig(m);
                if dt::any_node(m, &|n| node_sig(n) == "record[non-identifier-key]") {
                    ns = "record[non-identifier-key]".to_string();
                }
                // a bare non-identifier key either fails to parse or parses as something else: one root cause
                let sig = if ns == "record[non-identifier-key]" { format!("rt:{ns}") } else { format!("rt-{what2}:{ns}") };
                Verdict::fail(sig, format!("{msg2}  [whole case: {}]", one_line(&msg, 600)))
            }
        }
    }
}
