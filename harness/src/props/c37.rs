//! C37 — Doc-comment markup highlighting is total and in bounds.
use crate::engine::*;
use crate::gens::{markup, soup, util};
use crate::oracle::desc::{allowed_region, judge, kind_name};
use emmylua_parser::{LuaAstNode, LuaDocDescription, LuaParser, ParserConfig};
use emmylua_parser_desc::{DescItem, DescItemKind, DescParserType};
use proptest::prelude::*;
use serde::{Deserialize, Serialize};

/// cursor specification, resolved per description node at check time
#[derive(Clone, Debug, Serialize, Deserialize)]
pub struct Cursor {
    /// 0 none, 1 char boundary inside [desc.start, desc.end], 2 an endpoint (or interior boundary) of an item found
    /// without cursor, 3 any char boundary of the file, 4 sweep over endpoints of all items found without cursor
    pub kind: u8,
    pub raw: u16,
}

#[derive(Clone, Debug, Serialize, Deserialize)]
pub struct Case {
    pub text: String,
    /// 0 Md, 1 MySt, 2 Rst, 3 None
    pub flavour: u8,
    pub domain: Option<String>,
    pub role: Option<String>,
    pub cursor: Cursor,
    pub src: String,
}

pub struct C37;

pub const DOMAINS: &[&str] = &["lua", "py", "", "名", "lua:", "c"];
pub const ROLES: &[&str] = &["lua:obj", "obj", "any", "py:func", "", "math", "code", "lua:func", "literal", ":", "lua", "名", "lua:lua", "func"];

pub fn parser_type(flavour: u8, domain: &Option<String>, role: &Option<String>) -> DescParserType {
    match flavour % 4 {
        0 => DescParserType::Md,
        1 => DescParserType::MySt { primary_domain: domain.clone() },
        2 => DescParserType::Rst { primary_domain: domain.clone(), default_role: role.clone() },
        _ => DescParserType::None,
    }
}

fn flavour_name(f: u8) -> &'static str {
    match f % 4 {
        0 => "md",
        1 => "myst",
        2 => "rst",
        _ => "none",
    }
}

/// `crates/...:line` part of a panic location, independent of where the repository is checked out
pub fn site(msg: &str) -> String {
    let loc = panic_site(msg);
    match loc.find("crates/") {
        Some(i) => loc[i..].to_string(),
        None => loc,
    }
}

fn slice(text: &str, a: usize, b: usize) -> &str {
    text.get(a..b.min(text.len())).unwrap_or("<bad range>")
}

fn boundaries(text: &str, a: usize, b: usize) -> Vec<usize> {
    (a..=b.min(text.len())).filter(|i| text.is_char_boundary(*i)).collect()
}

pub fn flavour_strategy() -> impl Strategy<Value = (u8, Option<String>, Option<String>)> {
    (
        prop_oneof![5 => Just(0u8), 5 => Just(1u8), 6 => Just(2u8), 1 => Just(3u8)],
        proptest::option::weighted(0.6, prop_oneof![1 => Just("lua".to_string()), 1 => util::select_str(DOMAINS).prop_map(|s| s.to_string())]),
        proptest::option::weighted(0.6, prop_oneof![1 => Just("lua:obj".to_string()), 1 => util::select_str(ROLES).prop_map(|s| s.to_string())]),
    )
}

pub fn cursor_strategy() -> impl Strategy<Value = Cursor> {
    (prop_oneof![3 => Just(0u8), 3 => Just(1u8), 3 => Just(2u8), 1 => Just(3u8), 2 => Just(4u8)], any::<u16>()).prop_map(|(kind, raw)| Cursor { kind, raw })
}

impl Property for C37 {
    type Case = Case;
    type Local = ();
    fn id(&self) -> &'static str {
        "C37"
    }
    fn rule(&self) -> String {
        "cases = Lua text holding doc comments whose bodies mix Markdown/MyST/RST blocks and inline constructs (terminated and unterminated), code blocks in all 6 highlighted languages, tables, multi-byte text; rendered as `---` comments (with tag heads, varying prefixes, CRLF, indentation) or long comments; also mutated renderings, token soup and lossy bytes; x flavour {Md, MySt{domain}, Rst{domain, role}, None} x cursor {none, boundary in the description, endpoint of an item, any boundary of the file, sweep over item endpoints}; every LuaDocDescription of the text is judged (cap 12). non-trivial = some judged description yields >=1 non-Scope item without cursor AND its text region has a multi-byte char; distinct = distinct case digest".into()
    }
    fn assumptions(&self) -> Vec<String> {
        vec![
            "cursor positions are char-boundary byte offsets of the text (what the LS derives from an LSP position); offsets inside a multi-byte character or beyond the text are not generated".into(),
            "'inside the description' = the LuaDocDescription node range extended left to just behind the dashes of the directly preceding comment-start token, which desc_to_lines deliberately makes part of the first line".into(),
            "the tree is obtained with the default ParserConfig, as the language server does for a main-workspace file".into(),
        ]
    }
    fn cases(&self, tier: Tier) -> u32 {
        tier.pick(1_200_000, 20_000_000)
    }
    fn strategy(&self, tier: Tier) -> BoxedStrategy<Case> {
        let max_blocks = tier.pick(6, 14);
        let text = prop_oneof![
            12 => markup::lua_with_markup(max_blocks),
            1 => soup::soup(tier.pick(40, 200)).prop_map(|s| (s, "soup".to_string())),
            1 => soup::lossy_bytes(tier.pick(256, 2048)).prop_map(|s| (format!("---{s}"), "bytes".to_string())),
        ];
        (text, flavour_strategy(), cursor_strategy())
            .prop_map(|((text, src), (flavour, domain, role), cursor)| Case { text, flavour, domain, role, cursor, src })
            .boxed()
    }
    fn simplify(&self, c: &Case) -> Vec<Case> {
        let mut out: Vec<Case> = util::text_simplify(&c.text).into_iter().map(|t| Case { text: t, ..c.clone() }).collect();
        if c.domain.is_some() {
            out.push(Case { domain: None, ..c.clone() });
        }
        if c.role.is_some() {
            out.push(Case { role: None, ..c.clone() });
        }
        if c.cursor.kind != 0 {
            out.push(Case { cursor: Cursor { kind: 0, raw: 0 }, ..c.clone() });
        }
        out
    }
    fn fixed_cases(&self, _tier: Tier) -> Vec<Case> {
        let mut out = vec![];
        let texts = [
            "--- Desc *em* `code` {@link a.b}\n",
            "---@param x integer 名前 **strong** [l](u)\n--- ```lua\n--- local x = 'é'\n--- ```\n",
            "--[[ long *em*\n   :lua:obj:`a.b` ]]\n",
            "--------\n--- Desc\n--------\n",
            "---  .. code-block:: lua\n---\n---     local s = [[\n---     ]]\n",
        ];
        for t in texts {
            for f in 0..3u8 {
                for k in [0u8, 4] {
                    out.push(Case { text: t.to_string(), flavour: f, domain: None, role: Some("lua:obj".into()), cursor: Cursor { kind: k, raw: 0 }, src: "fixed".into() });
                }
            }
        }
        out
    }
    /// Cases run in worker children: a non-terminating highlighter (it appends to its result forever) must not take
    /// the machine down.  The child caps its address space, so a runaway allocation aborts the child within a second
    /// (verdict `abort:SIGABRT`, reproducible by --replay); a silent endless loop hits the per-case watchdog instead
    /// (INCONCLUSIVE).
    fn isolated(&self) -> bool {
        true
    }
    /// the language server computes highlighting on tokio worker threads (2 MiB stacks)
    fn stack_bytes(&self) -> usize {
        2 << 20
    }
    fn case_timeout_s(&self) -> u64 {
        90
    }
    fn local(&self) {
        if std::env::args().nth(1).as_deref() == Some("--worker") {
            let lim = libc::rlimit { rlim_cur: 640 << 20, rlim_max: 640 << 20 };
            // SAFETY: plain syscall on our own process
            unsafe {
                libc::setrlimit(libc::RLIMIT_AS, &lim);
            }
        }
    }
    fn check(&self, c: &Case, l: &mut (), obs: &mut Obs) -> Verdict {
        // debugging aid for hangs: with VERIF_TRACE_DIR set, the case under evaluation is on disk while it runs
        let trace = std::env::var("VERIF_TRACE_DIR").ok().map(|d| format!("{d}/c37-{}.json", std::process::id()));
        if let Some(t) = &trace {
            let _ = std::fs::write(t, serde_json::to_string(c).unwrap_or_default());
        }
        let v = self.check_inner(c, l, obs);
        if let Some(t) = &trace {
            let _ = std::fs::remove_file(t);
        }
        v
    }
}

impl C37 {
    fn check_inner(&self, c: &Case, _l: &mut (), obs: &mut Obs) -> Verdict {
        let text = c.text.as_str();
        let tree = match catch(|| LuaParser::parse(text, ParserConfig::default())) {
            Ok(t) => t,
            Err(_) => return Verdict::Skip("lua-parser-panic(C02)".into()),
        };
        let descs: Vec<LuaDocDescription> = tree.get_chunk_node().descendants::<LuaDocDescription>().take(12).collect();
        obs.class(&format!("src:{}", c.src));
        obs.class(flavour_name(c.flavour));
        obs.class(&format!("cursor:{}", c.cursor.kind));
        if descs.is_empty() {
            obs.class("no-description");
            return Verdict::pass(false);
        }
        obs.count("descriptions", descs.len() as u64);
        let mut nontrivial = false;
        for desc in descs {
            let region = allowed_region(&desc);
            let dr = desc.get_range();
            let (ds, de): (usize, usize) = (dr.start().into(), dr.end().into());
            let pt = parser_type(c.flavour, &c.domain, &c.role);
            // 1. without cursor
            let items = match catch(|| emmylua_parser_desc::parse(pt.clone(), text, desc.clone(), None)) {
                Ok(i) => i,
                Err(m) => {
                    return Verdict::fail(format!("panic:{}", site(&m)), format!("parse(cursor=None) panicked: {m}; flavour={} desc=[{ds}..{de}] {:?}", flavour_name(c.flavour), one_line(slice(text, ds, de), 200)));
                }
            };
            if let Err((sig, msg)) = judge(text, region, &items, "cursor=None") {
                return Verdict::fail(sig, format!("{msg}; flavour={} desc={:?}", flavour_name(c.flavour), one_line(slice(text, ds, de), 200)));
            }
            obs.count("items", items.len() as u64);
            for it in &items {
                obs.class(&format!("kind:{}", kind_name(&it.kind)));
            }
            let region_text = &text[region.0..region.1];
            if items.iter().any(|i| i.kind != DescItemKind::Scope) && !region_text.is_ascii() {
                nontrivial = true;
            }
            obs.class_if(items.iter().any(|i| !text[usize::from(i.range.start())..usize::from(i.range.end())].is_ascii()), "item-with-multibyte");
            // 2. with cursor(s)
            let cursors: Vec<usize> = match c.cursor.kind {
                0 => vec![],
                1 => {
                    let b = boundaries(text, ds, de);
                    vec![b[util::idx(c.cursor.raw, b.len())]]
                }
                2 => {
                    if items.is_empty() {
                        vec![ds]
                    } else {
                        // prefer references: they are the only kinds emitted in cursor mode
                        let refs: Vec<&DescItem> = items.iter().filter(|i| matches!(i.kind, DescItemKind::Ref | DescItemKind::JavadocLink)).collect();
                        let pool: Vec<&DescItem> = if refs.is_empty() || c.cursor.raw & 1 == 1 { items.iter().collect() } else { refs };
                        let it = pool[util::idx(c.cursor.raw, pool.len())];
                        let b = boundaries(text, it.range.start().into(), it.range.end().into());
                        vec![b[(c.cursor.raw as usize / 7) % b.len()]]
                    }
                }
                3 => {
                    let b = boundaries(text, 0, text.len());
                    vec![b[util::idx(c.cursor.raw, b.len())]]
                }
                _ => {
                    let mut v: Vec<usize> = vec![ds, de];
                    for it in items.iter().take(40) {
                        let (s, e): (usize, usize) = (it.range.start().into(), it.range.end().into());
                        v.push(s);
                        v.push(e);
                        let b = boundaries(text, s, e);
                        v.push(b[b.len() / 2]);
                    }
                    v.sort();
                    v.dedup();
                    v
                }
            };
            for cur in cursors {
                let got = match catch(|| emmylua_parser_desc::parse(pt.clone(), text, desc.clone(), Some(cur))) {
                    Ok(i) => i,
                    Err(m) => {
                        return Verdict::fail(
                            format!("panic:{}", site(&m)),
                            format!("parse(cursor=Some({cur})) panicked: {m}; flavour={} desc=[{ds}..{de}] {:?}", flavour_name(c.flavour), one_line(slice(text, ds, de), 200)),
                        );
                    }
                };
                if let Err((sig, msg)) = judge(text, region, &got, &format!("cursor=Some({cur})")) {
                    return Verdict::fail(sig, format!("{msg}; flavour={} desc={:?}", flavour_name(c.flavour), one_line(slice(text, ds, de), 200)));
                }
                obs.count("cursor-runs", 1);
                obs.class_if(!got.is_empty(), "cursor-hit");
            }
        }
        Verdict::pass(nontrivial)
    }
}
