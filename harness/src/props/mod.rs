pub mod c01;
