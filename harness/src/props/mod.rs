pub mod c01;
pub mod c31;
pub mod c32;
pub mod c33;
