pub mod c01;
pub mod c02;
pub mod c04;
