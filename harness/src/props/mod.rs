pub mod c01;
pub mod c16;
pub mod c17;
pub mod c18;
