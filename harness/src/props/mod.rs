pub mod c01;
pub mod c37;
pub mod c40;
