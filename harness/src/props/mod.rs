pub mod c01;
pub mod c13;
pub mod c19;
pub mod c20;
