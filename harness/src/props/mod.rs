pub mod c01;
pub mod c03;
pub mod c21;
