pub mod c01;
pub mod c24;
pub mod c27;
pub mod c28;
