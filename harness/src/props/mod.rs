pub mod c01;
pub mod c24;
pub mod c27;
pub mod c28;
pub mod c22;
pub mod c23;
pub mod c34;
