pub mod c01;
pub mod c15;
pub mod c41;
