pub mod c01;
pub mod c05;
pub mod c06;
pub mod c07;
