pub mod c01;
pub mod c08;
pub mod c09;
pub mod c10;
pub mod c11;
