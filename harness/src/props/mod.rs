pub mod c01;
pub mod c22;
pub mod c23;
pub mod c34;
