//! C35 — Generated documentation is complete and reproducible (black box: real `emmylua_doc_cli`).
use crate::engine::*;
use crate::ls::disk::TempWs;
use proptest::prelude::*;
use serde::{Deserialize, Serialize};
use serde_json::Value;
use std::collections::{BTreeMap, BTreeSet};
use std::path::{Path, PathBuf};
use std::process::{Command, Stdio};

#[derive(Clone, Debug, Serialize, Deserialize)]
pub enum Decl {
    /// class index, declared in this file with a field; the same index in several files = a class split across files
    Class(u8),
    Enum(u8),
    Alias(u8),
    Global(u8),
    /// a local only (must not show up anywhere)
    Local(u8),
    /// `---@class (private) C<i>`: a file-private class that shares its name with the workspace-wide class C<i>
    /// (a type of its own: one more entry of that name); every C<i> of the same file is then private
    PrivClass(u8),
}

#[derive(Clone, Debug, Serialize, Deserialize)]
pub struct Case {
    pub files: Vec<Vec<Decl>>,
    pub lib_files: Vec<Vec<Decl>>,
}

pub struct C35;

fn bin() -> PathBuf {
    let root = std::env::var("VERIF_ROOT").unwrap_or_else(|_| "/verif".into());
    Path::new(&root).join("harness/target-bins/release/emmylua_doc_cli")
}

fn decl_strategy() -> impl Strategy<Value = Decl> {
    prop_oneof![
        3 => (0u8..4).prop_map(Decl::Class),
        2 => (0u8..4).prop_map(Decl::Enum),
        2 => (0u8..4).prop_map(Decl::Alias),
        2 => (0u8..4).prop_map(Decl::Global),
        1 => (0u8..4).prop_map(Decl::Local),
        1 => (0u8..4).prop_map(Decl::PrivClass),
    ]
}

fn render(prefix: &str, fi: usize, decls: &[Decl]) -> String {
    let mut s = String::new();
    let private_here = |i: &u8| decls.iter().any(|d| matches!(d, Decl::PrivClass(j) if j == i));
    for (k, d) in decls.iter().enumerate() {
        match d {
            Decl::Class(i) | Decl::PrivClass(i) if private_here(i) => s.push_str(&format!("--- private class {prefix}C{i} of file {fi}\n---@class (private) {prefix}C{i}\n---@field p{fi}_{k} string\nlocal c{k} = {{}}\n\n")),
            // odd class indices are declared `(partial)` everywhere, even ones plainly
            Decl::Class(i) if i % 2 == 1 => s.push_str(&format!("--- class {prefix}C{i} part {fi}\n---@class (partial) {prefix}C{i}\n---@field f{fi}_{k} integer\nlocal c{k} = {{}}\n\n")),
            Decl::PrivClass(_) => {}
            Decl::Class(i) => s.push_str(&format!("--- class {prefix}C{i} part {fi}\n---@class {prefix}C{i}\n---@field f{fi}_{k} integer\nlocal c{k} = {{}}\n\n")),
            Decl::Enum(i) => s.push_str(&format!("---@enum {prefix}E{i}_{fi}\nlocal e{k} = {{ A = 1, B = 2 }}\n\n")),
            Decl::Alias(i) => s.push_str(&format!("---@alias {prefix}A{i}_{fi} string|integer\n\n")),
            Decl::Global(i) => s.push_str(&format!("--- global doc\n{prefix}G{i}_{fi} = {k}\n\n")),
            Decl::Local(i) => s.push_str(&format!("local only_local_{i}_{k} = 1\n\n")),
        }
    }
    s.push_str("return {}\n");
    s
}

fn export(ws_root: &Path, out: &Path) -> Option<Vec<u8>> {
    let _ = std::fs::remove_dir_all(out);
    let st = Command::new(bin())
        .arg(ws_root.join("main"))
        .args(["--output-format", "json", "--output"])
        .arg(out)
        .current_dir(ws_root)
        .stdin(Stdio::null())
        .stdout(Stdio::null())
        .stderr(Stdio::null())
        .status()
        .ok()?;
    if !st.success() {
        return None;
    }
    std::fs::read(out.join("doc.json")).ok()
}

impl Property for C35 {
    type Case = Case;
    type Local = (TempWs, TempWs);
    fn id(&self) -> &'static str {
        "C35"
    }
    fn rule(&self) -> String {
        "cases = on-disk workspaces: a main root with 1-4 files declaring classes (the same class may be split across files), enums, aliases, documented globals and locals, plus a library root (workspace.library in .emmyrc.json) with its own declarations; the real emmylua_doc_cli is run twice in fresh processes with --output-format json; oracle: the two doc.json files are byte-identical; the parsed export lists every main-workspace class/enum/alias/global/module exactly once (by name and kind; a `(private)` class of a file is a type of its own and adds one entry of its name; odd class indices are `(partial)`) and lists nothing that is declared only in the library root or in the standard library, and no locals; non-trivial = >=3 declarations of >=2 kinds in the main root and a non-empty library root".into()
    }
    fn assumptions(&self) -> Vec<String> {
        vec!["hash seeds are sampled by the two fresh processes, not controlled".into()]
    }
    fn cases(&self, tier: Tier) -> u32 {
        tier.pick(256, 6000)
    }
    fn strategy(&self, _tier: Tier) -> BoxedStrategy<Case> {
        (proptest::collection::vec(proptest::collection::vec(decl_strategy(), 1..6), 1..5), proptest::collection::vec(proptest::collection::vec(decl_strategy(), 1..4), 0..3))
            .prop_map(|(files, lib_files)| Case { files, lib_files })
            .boxed()
    }
    fn max_shrink_iters(&self, _tier: Tier) -> u32 {
        80
    }
    fn local(&self) -> (TempWs, TempWs) {
        (TempWs::new("c35"), TempWs::new("c35out"))
    }
    fn check(&self, c: &Case, (ws, outdir): &mut (TempWs, TempWs), obs: &mut Obs) -> Verdict {
        if !bin().exists() {
            return Verdict::Skip("emmylua_doc_cli-binary-missing".into());
        }
        ws.clear();
        outdir.clear();
        let root = ws.root.canonicalize().unwrap_or(ws.root.clone());
        let mut expect: BTreeMap<(String, String), usize> = BTreeMap::new(); // (kind, name) -> expected number of entries
        let mut global_class: BTreeSet<u8> = BTreeSet::new();
        let mut modules: BTreeSet<String> = BTreeSet::new();
        for (fi, decls) in c.files.iter().enumerate() {
            let (rel, module) = if fi % 2 == 1 { (format!("main/sub/m{fi}.lua"), format!("sub.m{fi}")) } else { (format!("main/m{fi}.lua"), format!("m{fi}")) };
            ws.write(&rel, &render("", fi, decls));
            modules.insert(module);
            for d in decls {
                match d {
                    Decl::Class(i) | Decl::PrivClass(i) => {
                        let private_here = decls.iter().any(|d| matches!(d, Decl::PrivClass(j) if j == i));
                        let first_here = decls.iter().position(|x| matches!(x, Decl::Class(j) | Decl::PrivClass(j) if j == i)) == decls.iter().position(|x| std::ptr::eq(x, d));
                        let e = expect.entry(("class".into(), format!("C{i}"))).or_insert(0);
                        if private_here {
                            // one file-private type per file, however many blocks declare it there
                            if first_here {
                                *e += 1;
                                obs.class("file-private-class-sharing-a-name");
                            }
                        } else if global_class.insert(*i) {
                            *e += 1;
                        }
                    }
                    Decl::Enum(i) => {
                        expect.insert(("enum".into(), format!("E{i}_{fi}")), 1);
                    }
                    Decl::Alias(i) => {
                        expect.insert(("alias".into(), format!("A{i}_{fi}")), 1);
                    }
                    Decl::Global(i) => {
                        expect.insert(("global".into(), format!("G{i}_{fi}")), 1);
                    }
                    Decl::Local(_) => {}
                }
            }
        }
        for (fi, decls) in c.lib_files.iter().enumerate() {
            ws.write(&format!("lib/l{fi}.lua"), &render("Lib", fi, decls));
        }
        ws.write("main/.emmyrc.json", &serde_json::to_string(&serde_json::json!({"workspace": {"library": [root.join("lib").to_string_lossy()]}})).unwrap());
        let Some(a) = export(&root, &outdir.path("run1")) else { return Verdict::Skip("export-failed".into()) };
        let Some(b) = export(&root, &outdir.path("run2")) else { return Verdict::Skip("export-failed".into()) };
        let v: Value = match serde_json::from_slice(&a) {
            Ok(v) => v,
            Err(e) => return Verdict::fail("export-not-json", format!("doc.json does not parse: {e}")),
        };
        let mut got: BTreeMap<(String, String), usize> = BTreeMap::new();
        for t in v.get("types").and_then(|x| x.as_array()).cloned().unwrap_or_default() {
            let name = t.get("name").and_then(|x| x.as_str()).unwrap_or("").to_string();
            let kind = t.get("type").and_then(|x| x.as_str()).unwrap_or("").to_string();
            *got.entry((kind, name)).or_default() += 1;
        }
        for g in v.get("globals").and_then(|x| x.as_array()).cloned().unwrap_or_default() {
            let name = g.get("name").and_then(|x| x.as_str()).unwrap_or("").to_string();
            *got.entry(("global".into(), name)).or_default() += 1;
        }
        let mut got_modules: BTreeMap<String, usize> = BTreeMap::new();
        for m in v.get("modules").and_then(|x| x.as_array()).cloned().unwrap_or_default() {
            let name = m.get("name").and_then(|x| x.as_str()).unwrap_or("").to_string();
            *got_modules.entry(name).or_default() += 1;
        }
        for (k, want) in &expect {
            let n = got.get(k).copied().unwrap_or(0);
            if n != *want {
                return Verdict::fail(
                    format!("export-count:{}:{}", k.0, if n < *want { "missing" } else { "duplicated" }),
                    format!("main-workspace {} `{}` is listed {n} times in the export, expected {want} (one per declared type: the workspace-wide one and each file-private one)", k.0, k.1),
                );
            }
        }
        for (k, _) in &got {
            if !expect.contains_key(k) {
                let origin = if k.1.starts_with("Lib") { "library" } else if k.1.starts_with("only_local") { "local" } else { "foreign" };
                return Verdict::fail(format!("export-lists-{origin}:{}", k.0), format!("the export lists {} `{}` which is not declared in the main workspace", k.0, k.1));
            }
        }
        for m in &modules {
            let n = got_modules.get(m).copied().unwrap_or(0);
            if n != 1 {
                return Verdict::fail(format!("export-count:module:{}", if n == 0 { "missing" } else { "duplicated" }), format!("module `{m}` is listed {n} times; modules in export: {:?}", got_modules.keys().collect::<Vec<_>>()));
            }
        }
        for m in got_modules.keys() {
            if !modules.contains(m) {
                return Verdict::fail("export-lists-foreign:module", format!("the export lists module `{m}` which is not a main-workspace file (expected {:?})", modules));
            }
        }
        if a != b {
            let pos = a.iter().zip(b.iter()).position(|(x, y)| x != y).unwrap_or(a.len().min(b.len()));
            let ctx = String::from_utf8_lossy(&a[pos.saturating_sub(60)..(pos + 60).min(a.len())]).to_string();
            return Verdict::fail("export-not-reproducible", format!("two exports of the same workspace differ at byte {pos} (of {} / {}): ...{}...", a.len(), b.len(), one_line(&ctx, 200)));
        }
        let kinds: BTreeSet<&String> = expect.keys().map(|k| &k.0).collect();
        obs.class_if(c.files.iter().flatten().filter(|d| matches!(d, Decl::Class(_))).count() > expect.keys().filter(|k| k.0 == "class").count(), "class-split-across-files");
        obs.class_if(!c.lib_files.is_empty(), "has-library-root");
        Verdict::pass(expect.len() >= 3 && kinds.len() >= 2 && !c.lib_files.is_empty())
    }
}
