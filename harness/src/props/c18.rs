//! C18 — Generic functions return their instantiated argument types.
use crate::engine::*;
use crate::gens::doc_types::{self as dt, Profile, Ty, World};
use crate::oracle::tyws::{self, CanonOpts};
use proptest::prelude::*;
use serde::{Deserialize, Serialize};

pub const TEMPLATES: &[&str] = &["identity", "to-array", "from-array", "pair-first", "pair-second", "map-key", "map-value", "optional", "from-fun", "to-fun"];

#[derive(Clone, Debug, Serialize, Deserialize)]
pub struct Case {
    pub world: World,
    pub tpl: u8,
    pub x: Ty,
    pub y: Ty,
    /// `optional` template: pass `X?` instead of `X`
    pub opt_arg: bool,
    /// 0 = `local function f`, 1 = global `function f`, 2 = `local f = function`
    pub style: u8,
    /// pass literal arguments as literal expressions (`f("x")`) instead of declared variables
    #[serde(default)]
    pub literal_expr: bool,
    /// pair templates only: the second argument comes from a trailing multi-return call `f(arg0, two())` where
    /// `two()` is declared `---@return <Y>, <X>` (its first value feeds the second parameter)
    #[serde(default)]
    pub spread: bool,
}

pub struct C18;

fn tpl(n: &str) -> Ty {
    Ty::Tpl(n.to_string())
}
fn bx(t: Ty) -> Box<Ty> {
    Box::new(t)
}
fn fun0(ret: Ty) -> Ty {
    Ty::Fun { is_async: false, params: vec![], vararg: None, rets: vec![ret] }
}

/// (generic names, parameter patterns, declared return type)
fn template(i: usize) -> (Vec<&'static str>, Vec<Ty>, Ty) {
    match TEMPLATES[i % TEMPLATES.len()] {
        "identity" => (vec!["T"], vec![tpl("T")], tpl("T")),
        "to-array" => (vec!["T"], vec![tpl("T")], Ty::Array(bx(tpl("T")))),
        "from-array" => (vec!["T"], vec![Ty::Array(bx(tpl("T")))], tpl("T")),
        "pair-first" => (vec!["K", "V"], vec![tpl("K"), tpl("V")], tpl("K")),
        "pair-second" => (vec!["K", "V"], vec![tpl("K"), tpl("V")], tpl("V")),
        "map-key" => (vec!["K", "V"], vec![Ty::Map(bx(tpl("K")), bx(tpl("V")))], tpl("K")),
        "map-value" => (vec!["K", "V"], vec![Ty::Map(bx(tpl("K")), bx(tpl("V")))], tpl("V")),
        "optional" => (vec!["T"], vec![Ty::Opt(bx(tpl("T")))], tpl("T")),
        "from-fun" => (vec!["T"], vec![fun0(tpl("T"))], tpl("T")),
        _ => (vec!["T"], vec![tpl("T")], fun0(tpl("T"))),
    }
}

fn subst(t: &Ty, binds: &[(&str, Ty)]) -> Ty {
    dt::map_ty(t, &|n| match n {
        Ty::Tpl(name) => binds.iter().find(|b| b.0 == name).map(|b| b.1.clone()),
        _ => None,
    })
}

fn is_nil(t: &Ty) -> bool {
    matches!(t, Ty::Prim(i) if dt::PRIMS[*i as usize % dt::PRIMS.len()] == "nil")
}

/// the type without its nil alternative (syntactically); None if nothing is left
fn non_nil(t: &Ty) -> Option<Ty> {
    match t {
        Ty::Opt(x) => non_nil(x),
        Ty::Union(ms) => {
            let rest: Vec<Ty> = ms.iter().filter_map(non_nil).collect();
            match rest.len() {
                0 => None,
                1 => Some(rest[0].clone()),
                _ => Some(Ty::Union(rest)),
            }
        }
        t if is_nil(t) => None,
        other => Some(other.clone()),
    }
}

fn node_sig(t: &Ty) -> String {
    let mut inner: Vec<&'static str> = dt::children(t).into_iter().map(dt::kind).collect();
    if matches!(t, Ty::Union(_) | Ty::Record(_)) {
        inner.sort();
        inner.dedup();
    }
    let head = match t {
        Ty::Prim(i) => dt::PRIMS[*i as usize % dt::PRIMS.len()],
        _ => dt::kind(t),
    };
    if inner.is_empty() { head.to_string() } else { format!("{head}({})", inner.join(",")) }
}

pub struct Built {
    pub program: String,
    /// acceptable results as annotation texts
    pub expected: Vec<String>,
    pub args: Vec<String>,
}

/// `widen`: the base type of a literal binding (decided on the materialised type), identity otherwise
pub fn build(c: &Case, widen: &dyn Fn(&Ty) -> Ty) -> Option<Built> {
    let w = &c.world;
    let ti = c.tpl as usize % TEMPLATES.len();
    let name = TEMPLATES[ti];
    let (generics, params, ret) = template(ti);
    // concrete argument types and the candidate bindings of every template parameter
    let (args, cands): (Vec<Ty>, Vec<(&str, Vec<Ty>)>) = match name {
        "identity" | "to-array" | "to-fun" => (vec![c.x.clone()], vec![("T", vec![c.x.clone(), widen(&c.x)])]),
        "from-array" => (vec![Ty::Array(bx(c.x.clone()))], vec![("T", vec![c.x.clone(), widen(&c.x)])]),
        "from-fun" => (vec![fun0(c.x.clone())], vec![("T", vec![c.x.clone(), widen(&c.x)])]),
        "pair-first" | "pair-second" => (vec![c.x.clone(), c.y.clone()], vec![("K", vec![c.x.clone(), widen(&c.x)]), ("V", vec![c.y.clone(), widen(&c.y)])]),
        "map-key" | "map-value" => (
            vec![Ty::Map(bx(c.x.clone()), bx(c.y.clone()))],
            vec![("K", vec![c.x.clone(), widen(&c.x)]), ("V", vec![c.y.clone(), widen(&c.y)])],
        ),
        _ => {
            // optional: `T?` against X or X?: T may be bound to the argument type as a whole or to its non-nil part
            let nn = non_nil(&c.x)?;
            let arg = if c.opt_arg { Ty::Opt(bx(c.x.clone())) } else { c.x.clone() };
            let mut cs = vec![arg.clone(), nn.clone(), widen(&nn)];
            if !c.opt_arg {
                cs.push(c.x.clone());
            }
            (vec![arg], vec![("T", cs)])
        }
    };
    // expected = declared return type under every combination of candidate bindings
    let mut expected: Vec<String> = vec![];
    let mut combos: Vec<Vec<(&str, Ty)>> = vec![vec![]];
    for (n, cs) in &cands {
        let mut next = vec![];
        for combo in &combos {
            for cnd in cs {
                let mut c2 = combo.clone();
                c2.push((*n, cnd.clone()));
                next.push(c2);
            }
        }
        combos = next;
    }
    for combo in &combos {
        let text = w.render(&subst(&ret, combo));
        if !expected.contains(&text) {
            expected.push(text);
        }
    }
    let mut p = String::new();
    p.push_str(&format!("---@generic {}\n", generics.join(", ")));
    let pnames = ["a", "b"];
    for (i, pt) in params.iter().enumerate() {
        p.push_str(&format!("---@param {} {}\n", pnames[i], w.render(pt)));
    }
    p.push_str(&format!("---@return {}\n", w.render(&ret)));
    let plist = pnames[..params.len()].join(", ");
    match c.style % 3 {
        0 => p.push_str(&format!("local function f({plist}) end\n")),
        1 => p.push_str(&format!("function f({plist}) end\n")),
        _ => p.push_str(&format!("local f = function({plist}) end\n")),
    }
    let arg_texts: Vec<String> = args.iter().map(|a| w.render(a)).collect();
    for (i, a) in arg_texts.iter().enumerate() {
        p.push_str(&format!("---@type {a}\nlocal arg{i}\n"));
    }
    let direct = matches!(name, "identity" | "to-array" | "to-fun" | "pair-first" | "pair-second");
    let call_args: Vec<String> = (0..args.len())
        .map(|i| match &args[i] {
            // a literal type passed as the literal expression itself
            Ty::Str(..) | Ty::Bool(_) if c.literal_expr && direct => arg_texts[i].clone(),
            Ty::Int(t) if c.literal_expr && direct && t.len() <= 10 => t.clone(),
            _ => format!("arg{i}"),
        })
        .collect();
    if c.spread && matches!(name, "pair-first" | "pair-second") && arg_texts.len() == 2 {
        // parenthesised: a bare `fun(): A, B` would swallow the second return type into its own return list
        p.push_str(&format!("---@return ({}), ({})\nlocal function two() end\n", arg_texts[1], arg_texts[0]));
        p.push_str(&format!("local r = f({}, two())\n", call_args[0]));
        return Some(Built { program: p, expected, args: arg_texts });
    }
    p.push_str(&format!("local r = f({})\n", call_args.join(", ")));
    Some(Built { program: p, expected, args: arg_texts })
}

impl C18 {
    fn run(&self, c: &Case, obs: &mut Obs) -> Verdict {
        let ti = c.tpl as usize % TEMPLATES.len();
        let name = TEMPLATES[ti];
        obs.class(&format!("tpl:{name}"));
        let (mut ws, pid) = tyws::workspace(&c.world);
        if !tyws::syntax_errors(&ws, pid).is_empty() {
            return Verdict::Skip("excluded.gen-prelude-syntax-error".into());
        }
        // the binding candidates, materialised once to learn which of them are literal types (possibly through an alias)
        let mut cands: Vec<Ty> = vec![c.x.clone(), c.y.clone()];
        if let Some(nn) = non_nil(&c.x) {
            cands.push(nn);
        }
        let ctexts: Vec<String> = cands.iter().map(|t| c.world.render(t)).collect();
        let (fc, ctys) = match tyws::materialise(&mut ws, "c.lua", &ctexts) {
            Ok(x) => x,
            Err(_) => return Verdict::Skip("excluded.gen-not-materialised".into()),
        };
        if !tyws::syntax_errors(&ws, fc).is_empty() {
            return Verdict::Skip("excluded.gen-syntax-error".into());
        }
        let prim = |n: &str| Ty::Prim(dt::PRIMS.iter().position(|p| *p == n).unwrap_or(0) as u8);
        let mut wmap: Vec<(Ty, Ty)> = vec![];
        for (t, lt) in cands.iter().zip(ctys.iter()) {
            if tyws::mentions_unknown(tyws::db(&ws), lt) {
                // e.g. `-9223372036854775808`, which the annotation grammar reads as unknown
                return Verdict::Skip("excluded.unknown-argument".into());
            }
            if let Some(base) = tyws::literal_base(tyws::db(&ws), lt) {
                wmap.push((t.clone(), prim(base)));
            }
        }
        let widen = |t: &Ty| wmap.iter().find(|m| m.0 == *t).map(|m| m.1.clone()).unwrap_or_else(|| t.clone());
        let Some(b) = build(c, &widen) else {
            return Verdict::Skip("excluded.optional-of-nil".into());
        };
        let (fe, exp) = match tyws::materialise(&mut ws, "e.lua", &b.expected) {
            Ok(x) => x,
            Err(_) => return Verdict::Skip("excluded.gen-not-materialised".into()),
        };
        if !tyws::syntax_errors(&ws, fe).is_empty() {
            return Verdict::Skip("excluded.gen-syntax-error".into());
        }
        let id = ws.def_file("p.lua", &b.program);
        if !tyws::syntax_errors(&ws, id).is_empty() {
            return Verdict::Skip("excluded.gen-syntax-error".into());
        }
        let locals = match tyws::local_types(&ws, id) {
            Ok(l) => l,
            Err(_) => return Verdict::Skip("excluded.gen-not-materialised".into()),
        };
        let Some((_, r)) = locals.iter().find(|l| l.0 == "r") else {
            return Verdict::Skip("excluded.gen-not-materialised".into());
        };
        let db = tyws::db(&ws);
        // a literal expression has an inferred-constant type, a literal annotation a doc-constant type: same literal
        let o = CanonOpts { expand_aliases: true, merge_const_kinds: c.literal_expr, ..Default::default() };
        let got = tyws::canon_with(db, r, &o);
        let mut want: Vec<String> = exp.iter().map(|t| tyws::canon_with(db, t, &o)).collect();
        if name == "optional" {
            // `T?` may also bind T to the argument type without its nil alternative (seen through aliases)
            if let Some((_, a0)) = locals.iter().find(|l| l.0 == "arg0") {
                if let Some(s) = tyws::canon_strip_nil(db, a0, &o) {
                    want.push(s);
                }
            }
        }
        let xs: Vec<&Ty> = match name {
            "pair-second" | "map-value" => vec![&c.y],
            _ => vec![&c.x],
        };
        let x = xs[0];
        let lit = wmap.iter().any(|m| m.0 == *x);
        obs.class(&format!("arg:{}", dt::kind(x)));
        obs.class_if(lit, "arg-literal");
        obs.class_if(b.program.lines().last().map(|l| !l.contains("arg0") || (l.contains(',') && !l.contains("arg1"))).unwrap_or(false), "literal-expression-argument");
        if let Some(k) = want.iter().position(|w| *w == got) {
            obs.class_if(k > 0 && lit, "literal-widened");
            obs.class_if(k == 0, "exact");
            let nontrivial = matches!(x, Ty::Union(_) | Ty::Opt(_) | Ty::Map(..) | Ty::Record(_) | Ty::Tuple(_) | Ty::Str(..) | Ty::Int(_) | Ty::Bool(_))
                || matches!(x, Ty::Array(e) if matches!(**e, Ty::Array(_)));
            return Verdict::pass(nontrivial);
        }
        Verdict::fail(
            format!("{name}:{}", node_sig(x)),
            format!(
                "template {name} called with argument type(s) {:?}: inferred `{got}`, expected one of {:?} (declared return instantiated with the argument types); program:\n{}",
                b.args, want, b.program
            ),
        )
    }
}

impl Property for C18 {
    type Case = Case;
    type Local = ();
    fn id(&self) -> &'static str {
        "C18"
    }
    fn rule(&self) -> String {
        "case = generated prelude + one of 10 generic signatures {identity T->T, T->T[], T[]->T, (K,V)->K, (K,V)->V, table<K,V>->K, table<K,V>->V, T?->T, (fun():T)->T, T->fun():T} declared as local/global/assigned function + argument types X (,Y) from the annotation grammar supplied as declared variables (`---@type X` `local arg`); judged: the inferred type of `local r = f(arg)` equals (canonical form, aliases expanded) the declared return type with the parameters replaced by the argument types, computed by the harness on its own AST and materialised through `---@type`; a literal argument may be kept or widened to its base type; for `T?` the parameter may bind the argument type with or without nil. non-trivial = the argument type is a union, optional, table, record, tuple, nested array or literal".into()
    }
    fn cases(&self, tier: Tier) -> u32 {
        tier.pick(300_000, 2_000_000)
    }
    fn strategy(&self, _tier: Tier) -> BoxedStrategy<Case> {
        let p = Profile { unknown: false, max_depth: 3, ..Profile::full() };
        // arguments: mostly any generated type, with a share of bare literals (they exercise widening)
        let arg = prop_oneof![5 => dt::ty(p), 1 => dt::leaf(p)];
        (dt::world(), 0u8..TEMPLATES.len() as u8, arg.clone(), arg, any::<bool>(), 0u8..3, any::<bool>(), proptest::bool::weighted(0.3))
            .prop_map(|(world, tpl, x, y, opt_arg, style, literal_expr, spread)| Case { world, tpl, x, y, opt_arg, style, literal_expr, spread })
            .boxed()
    }
    fn local(&self) {}
    fn simplify(&self, c: &Case) -> Vec<Case> {
        let mut out = vec![];
        for ch in dt::children(&c.x) {
            out.push(Case { x: ch.clone(), ..c.clone() });
        }
        for ch in dt::children(&c.y) {
            out.push(Case { y: ch.clone(), ..c.clone() });
        }
        if c.y != Ty::Prim(0) {
            out.push(Case { y: Ty::Prim(0), ..c.clone() });
        }
        if c.style != 0 {
            out.push(Case { style: 0, ..c.clone() });
        }
        let mut w = c.world.clone();
        w.classes.truncate(1);
        for cl in w.classes.iter_mut() {
            cl.fields.clear();
            cl.generic_super = None;
            cl.supers.clear();
        }
        w.generics.truncate(1);
        w.aliases.truncate(1);
        w.enums.truncate(1);
        if w != c.world {
            out.push(Case { world: w, ..c.clone() });
        }
        out
    }
    fn check(&self, c: &Case, _l: &mut (), obs: &mut Obs) -> Verdict {
        match catch(|| {
            let mut o = Obs::default();
            let v = self.run(c, &mut o);
            (v, o)
        }) {
            Ok((v, o)) => {
                for cl in o.classes {
                    obs.class(&cl);
                }
                v
            }
            Err(p) => Verdict::Skip(format!("excluded.panic(C12):{}", panic_site(&p))),
        }
    }
}
