//! Engine: proptest-driven sharded runner, known-finding handling, shrinking to replay files,
//! evidence writer, optional process isolation (worker children) for abort-type failures.

pub mod findings;
pub mod worker;

use proptest::strategy::BoxedStrategy;
use proptest::test_runner::{Config, RngSeed, TestCaseError, TestError, TestRunner};
use serde::de::DeserializeOwned;
use serde::{Deserialize, Serialize};
use serde_json::{json, Value};
use std::collections::{BTreeMap, BTreeSet};
use std::path::{Path, PathBuf};
use std::sync::atomic::{AtomicBool, Ordering};
use std::sync::{Arc, Mutex};
use std::time::Instant;

#[derive(Clone, Copy, Debug, PartialEq, Eq)]
pub enum Tier {
    Quick,
    Thorough,
}

impl Tier {
    pub fn name(self) -> &'static str {
        match self {
            Tier::Quick => "quick",
            Tier::Thorough => "thorough",
        }
    }
    /// pick by tier
    pub fn pick<T>(self, quick: T, thorough: T) -> T {
        match self {
            Tier::Quick => quick,
            Tier::Thorough => thorough,
        }
    }
}

#[derive(Clone, Debug, Serialize, Deserialize)]
pub struct Fail {
    /// short, mechanically computed root-cause key; matched against KNOWN_FINDINGS.json
    pub sig: String,
    pub msg: String,
}

#[derive(Clone, Debug, Serialize, Deserialize)]
pub enum Verdict {
    Pass { nontrivial: bool },
    /// case not judged (soundness filter); the category is counted in `excluded`
    Skip(String),
    Fail(Fail),
}

impl Verdict {
    pub fn pass(nontrivial: bool) -> Verdict {
        Verdict::Pass { nontrivial }
    }
    pub fn fail(sig: impl Into<String>, msg: impl Into<String>) -> Verdict {
        Verdict::Fail(Fail { sig: sig.into(), msg: msg.into() })
    }
}

/// Observations a check records about the case it is judging (class labels, counters).
#[derive(Default, Clone, Debug, Serialize, Deserialize)]
pub struct Obs {
    pub classes: Vec<String>,
    pub counters: Vec<(String, u64)>,
}

impl Obs {
    pub fn class(&mut self, c: &str) {
        if !self.classes.iter().any(|x| x == c) {
            self.classes.push(c.to_string());
        }
    }
    pub fn class_if(&mut self, cond: bool, c: &str) {
        if cond {
            self.class(c)
        }
    }
    pub fn count(&mut self, c: &str, n: u64) {
        if let Some(e) = self.counters.iter_mut().find(|x| x.0 == c) {
            e.1 += n;
        } else {
            self.counters.push((c.to_string(), n));
        }
    }
}

pub trait Property: Send + Sync + 'static {
    type Case: Clone + std::fmt::Debug + Serialize + DeserializeOwned + Send + 'static;
    /// per-shard-thread state (e.g. a std-lib-backed workspace); rebuilt by `local()`
    type Local;

    fn id(&self) -> &'static str;
    fn level(&self) -> &'static str {
        "exploration"
    }
    /// how cases are generated and what makes one non-trivial
    fn rule(&self) -> String;
    fn assumptions(&self) -> Vec<String> {
        vec![]
    }
    /// total number of generated cases for this tier (split over shards)
    fn cases(&self, tier: Tier) -> u32;
    fn shards(&self, _tier: Tier) -> usize {
        16
    }
    fn strategy(&self, tier: Tier) -> BoxedStrategy<Self::Case>;
    fn local(&self) -> Self::Local;
    fn check(&self, case: &Self::Case, local: &mut Self::Local, obs: &mut Obs) -> Verdict;
    /// rendering of a case for evidence samples
    fn render(&self, case: &Self::Case) -> Value {
        let v = serde_json::to_value(case).unwrap_or(Value::Null);
        truncate_value(v, 600)
    }
    /// run each case in a child process (abort / stack overflow become verdicts)
    fn isolated(&self) -> bool {
        false
    }
    /// stack size of the thread that executes `check`
    fn stack_bytes(&self) -> usize {
        256 << 20
    }
    /// verdict for a case whose isolated worker died twice (in the shard's child and in a solo re-run).
    /// `how` = SIGSEGV / SIGABRT / exitN …; `stderr` = tail of what the worker wrote to stderr (e.g. the runtime's
    /// "has overflowed its stack" line); `msg` = ready-made description.  Override to compute a narrower signature.
    fn on_abort(&self, _case: &Self::Case, how: &str, _stderr: &str, msg: String) -> Verdict {
        Verdict::fail(format!("abort:{how}"), msg)
    }
    /// per-case watchdog for isolated properties (seconds)
    fn case_timeout_s(&self) -> u64 {
        120
    }
    /// verdict for a case whose isolated worker did not answer within `case_timeout_s`.
    /// `None` (default) = inconclusive.  Only for cases where non-return is itself what the property forbids.
    fn timeout_verdict(&self, _case: &Self::Case) -> Option<Verdict> {
        None
    }
    fn max_shrink_iters(&self, tier: Tier) -> u32 {
        tier.pick(2000, 20000)
    }
    /// verdict for a panic that escaped `check` (default: the case is not judged; crash-freedom properties override this)
    fn on_uncaught_panic(&self, msg: &str) -> Verdict {
        Verdict::Skip(format!("panic:{}", panic_site(msg)))
    }
    /// THOROUGH TIER ONLY: a family-level signature for an unclassified shape of this property's open root causes
    /// (None = report strictly).  Used where a few root causes show up in an open-ended number of shapes, so that long
    /// runs keep searching instead of reporting the same root causes for ever.  The mapped signature is only tolerated
    /// if KNOWN_FINDINGS.json lists it as open; the quick tier never applies it.
    fn thorough_family(&self, _case: &Self::Case, _fail: &Fail) -> Option<String> {
        None
    }
    /// simpler variants of a failing case, tried greedily after proptest's own shrinking (e.g. text ddmin)
    fn simplify(&self, _case: &Self::Case) -> Vec<Self::Case> {
        vec![]
    }
    /// extra deterministic cases always evaluated first (regressions, corpus files)
    fn fixed_cases(&self, _tier: Tier) -> Vec<Self::Case> {
        vec![]
    }
}

pub fn truncate_value(v: Value, max: usize) -> Value {
    match v {
        Value::String(s) => {
            if s.len() > max {
                let mut end = max;
                while !s.is_char_boundary(end) {
                    end -= 1;
                }
                Value::String(format!("{}…[{} bytes]", &s[..end], s.len()))
            } else {
                Value::String(s)
            }
        }
        Value::Array(a) => {
            let n = a.len();
            let mut out: Vec<Value> = a.into_iter().take(24).map(|x| truncate_value(x, max)).collect();
            if n > 24 {
                out.push(Value::String(format!("…[{} items]", n)));
            }
            Value::Array(out)
        }
        Value::Object(m) => Value::Object(m.into_iter().map(|(k, v)| (k, truncate_value(v, max))).collect()),
        other => other,
    }
}

pub fn fnv64(bytes: &[u8]) -> u64 {
    let mut h: u64 = 0xcbf29ce484222325;
    for b in bytes {
        h ^= *b as u64;
        h = h.wrapping_mul(0x100000001b3);
    }
    h
}

pub fn splitmix(mut x: u64) -> u64 {
    x = x.wrapping_add(0x9E3779B97F4A7C15);
    let mut z = x;
    z = (z ^ (z >> 30)).wrapping_mul(0xBF58476D1CE4E5B9);
    z = (z ^ (z >> 27)).wrapping_mul(0x94D049BB133111EB);
    z ^ (z >> 31)
}

#[derive(Default)]
pub struct Stats {
    pub evaluations: u64,
    pub nontrivial: BTreeSet<u64>,
    pub classes: BTreeMap<String, u64>,
    pub counters: BTreeMap<String, u64>,
    pub excluded: BTreeMap<String, u64>,
    pub known_hits: BTreeMap<String, u64>,
    pub first_samples: Vec<Value>,
    pub low_samples: BTreeMap<u64, Value>,
    pub inconclusive: u64,
    pub inconclusive_notes: Vec<String>,
}

impl Stats {
    fn merge(&mut self, o: Stats) {
        self.evaluations += o.evaluations;
        self.nontrivial.extend(o.nontrivial);
        for (k, v) in o.classes {
            *self.classes.entry(k).or_default() += v;
        }
        for (k, v) in o.counters {
            *self.counters.entry(k).or_default() += v;
        }
        for (k, v) in o.excluded {
            *self.excluded.entry(k).or_default() += v;
        }
        for (k, v) in o.known_hits {
            *self.known_hits.entry(k).or_default() += v;
        }
        for s in o.first_samples {
            if self.first_samples.len() < 3 {
                self.first_samples.push(s);
            }
        }
        for (k, v) in o.low_samples {
            self.low_samples.insert(k, v);
            while self.low_samples.len() > 3 {
                let last = *self.low_samples.keys().next_back().unwrap();
                self.low_samples.remove(&last);
            }
        }
        self.inconclusive += o.inconclusive;
        self.inconclusive_notes.extend(o.inconclusive_notes);
    }
}

pub struct RunCtx {
    pub tier: Tier,
    pub seed: u64,
    pub verif_root: PathBuf,
}

#[derive(Serialize, Deserialize)]
pub struct ReplayFile {
    pub property: String,
    pub sig: String,
    pub msg: String,
    pub case: Value,
}

pub struct Failure<C> {
    pub shard: usize,
    pub case: C,
    pub fail: Fail,
}

/// How a shard evaluates one case: directly or through a worker child.
enum Exec<P: Property> {
    Direct(P::Local),
    Child(worker::Child),
}

fn eval_case<P: Property>(p: &P, exec: &mut Exec<P>, case: &P::Case, st: &mut Stats) -> (Verdict, Obs) {
    match exec {
        Exec::Direct(local) => {
            let mut obs = Obs::default();
            // development aid: VERIF_TRACE_DIR=<dir> leaves the case each shard is working on in <dir>/<thread>.json,
            // so that an abort of the whole process (stack overflow in an in-process check) can be attributed
            static TRACE: std::sync::OnceLock<Option<String>> = std::sync::OnceLock::new();
            if let Some(dir) = TRACE.get_or_init(|| std::env::var("VERIF_TRACE_DIR").ok()) {
                let name = std::thread::current().name().unwrap_or("main").to_string();
                let _ = std::fs::write(format!("{dir}/{name}.json"), serde_json::to_string(case).unwrap_or_default());
            }
            match catch(|| p.check(case, local, &mut obs)) {
                Ok(v) => (v, obs),
                Err(msg) => {
                    // the check itself did not catch a panic of the code under test: rebuild the per-thread state
                    *local = p.local();
                    (p.on_uncaught_panic(&msg), Obs::default())
                }
            }
        }
        Exec::Child(child) => {
            let req = serde_json::to_string(case).expect("case serialises");
            match child.call(&req, p.case_timeout_s()) {
                worker::Reply::Line(line) => match serde_json::from_str::<(Verdict, Obs)>(&line) {
                    Ok(x) => x,
                    Err(e) => (Verdict::fail("worker-protocol", format!("bad reply {e}: {line}")), Obs::default()),
                },
                worker::Reply::Died(how) => {
                    child.respawn();
                    // confirm on a fresh child, solo
                    match child.call(&req, p.case_timeout_s()) {
                        worker::Reply::Died(how2) => {
                            let tail = child.stderr_tail();
                            child.respawn();
                            let msg = format!("worker process died ({how}; solo re-run: {how2}); stderr: {}", one_line(tail.trim(), 300));
                            (p.on_abort(case, &how2, &tail, msg), Obs::default())
                        }
                        worker::Reply::Line(line) => {
                            // not reproducible solo: not charged to this case
                            st.inconclusive_notes.push(format!("worker died ({how}) but case passed solo"));
                            match serde_json::from_str::<(Verdict, Obs)>(&line) {
                                Ok(x) => x,
                                Err(e) => (Verdict::fail("worker-protocol", format!("bad reply {e}")), Obs::default()),
                            }
                        }
                        worker::Reply::Timeout => {
                            child.respawn();
                            if let Some(v) = p.timeout_verdict(case) {
                                return (v, Obs::default());
                            }
                            st.inconclusive += 1;
                            st.inconclusive_notes.push("watchdog on solo re-run".into());
                            (Verdict::Skip("watchdog".into()), Obs::default())
                        }
                    }
                }
                worker::Reply::Timeout => {
                    child.respawn();
                    if let Some(v) = p.timeout_verdict(case) {
                        return (v, Obs::default());
                    }
                    st.inconclusive += 1;
                    st.inconclusive_notes.push(format!("watchdog after {}s", p.case_timeout_s()));
                    (Verdict::Skip("watchdog".into()), Obs::default())
                }
            }
        }
    }
}

fn digest_case<C: Serialize>(case: &C) -> u64 {
    fnv64(serde_json::to_string(case).unwrap_or_default().as_bytes())
}

fn record<P: Property>(p: &P, case: &P::Case, v: &Verdict, obs: Obs, st: &mut Stats) {
    st.evaluations += 1;
    for c in obs.classes {
        *st.classes.entry(c).or_default() += 1;
    }
    for (k, n) in obs.counters {
        *st.counters.entry(k).or_default() += n;
    }
    match v {
        Verdict::Pass { nontrivial: true } => {
            let d = digest_case(case);
            if st.nontrivial.insert(d) {
                if st.first_samples.len() < 3 {
                    st.first_samples.push(p.render(case));
                }
                let worst = st.low_samples.keys().next_back().copied();
                if st.low_samples.len() < 3 || worst.map(|w| d < w).unwrap_or(true) {
                    st.low_samples.insert(d, p.render(case));
                    while st.low_samples.len() > 3 {
                        let last = *st.low_samples.keys().next_back().unwrap();
                        st.low_samples.remove(&last);
                    }
                }
            }
        }
        Verdict::Skip(cat) => {
            *st.excluded.entry(cat.clone()).or_default() += 1;
        }
        _ => {}
    }
}

fn make_exec<P: Property>(p: &P, verif_root: &Path) -> Exec<P> {
    if p.isolated() {
        Exec::Child(worker::Child::spawn(p.id(), verif_root))
    } else {
        Exec::Direct(p.local())
    }
}

/// Second-stage minimisation: property-specific candidates (`simplify`), taken greedily while the candidate still
/// fails with a signature that is not an open known finding.  Returns the minimal case and its own failure.
fn minimise<P: Property>(p: &P, exec: &mut Exec<P>, case: P::Case, fallback: Fail, open_sigs: &[String]) -> (P::Case, Fail) {
    let mut case = case;
    let mut budget = 3000usize;
    // effort limit of the minimiser only (never a verdict): a slow property on a loaded machine must still report
    let started = Instant::now();
    let max_s: u64 = std::env::var("VERIF_MINIMISE_S").ok().and_then(|s| s.parse().ok()).unwrap_or(120);
    // only candidates failing with the SAME signature are taken, so minimisation cannot slide into another defect
    let want = fallback.sig.clone();
    'outer: loop {
        for cand in p.simplify(&case) {
            if budget == 0 || started.elapsed().as_secs() > max_s {
                break 'outer;
            }
            budget -= 1;
            let mut scratch = Stats::default();
            let (v, _) = eval_case(p, exec, &cand, &mut scratch);
            if let Verdict::Fail(f) = v {
                if !open_sigs.iter().any(|s| *s == f.sig) && (f.sig == want || want == "flaky") {
                    case = cand;
                    continue 'outer;
                }
            }
        }
        break;
    }
    // re-evaluate the minimal case to get its own signature/message
    let mut scratch = Stats::default();
    let (v, _) = eval_case(p, exec, &case, &mut scratch);
    let fail = match v {
        Verdict::Fail(f) => f,
        _ => fallback,
    };
    (case, fail)
}

fn run_shard<P: Property>(
    p: Arc<P>,
    tier: Tier,
    seed: u64,
    shard: usize,
    cases: u32,
    open_sigs: Arc<Vec<String>>,
    verif_root: PathBuf,
    stop: Arc<AtomicBool>,
) -> (Stats, Option<Failure<P::Case>>) {
    let mut st = Stats::default();
    let mut exec = make_exec(&*p, &verif_root);
    let failed = false;

    // fixed cases are evaluated by shard 0 only
    if shard == 0 {
        for case in p.fixed_cases(tier) {
            let (v, obs) = eval_case(&*p, &mut exec, &case, &mut st);
            record(&*p, &case, &v, obs, &mut st);
            if let Verdict::Fail(f) = v {
                let family = if tier == Tier::Thorough && !open_sigs.iter().any(|s| *s == f.sig) {
                    p.thorough_family(&case, &f).filter(|fam| open_sigs.iter().any(|s| s == fam))
                } else {
                    None
                };
                if let Some(fam) = family {
                    *st.known_hits.entry(fam).or_default() += 1;
                } else if open_sigs.iter().any(|s| *s == f.sig) {
                    *st.known_hits.entry(f.sig.clone()).or_default() += 1;
                } else {
                    // fixed cases get the second-stage minimisation too (whole corpus files are large)
                    let (case, fail) = minimise(&*p, &mut exec, case, f, &open_sigs);
                    return (st, Some(Failure { shard, case, fail }));
                }
            }
        }
    }
    if cases == 0 {
        return (st, None);
    }

    let thorough_tier = tier == Tier::Thorough;
    let config = Config {
        cases,
        failure_persistence: None,
        rng_seed: RngSeed::Fixed(seed),
        max_shrink_iters: p.max_shrink_iters(tier),
        // effort limit of proptest's shrinker (milliseconds), not a verdict
        max_shrink_time: tier.pick(180_000, 900_000),
        max_global_rejects: 1 << 30,
        verbose: 0,
        ..Config::default()
    };
    let mut runner = TestRunner::new(config);
    let strategy = p.strategy(tier);
    let last_fail: Mutex<Option<Fail>> = Mutex::new(None);
    let st_cell = std::cell::RefCell::new(std::mem::take(&mut st));
    let exec_cell = std::cell::RefCell::new(exec);
    let failed_cell = std::cell::Cell::new(failed);
    let res = {
        let p2 = p.clone();
        let last_fail = &last_fail;
        let stop = stop.clone();
        let st_cell = &st_cell;
        let exec_cell = &exec_cell;
        let failed_cell = &failed_cell;
        let open_sigs = open_sigs.clone();
        runner.run(&strategy, move |case| {
            if !failed_cell.get() && stop.load(Ordering::Relaxed) {
                // another shard already failed: stop exploring
                return Ok(());
            }
            let st_ref = &mut *st_cell.borrow_mut();
            let exec_ref = &mut *exec_cell.borrow_mut();
            let (v, obs) = eval_case(&*p2, exec_ref, &case, st_ref);
            if !failed_cell.get() {
                record(&*p2, &case, &v, obs, st_ref);
            }
            match v {
                Verdict::Fail(f) => {
                    let family = if thorough_tier && !open_sigs.iter().any(|s| *s == f.sig) {
                        p2.thorough_family(&case, &f).filter(|fam| open_sigs.iter().any(|s| s == fam))
                    } else {
                        None
                    };
                    if let Some(fam) = family {
                        if !failed_cell.get() {
                            *st_ref.known_hits.entry(fam).or_default() += 1;
                        }
                        Ok(())
                    } else if open_sigs.iter().any(|s| *s == f.sig) {
                        if !failed_cell.get() {
                            *st_ref.known_hits.entry(f.sig.clone()).or_default() += 1;
                        }
                        Ok(())
                    } else {
                        // while shrinking, a candidate failing with a different signature is another defect: not taken
                        if failed_cell.get() {
                            if let Some(first) = last_fail.lock().unwrap().as_ref() {
                                if first.sig != f.sig {
                                    return Ok(());
                                }
                            }
                        }
                        failed_cell.set(true);
                        let msg = f.msg.clone();
                        *last_fail.lock().unwrap() = Some(f);
                        Err(TestCaseError::fail(msg))
                    }
                }
                _ => Ok(()),
            }
        })
    };
    let mut st = st_cell.into_inner();
    let mut exec = exec_cell.into_inner();
    let _ = failed_cell.get();
    match res {
        Ok(()) => (st, None),
        Err(TestError::Fail(_, case)) => {
            let fallback = last_fail.lock().unwrap().clone().unwrap_or(Fail { sig: "flaky".into(), msg: "minimal case did not fail on re-evaluation".into() });
            let (case, fail) = minimise(&*p, &mut exec, case, fallback, &open_sigs);
            (st, Some(Failure { shard, case, fail }))
        }
        Err(TestError::Abort(reason)) => {
            st.inconclusive += 1;
            st.inconclusive_notes.push(format!("proptest abort: {reason}"));
            (st, None)
        }
    }
}

pub fn write_evidence<P: Property>(p: &P, ctx: &RunCtx, st: &Stats, violations: u64, wall_s: f64, extra: Value) {
    let mut samples: Vec<Value> = st.first_samples.clone();
    samples.extend(st.low_samples.values().cloned());
    if samples.is_empty() {
        samples.push(json!("(no non-trivial case in this run)"));
    }
    let mut coverage = json!({
        "evaluations": st.evaluations,
        "distinct_nontrivial": st.nontrivial.len(),
        "rule": p.rule(),
        "samples": samples,
        "classes": st.classes,
        "counters": st.counters,
        "excluded": st.excluded,
        "known_finding_hits": st.known_hits,
        "inconclusive_cases": st.inconclusive,
        "inconclusive_notes": st.inconclusive_notes.iter().take(10).collect::<Vec<_>>(),
        "exhaustive": false,
    });
    if let (Value::Object(c), Value::Object(e)) = (&mut coverage, extra) {
        for (k, v) in e {
            c.insert(k, v);
        }
    }
    let ev = json!({
        "property_id": p.id(),
        "tier": ctx.tier.name(),
        "seed": ctx.seed,
        "level": p.level(),
        "coverage": coverage,
        "assumptions": p.assumptions(),
        "wall_s": wall_s,
        "violations": violations,
    });
    let dir = ctx.verif_root.join("evidence");
    let _ = std::fs::create_dir_all(&dir);
    let path = dir.join(format!("{}.json", p.id()));
    let tmp = dir.join(format!("{}.json.tmp", p.id()));
    std::fs::write(&tmp, serde_json::to_string_pretty(&ev).unwrap()).expect("write evidence");
    std::fs::rename(&tmp, &path).expect("rename evidence");
}

/// Replays the pinned witnesses of open known findings; prints KNOWN-FINDING lines for the ones that still fail.
fn replay_known<P: Property>(p: &P, ctx: &RunCtx, open: &[findings::Entry]) -> Vec<Value> {
    let mut out = vec![];
    let mut exec = make_exec(p, &ctx.verif_root);
    for e in open {
        if e.witness.is_empty() {
            // family-level entries (thorough tier) have no pinned witness
            continue;
        }
        let path = ctx.verif_root.join(&e.witness);
        let Ok(text) = std::fs::read_to_string(&path) else {
            println!("NOTE: witness {} of {} is missing", e.witness, e.id);
            continue;
        };
        let Ok(rf) = serde_json::from_str::<ReplayFile>(&text) else {
            println!("NOTE: witness {} of {} does not parse", e.witness, e.id);
            continue;
        };
        let Ok(case) = serde_json::from_value::<P::Case>(rf.case) else {
            println!("NOTE: witness {} of {} has a stale case format", e.witness, e.id);
            continue;
        };
        let mut scratch = Stats::default();
        let (v, _) = eval_case(p, &mut exec, &case, &mut scratch);
        match v {
            Verdict::Fail(f) if f.sig == e.signature => {
                println!("KNOWN-FINDING: property={} {} {}", p.id(), e.id, e.what);
                out.push(json!({"id": e.id, "still_fails": true}));
            }
            Verdict::Fail(f) if open.iter().any(|o| o.signature == f.sig) => {
                // the witness still fails; a case with several wrong answers is reported under one of its open
                // signatures, not necessarily this entry's
                println!("KNOWN-FINDING: property={} {} {} [witness currently classified under the open signature {}]", p.id(), e.id, e.what, f.sig);
                out.push(json!({"id": e.id, "still_fails": true, "classified_as": f.sig}));
            }
            Verdict::Fail(f) => {
                println!("NOTE: witness of {} now fails with a different signature: {}", e.id, f.sig);
                out.push(json!({"id": e.id, "still_fails": false, "other_sig": f.sig}));
            }
            _ => {
                out.push(json!({"id": e.id, "still_fails": false}));
            }
        }
    }
    out
}

pub fn save_replay<P: Property>(p: &P, ctx: &RunCtx, case: &P::Case, fail: &Fail) -> PathBuf {
    let rf = ReplayFile {
        property: p.id().to_string(),
        sig: fail.sig.clone(),
        msg: fail.msg.clone(),
        case: serde_json::to_value(case).unwrap_or(Value::Null),
    };
    let text = serde_json::to_string_pretty(&rf).unwrap();
    let dir = ctx.verif_root.join("replays").join(p.id());
    let _ = std::fs::create_dir_all(&dir);
    let path = dir.join(format!("{:016x}.json", fnv64(text.as_bytes())));
    std::fs::write(&path, text).expect("write replay");
    path
}

/// Runs the whole check for one property.  Returns the process exit code.
pub fn run<P: Property>(p: P, ctx: &RunCtx) -> i32 {
    let t0 = Instant::now();
    let p = Arc::new(p);
    let all = findings::load(&ctx.verif_root);
    let open: Vec<findings::Entry> = all.iter().filter(|e| e.property == p.id() && e.status == "open").cloned().collect();
    let known_status = replay_known(&*p, ctx, &open);
    // regressions: witnesses of repaired findings must keep passing (a fixed entry suppresses nothing)
    let fixed: Vec<findings::Entry> = all.iter().filter(|e| e.property == p.id() && e.status == "fixed" && !e.witness.is_empty()).cloned().collect();
    if !fixed.is_empty() {
        let mut exec = make_exec(&*p, &ctx.verif_root);
        for e in &fixed {
            let path = ctx.verif_root.join(&e.witness);
            let Ok(text) = std::fs::read_to_string(&path) else { continue };
            let Ok(rf) = serde_json::from_str::<ReplayFile>(&text) else { continue };
            let Ok(case) = serde_json::from_value::<P::Case>(rf.case) else {
                println!("NOTE: witness {} of {} has a stale case format", e.witness, e.id);
                continue;
            };
            let mut scratch = Stats::default();
            let (v, _) = eval_case(&*p, &mut exec, &case, &mut scratch);
            if let Verdict::Fail(f) = v {
                if !open.iter().any(|o| o.signature == f.sig) {
                    let mut st = Stats::default();
                    st.evaluations = 1;
                    write_evidence(&*p, ctx, &st, 1, t0.elapsed().as_secs_f64(), json!({"regressed_fixed_finding": e.id}));
                    println!("FAIL {} repaired finding {} is back: sig={} : {}", p.id(), e.id, f.sig, one_line(&f.msg, 2000));
                    println!("VIOLATION property={} replay={}", p.id(), path.display());
                    return 1;
                }
            }
        }
    }
    let open_sigs: Arc<Vec<String>> = Arc::new(open.iter().map(|e| e.signature.clone()).collect());

    let shards = p.shards(ctx.tier).max(1);
    let total = p.cases(ctx.tier);
    let per = total / shards as u32;
    let stop = Arc::new(AtomicBool::new(false));
    let mut handles = vec![];
    for k in 0..shards {
        let p = p.clone();
        let open_sigs = open_sigs.clone();
        let seed = splitmix(ctx.seed ^ fnv64(p.id().as_bytes()) ^ ((k as u64) << 40));
        let tier = ctx.tier;
        let root = ctx.verif_root.clone();
        let cases = if k == 0 { per + total % shards as u32 } else { per };
        let stop = stop.clone();
        let stack = if p.isolated() { 16 << 20 } else { p.stack_bytes() };
        let h = std::thread::Builder::new()
            .name(format!("shard{k}"))
            .stack_size(stack)
            .spawn(move || {
                let r = run_shard(p, tier, seed, k, cases, open_sigs, root, stop.clone());
                if r.1.is_some() {
                    stop.store(true, Ordering::Relaxed);
                }
                r
            })
            .expect("spawn shard");
        handles.push(h);
    }
    let mut st = Stats::default();
    let mut failure: Option<Failure<P::Case>> = None;
    for h in handles {
        match h.join() {
            Ok((s, f)) => {
                st.merge(s);
                if let Some(f) = f {
                    if failure.as_ref().map(|g| f.shard < g.shard).unwrap_or(true) {
                        failure = Some(f);
                    }
                }
            }
            Err(_) => {
                st.inconclusive += 1;
                st.inconclusive_notes.push("a shard thread panicked outside a check".into());
            }
        }
    }
    let wall = t0.elapsed().as_secs_f64();
    let extra = json!({"known_findings": known_status, "shards": shards});
    match failure {
        Some(f) => {
            let path = save_replay(&*p, ctx, &f.case, &f.fail);
            write_evidence(&*p, ctx, &st, 1, wall, extra);
            println!("FAIL {} sig={} : {}", p.id(), f.fail.sig, one_line(&f.fail.msg, 2000));
            println!("VIOLATION property={} replay={}", p.id(), path.display());
            1
        }
        None => {
            write_evidence(&*p, ctx, &st, 0, wall, extra);
            if st.inconclusive > 0 {
                println!("INCONCLUSIVE property={} cases={} notes={:?}", p.id(), st.inconclusive, st.inconclusive_notes.iter().take(3).collect::<Vec<_>>());
                return 2;
            }
            println!(
                "OK {} tier={} seed={} evaluations={} distinct_nontrivial={} known_hits={:?} excluded={:?} wall={:.1}s",
                p.id(),
                ctx.tier.name(),
                ctx.seed,
                st.evaluations,
                st.nontrivial.len(),
                st.known_hits,
                st.excluded,
                wall
            );
            0
        }
    }
}

pub fn one_line(s: &str, max: usize) -> String {
    let mut t: String = s.chars().map(|c| if c == '\n' || c == '\r' { ' ' } else { c }).collect();
    if t.len() > max {
        let mut end = max;
        while !t.is_char_boundary(end) {
            end -= 1;
        }
        t.truncate(end);
        t.push('…');
    }
    t
}

/// Strict replay of one saved case (known findings are NOT tolerated here).
pub fn replay<P: Property>(p: P, ctx: &RunCtx, path: &Path) -> i32 {
    let text = match std::fs::read_to_string(path) {
        Ok(t) => t,
        Err(e) => {
            println!("INCONCLUSIVE cannot read {}: {e}", path.display());
            return 2;
        }
    };
    let rf: ReplayFile = match serde_json::from_str(&text) {
        Ok(r) => r,
        Err(e) => {
            println!("INCONCLUSIVE cannot parse {}: {e}", path.display());
            return 2;
        }
    };
    let case: P::Case = match serde_json::from_value(rf.case) {
        Ok(c) => c,
        Err(e) => {
            println!("INCONCLUSIVE stale case format in {}: {e}", path.display());
            return 2;
        }
    };
    let stack = if p.isolated() { 16 << 20 } else { p.stack_bytes() };
    let p = Arc::new(p);
    let root = ctx.verif_root.clone();
    let p2 = p.clone();
    let v = std::thread::Builder::new()
        .stack_size(stack)
        .spawn(move || {
            let mut exec = make_exec(&*p2, &root);
            let mut scratch = Stats::default();
            eval_case(&*p2, &mut exec, &case, &mut scratch).0
        })
        .expect("spawn")
        .join()
        .expect("replay thread");
    match v {
        Verdict::Fail(f) => {
            println!("FAIL {} sig={} : {}", p.id(), f.sig, one_line(&f.msg, 4000));
            println!("VIOLATION property={} replay={}", p.id(), path.display());
            1
        }
        Verdict::Skip(c) => {
            println!("SKIPPED ({c}) {}", p.id());
            0
        }
        Verdict::Pass { .. } => {
            println!("OK {} replay passes", p.id());
            0
        }
    }
}

/// Worker-child main loop: one JSON case per stdin line, one JSON (Verdict, Obs) per stdout line.
pub fn worker_loop<P: Property>(p: P) -> i32 {
    use std::io::{BufRead, Write};
    let stack = p.stack_bytes();
    let p = Arc::new(p);
    let h = std::thread::Builder::new()
        .stack_size(stack)
        .spawn(move || {
            let mut local = p.local();
            let stdin = std::io::stdin();
            let stdout = std::io::stdout();
            for line in stdin.lock().lines() {
                let Ok(line) = line else { break };
                if line.is_empty() {
                    continue;
                }
                let reply = match serde_json::from_str::<P::Case>(&line) {
                    Ok(case) => {
                        let mut obs = Obs::default();
                        let v = p.check(&case, &mut local, &mut obs);
                        (v, obs)
                    }
                    Err(e) => (Verdict::fail("worker-protocol", format!("bad case: {e}")), Obs::default()),
                };
                let mut out = stdout.lock();
                let _ = writeln!(out, "{}", serde_json::to_string(&reply).unwrap());
                let _ = out.flush();
            }
        })
        .expect("spawn worker thread");
    let _ = h.join();
    0
}

/// run `f` under catch_unwind with panic output silenced; returns Err(panic message)
pub fn catch<R>(f: impl FnOnce() -> R) -> Result<R, String> {
    install_quiet_hook();
    match std::panic::catch_unwind(std::panic::AssertUnwindSafe(f)) {
        Ok(r) => Ok(r),
        Err(e) => {
            let loc = LAST_PANIC_LOC.with(|l| l.borrow_mut().take()).unwrap_or_default();
            let msg = if let Some(s) = e.downcast_ref::<&str>() {
                s.to_string()
            } else if let Some(s) = e.downcast_ref::<String>() {
                s.clone()
            } else {
                "panic".to_string()
            };
            Err(format!("{msg} @ {loc}"))
        }
    }
}

thread_local! {
    static LAST_PANIC_LOC: std::cell::RefCell<Option<String>> = const { std::cell::RefCell::new(None) };
    static PANIC_LOG: std::cell::RefCell<Vec<String>> = const { std::cell::RefCell::new(Vec::new()) };
}

/// all panics (message @ location) seen on this thread since the last call, including panics that a
/// runtime swallowed (e.g. inside spawned tokio tasks)
pub fn take_panics() -> Vec<String> {
    install_quiet_hook();
    PANIC_LOG.with(|l| std::mem::take(&mut *l.borrow_mut()))
}

pub fn install_quiet_hook() {
    static ONCE: std::sync::Once = std::sync::Once::new();
    ONCE.call_once(|| {
        std::panic::set_hook(Box::new(|info| {
            let loc = info.location().map(|l| format!("{}:{}", l.file(), l.line())).unwrap_or_default();
            let msg = if let Some(s) = info.payload().downcast_ref::<&str>() {
                s.to_string()
            } else if let Some(s) = info.payload().downcast_ref::<String>() {
                s.clone()
            } else {
                "panic".to_string()
            };
            if std::env::var("VERIF_DEBUG_PANIC").is_ok() {
                eprintln!("PANIC {msg} @ {loc}");
            }
            PANIC_LOG.with(|l| {
                let mut l = l.borrow_mut();
                if l.len() < 64 {
                    l.push(format!("{msg} @ {loc}"));
                }
            });
            LAST_PANIC_LOC.with(|l| *l.borrow_mut() = Some(loc));
        }));
    });
}

/// Panic location with the /repo prefix stripped: stable across machines, used in signatures.
pub fn panic_site(msg: &str) -> String {
    let loc = msg.rsplit(" @ ").next().unwrap_or("");
    if let Some(i) = loc.find("/crates/emmylua") {
        return loc[i + 1..].to_string();
    }
    if let Some(i) = loc.find("/crates/schema_to_emmylua") {
        return loc[i + 1..].to_string();
    }
    if let Some(i) = loc.find("/registry/src/") {
        // <registry>/<hash>/<crate-version>/src/...
        let rest = &loc[i + "/registry/src/".len()..];
        if let Some(j) = rest.find('/') {
            return rest[j + 1..].to_string();
        }
    }
    loc.to_string()
}
