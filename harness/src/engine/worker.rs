//! Worker children: `vcheck --worker <ID>`; JSON lines over stdin/stdout.
use std::io::{BufRead, BufReader, Write};
use std::path::{Path, PathBuf};
use std::process::{Command, Stdio};
use std::sync::mpsc::{channel, Receiver, RecvTimeoutError};
use std::sync::{Arc, Mutex};
use std::time::Duration;

/// bytes of the child's stderr kept (tail); enough for the runtime's "has overflowed its stack" line
const STDERR_TAIL: usize = 4096;
type ErrBuf = Arc<Mutex<Vec<u8>>>;

pub enum Reply {
    Line(String),
    Died(String),
    Timeout,
}

pub struct Child {
    id: String,
    root: PathBuf,
    proc_: std::process::Child,
    stdin: Option<std::process::ChildStdin>,
    rx: Receiver<Option<String>>,
    err: ErrBuf,
    err_thread: Option<std::thread::JoinHandle<()>>,
}

struct Started {
    proc_: std::process::Child,
    stdin: std::process::ChildStdin,
    rx: Receiver<Option<String>>,
    err: ErrBuf,
    err_thread: std::thread::JoinHandle<()>,
}

fn start(id: &str, root: &Path) -> Started {
    let exe = std::env::current_exe().expect("current_exe");
    let mut c = Command::new(exe)
        .arg("--worker")
        .arg(id)
        .env("VERIF_ROOT", root)
        .stdin(Stdio::piped())
        .stdout(Stdio::piped())
        .stderr(Stdio::piped())
        .spawn()
        .expect("spawn worker");
    let stdin = c.stdin.take().unwrap();
    let stdout = c.stdout.take().unwrap();
    let mut stderr = c.stderr.take().unwrap();
    let err: ErrBuf = Arc::new(Mutex::new(Vec::new()));
    let err2 = err.clone();
    let err_thread = std::thread::spawn(move || {
        use std::io::Read;
        let mut buf = [0u8; 1024];
        loop {
            match stderr.read(&mut buf) {
                Ok(0) | Err(_) => break,
                Ok(n) => {
                    let mut v = err2.lock().unwrap();
                    v.extend_from_slice(&buf[..n]);
                    if v.len() > 2 * STDERR_TAIL {
                        let cut = v.len() - STDERR_TAIL;
                        v.drain(..cut);
                    }
                }
            }
        }
    });
    let (tx, rx) = channel();
    std::thread::spawn(move || {
        let r = BufReader::new(stdout);
        for line in r.lines() {
            match line {
                Ok(l) => {
                    if tx.send(Some(l)).is_err() {
                        return;
                    }
                }
                Err(_) => break,
            }
        }
        let _ = tx.send(None);
    });
    Started { proc_: c, stdin, rx, err, err_thread }
}

impl Child {
    pub fn spawn(id: &str, root: &Path) -> Child {
        let s = start(id, root);
        Child { id: id.to_string(), root: root.to_path_buf(), proc_: s.proc_, stdin: Some(s.stdin), rx: s.rx, err: s.err, err_thread: Some(s.err_thread) }
    }

    pub fn respawn(&mut self) {
        let _ = self.proc_.kill();
        let _ = self.proc_.wait();
        if let Some(h) = self.err_thread.take() {
            let _ = h.join();
        }
        let s = start(&self.id, &self.root);
        self.proc_ = s.proc_;
        self.stdin = Some(s.stdin);
        self.rx = s.rx;
        self.err = s.err;
        self.err_thread = Some(s.err_thread);
    }

    /// Tail of what the (dead) child wrote to stderr.  Call after `Reply::Died`: the child has been waited for, so
    /// the reader thread sees EOF and the tail is complete.
    pub fn stderr_tail(&mut self) -> String {
        if let Some(h) = self.err_thread.take() {
            let _ = h.join();
        }
        String::from_utf8_lossy(&self.err.lock().unwrap()).into_owned()
    }

    pub fn call(&mut self, req: &str, timeout_s: u64) -> Reply {
        let ok = match self.stdin.as_mut() {
            Some(s) => writeln!(s, "{}", req).and_then(|_| s.flush()).is_ok(),
            None => false,
        };
        if !ok {
            return Reply::Died(self.how_died());
        }
        match self.rx.recv_timeout(Duration::from_secs(timeout_s)) {
            Ok(Some(l)) => Reply::Line(l),
            Ok(None) | Err(RecvTimeoutError::Disconnected) => Reply::Died(self.how_died()),
            Err(RecvTimeoutError::Timeout) => Reply::Timeout,
        }
    }

    fn how_died(&mut self) -> String {
        use std::os::unix::process::ExitStatusExt;
        self.stdin = None;
        match self.proc_.wait() {
            Ok(st) => {
                if let Some(sig) = st.signal() {
                    match sig {
                        6 => "SIGABRT".to_string(),
                        11 => "SIGSEGV".to_string(),
                        9 => "SIGKILL".to_string(),
                        7 => "SIGBUS".to_string(),
                        n => format!("signal{n}"),
                    }
                } else {
                    format!("exit{}", st.code().unwrap_or(-1))
                }
            }
            Err(_) => "unknown".to_string(),
        }
    }
}

impl Drop for Child {
    fn drop(&mut self) {
        // closing stdin ends the worker loop; give the child a moment to exit on its own (it may clean up its scratch files)
        self.stdin = None;
        for _ in 0..100 {
            if let Ok(Some(_)) = self.proc_.try_wait() {
                return;
            }
            std::thread::sleep(Duration::from_millis(10));
        }
        let _ = self.proc_.kill();
        let _ = self.proc_.wait();
        if let Some(h) = self.err_thread.take() {
            let _ = h.join();
        }
    }
}
