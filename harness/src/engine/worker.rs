//! Worker children: `vcheck --worker <ID>`; JSON lines over stdin/stdout.
use std::io::{BufRead, BufReader, Write};
use std::path::{Path, PathBuf};
use std::process::{Command, Stdio};
use std::sync::mpsc::{channel, Receiver, RecvTimeoutError};
use std::time::Duration;

pub enum Reply {
    Line(String),
    Died(String),
    Timeout,
}

pub struct Child {
    id: String,
    root: PathBuf,
    proc_: std::process::Child,
    stdin: Option<std::process::ChildStdin>,
    rx: Receiver<Option<String>>,
}

fn start(id: &str, root: &Path) -> (std::process::Child, std::process::ChildStdin, Receiver<Option<String>>) {
    let exe = std::env::current_exe().expect("current_exe");
    let mut c = Command::new(exe)
        .arg("--worker")
        .arg(id)
        .env("VERIF_ROOT", root)
        .stdin(Stdio::piped())
        .stdout(Stdio::piped())
        .stderr(Stdio::null())
        .spawn()
        .expect("spawn worker");
    let stdin = c.stdin.take().unwrap();
    let stdout = c.stdout.take().unwrap();
    let (tx, rx) = channel();
    std::thread::spawn(move || {
        let r = BufReader::new(stdout);
        for line in r.lines() {
            match line {
                Ok(l) => {
                    if tx.send(Some(l)).is_err() {
                        return;
                    }
                }
                Err(_) => break,
            }
        }
        let _ = tx.send(None);
    });
    (c, stdin, rx)
}

impl Child {
    pub fn spawn(id: &str, root: &Path) -> Child {
        let (proc_, stdin, rx) = start(id, root);
        Child { id: id.to_string(), root: root.to_path_buf(), proc_, stdin: Some(stdin), rx }
    }

    pub fn respawn(&mut self) {
        let _ = self.proc_.kill();
        let _ = self.proc_.wait();
        let (proc_, stdin, rx) = start(&self.id, &self.root);
        self.proc_ = proc_;
        self.stdin = Some(stdin);
        self.rx = rx;
    }

    pub fn call(&mut self, req: &str, timeout_s: u64) -> Reply {
        let ok = match self.stdin.as_mut() {
            Some(s) => writeln!(s, "{}", req).and_then(|_| s.flush()).is_ok(),
            None => false,
        };
        if !ok {
            return Reply::Died(self.how_died());
        }
        match self.rx.recv_timeout(Duration::from_secs(timeout_s)) {
            Ok(Some(l)) => Reply::Line(l),
            Ok(None) | Err(RecvTimeoutError::Disconnected) => Reply::Died(self.how_died()),
            Err(RecvTimeoutError::Timeout) => Reply::Timeout,
        }
    }

    fn how_died(&mut self) -> String {
        use std::os::unix::process::ExitStatusExt;
        self.stdin = None;
        match self.proc_.wait() {
            Ok(st) => {
                if let Some(sig) = st.signal() {
                    match sig {
                        6 => "SIGABRT".to_string(),
                        11 => "SIGSEGV".to_string(),
                        9 => "SIGKILL".to_string(),
                        7 => "SIGBUS".to_string(),
                        n => format!("signal{n}"),
                    }
                } else {
                    format!("exit{}", st.code().unwrap_or(-1))
                }
            }
            Err(_) => "unknown".to_string(),
        }
    }
}

impl Drop for Child {
    fn drop(&mut self) {
        // closing stdin ends the worker loop; give the child a moment to exit on its own (it may clean up its scratch files)
        self.stdin = None;
        for _ in 0..100 {
            if let Ok(Some(_)) = self.proc_.try_wait() {
                return;
            }
            std::thread::sleep(Duration::from_millis(10));
        }
        let _ = self.proc_.kill();
        let _ = self.proc_.wait();
    }
}
