//! KNOWN_FINDINGS.json: committed list of genuine defects (open) and repaired ones (fixed).
//! Never written at run time.
use serde::{Deserialize, Serialize};
use std::path::Path;

#[derive(Clone, Debug, Serialize, Deserialize)]
pub struct Entry {
    pub id: String,
    pub property: String,
    /// "open" (tolerated by signature, KNOWN-FINDING line printed while the witness fails) or "fixed" (inactive)
    pub status: String,
    /// exact failure signature produced by the property's classifier
    pub signature: String,
    /// path (relative to /verif) of the pinned witness replay file
    #[serde(default)]
    pub witness: String,
    pub what: String,
    #[serde(default)]
    pub fixed_line: String,
}

#[derive(Deserialize)]
struct FileFmt {
    findings: Vec<Entry>,
}

pub fn load(verif_root: &Path) -> Vec<Entry> {
    let path = verif_root.join("KNOWN_FINDINGS.json");
    match std::fs::read_to_string(&path) {
        Ok(t) => match serde_json::from_str::<FileFmt>(&t) {
            Ok(f) => f.findings,
            Err(e) => {
                eprintln!("warning: KNOWN_FINDINGS.json does not parse: {e}");
                vec![]
            }
        },
        Err(_) => vec![],
    }
}
