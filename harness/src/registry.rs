// one line per property (union-merged): "Cnn" => dispatch!(...)
macro_rules! registry {
    ($action:ident, $id:expr, $ctx:expr, $path:expr) => {
        match $id {
            "C01" => dispatch!($action, props::c01::C01, $ctx, $path),
            "C24" => dispatch!($action, props::c24::C24, $ctx, $path),
            "C27" => dispatch!($action, props::c27::C27, $ctx, $path),
            "C28" => dispatch!($action, props::c28::C28, $ctx, $path),
            _ => {
                eprintln!("unknown property {}", $id);
                2
            }
        }
    };
}
