// one line per property (union-merged): "Cnn" => dispatch!(...)
macro_rules! registry {
    ($action:ident, $id:expr, $ctx:expr, $path:expr) => {
        match $id {
            "C01" => dispatch!($action, props::c01::C01, $ctx, $path),
            "C08" => dispatch!($action, props::c08::C08, $ctx, $path),
            "C09" => dispatch!($action, props::c09::C09, $ctx, $path),
            "C10" => dispatch!($action, props::c10::C10, $ctx, $path),
            "C11" => dispatch!($action, props::c11::C11, $ctx, $path),
            _ => {
                eprintln!("unknown property {}", $id);
                2
            }
        }
    };
}
