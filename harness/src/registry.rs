// one line per property (union-merged): "Cnn" => dispatch!(...)
macro_rules! registry {
    ($action:ident, $id:expr, $ctx:expr, $path:expr) => {
        match $id {
            "C01" => dispatch!($action, props::c01::C01, $ctx, $path),
            "C31" => dispatch!($action, props::c31::C31, $ctx, $path),
            "C32" => dispatch!($action, props::c32::C32, $ctx, $path),
            "C33" => dispatch!($action, props::c33::C33, $ctx, $path),
            _ => {
                eprintln!("unknown property {}", $id);
                2
            }
        }
    };
}
