// one line per property (union-merged): "Cnn" => dispatch!(...)
macro_rules! registry {
    ($action:ident, $id:expr, $ctx:expr, $path:expr) => {
        match $id {
            "C01" => dispatch!($action, props::c01::C01, $ctx, $path),
            "C37" => dispatch!($action, props::c37::C37, $ctx, $path),
            "C40" => dispatch!($action, props::c40::C40, $ctx, $path),
            _ => {
                eprintln!("unknown property {}", $id);
                2
            }
        }
    };
}
