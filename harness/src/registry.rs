// one line per property (union-merged): "Cnn" => dispatch!(...)
macro_rules! registry {
    ($action:ident, $id:expr, $ctx:expr, $path:expr) => {
        match $id {
            "C01" => dispatch!($action, props::c01::C01, $ctx, $path),
            "C02" => dispatch!($action, props::c02::C02, $ctx, $path),
            "C04" => dispatch!($action, props::c04::C04, $ctx, $path),
            _ => {
                eprintln!("unknown property {}", $id);
                2
            }
        }
    };
}
