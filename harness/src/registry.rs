// one line per property (union-merged): "Cnn" => dispatch!(...)
macro_rules! registry {
    ($action:ident, $id:expr, $ctx:expr, $path:expr) => {
        match $id {
            "C01" => dispatch!($action, props::c01::C01, $ctx, $path),
            "C05" => dispatch!($action, props::c05::C05, $ctx, $path),
            "C06" => dispatch!($action, props::c06::C06, $ctx, $path),
            "C07" => dispatch!($action, props::c07::C07, $ctx, $path),
            _ => {
                eprintln!("unknown property {}", $id);
                2
            }
        }
    };
}
