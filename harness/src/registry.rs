// one line per property (union-merged): "Cnn" => dispatch!(...)
macro_rules! registry {
    ($action:ident, $id:expr, $ctx:expr, $path:expr) => {
        match $id {
            "C01" => dispatch!($action, props::c01::C01, $ctx, $path),
            "C16" => dispatch!($action, props::c16::C16, $ctx, $path),
            "C17" => dispatch!($action, props::c17::C17, $ctx, $path),
            "C18" => dispatch!($action, props::c18::C18, $ctx, $path),
            _ => {
                eprintln!("unknown property {}", $id);
                2
            }
        }
    };
}
