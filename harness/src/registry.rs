// one line per property (union-merged): "Cnn" => dispatch!(...)
macro_rules! registry {
    ($action:ident, $id:expr, $ctx:expr, $path:expr) => {
        match $id {
            "C01" => dispatch!($action, props::c01::C01, $ctx, $path),
            "C03" => dispatch!($action, props::c03::C03, $ctx, $path),
            "C21" => dispatch!($action, props::c21::C21, $ctx, $path),
            _ => {
                eprintln!("unknown property {}", $id);
                2
            }
        }
    };
}
