// one line per property (union-merged): "Cnn" => dispatch!(...)
macro_rules! registry {
    ($action:ident, $id:expr, $ctx:expr, $path:expr) => {
        match $id {
            "C01" => dispatch!($action, props::c01::C01, $ctx, $path),
            "C15" => dispatch!($action, props::c15::C15, $ctx, $path),
            "C41" => dispatch!($action, props::c41::C41, $ctx, $path),
            _ => {
                eprintln!("unknown property {}", $id);
                2
            }
        }
    };
}
