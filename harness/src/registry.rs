// one line per property (union-merged): "Cnn" => dispatch!(...)
macro_rules! registry {
    ($action:ident, $id:expr, $ctx:expr, $path:expr) => {
        match $id {
            "C01" => dispatch!($action, props::c01::C01, $ctx, $path),
            "C13" => dispatch!($action, props::c13::C13, $ctx, $path),
            "C19" => dispatch!($action, props::c19::C19, $ctx, $path),
            "C20" => dispatch!($action, props::c20::C20, $ctx, $path),
            _ => {
                eprintln!("unknown property {}", $id);
                2
            }
        }
    };
}
