// one line per property (union-merged): "Cnn" => dispatch!(...)
macro_rules! registry {
    ($action:ident, $id:expr, $ctx:expr, $path:expr) => {
        match $id {
            "C01" => dispatch!($action, props::c01::C01, $ctx, $path),
            "C24" => dispatch!($action, props::c24::C24, $ctx, $path),
            "C27" => dispatch!($action, props::c27::C27, $ctx, $path),
            "C28" => dispatch!($action, props::c28::C28, $ctx, $path),
            "C38" => dispatch!($action, props::c38::C38, $ctx, $path),
            "C12" => dispatch!($action, props::c12::C12, $ctx, $path),
            "C35" => dispatch!($action, props::c35::C35, $ctx, $path),
            "C36" => dispatch!($action, props::c36::C36, $ctx, $path),
            "C14" => dispatch!($action, props::c14::C14, $ctx, $path),
            "C39" => dispatch!($action, props::c39::C39, $ctx, $path),
            "C29" => dispatch!($action, props::c29::C29, $ctx, $path),
            "C30" => dispatch!($action, props::c30::C30, $ctx, $path),
            "C25" => dispatch!($action, props::c25::C25, $ctx, $path),
            "C26" => dispatch!($action, props::c26::C26, $ctx, $path),
            "C22" => dispatch!($action, props::c22::C22, $ctx, $path),
            "C23" => dispatch!($action, props::c23::C23, $ctx, $path),
            "C34" => dispatch!($action, props::c34::C34, $ctx, $path),
            "C03" => dispatch!($action, props::c03::C03, $ctx, $path),
            "C21" => dispatch!($action, props::c21::C21, $ctx, $path),
            "C02" => dispatch!($action, props::c02::C02, $ctx, $path),
            "C04" => dispatch!($action, props::c04::C04, $ctx, $path),
            "C31" => dispatch!($action, props::c31::C31, $ctx, $path),
            "C32" => dispatch!($action, props::c32::C32, $ctx, $path),
            "C33" => dispatch!($action, props::c33::C33, $ctx, $path),
            "C37" => dispatch!($action, props::c37::C37, $ctx, $path),
            "C40" => dispatch!($action, props::c40::C40, $ctx, $path),
            "C13" => dispatch!($action, props::c13::C13, $ctx, $path),
            "C19" => dispatch!($action, props::c19::C19, $ctx, $path),
            "C20" => dispatch!($action, props::c20::C20, $ctx, $path),
            "C15" => dispatch!($action, props::c15::C15, $ctx, $path),
            "C41" => dispatch!($action, props::c41::C41, $ctx, $path),
            "C16" => dispatch!($action, props::c16::C16, $ctx, $path),
            "C17" => dispatch!($action, props::c17::C17, $ctx, $path),
            "C18" => dispatch!($action, props::c18::C18, $ctx, $path),
            "C08" => dispatch!($action, props::c08::C08, $ctx, $path),
            "C09" => dispatch!($action, props::c09::C09, $ctx, $path),
            "C10" => dispatch!($action, props::c10::C10, $ctx, $path),
            "C11" => dispatch!($action, props::c11::C11, $ctx, $path),
            "C05" => dispatch!($action, props::c05::C05, $ctx, $path),
            "C06" => dispatch!($action, props::c06::C06, $ctx, $path),
            "C07" => dispatch!($action, props::c07::C07, $ctx, $path),
            _ => {
                eprintln!("unknown property {}", $id);
                2
            }
        }
    };
}
