//! Per-thread on-disk scratch workspaces under $VERIF_ROOT/work (removed on drop).
use std::path::{Path, PathBuf};
use std::sync::atomic::{AtomicU64, Ordering};

static N: AtomicU64 = AtomicU64::new(0);

pub struct TempWs {
    pub root: PathBuf,
}

impl TempWs {
    pub fn new(tag: &str) -> TempWs {
        let base = std::env::var("VERIF_ROOT").unwrap_or_else(|_| "/verif".into());
        let root = Path::new(&base).join("work").join(format!("{tag}-{}-{}", std::process::id(), N.fetch_add(1, Ordering::Relaxed)));
        let _ = std::fs::remove_dir_all(&root);
        std::fs::create_dir_all(&root).expect("create temp workspace");
        TempWs { root }
    }
    pub fn path(&self, rel: &str) -> PathBuf {
        self.root.join(rel)
    }
    pub fn write(&self, rel: &str, text: &str) {
        let p = self.path(rel);
        if let Some(d) = p.parent() {
            let _ = std::fs::create_dir_all(d);
        }
        std::fs::write(&p, text).expect("write temp file");
    }
    pub fn remove(&self, rel: &str) {
        let _ = std::fs::remove_file(self.path(rel));
    }
    pub fn clear(&self) {
        if let Ok(rd) = std::fs::read_dir(&self.root) {
            for e in rd.flatten() {
                let p = e.path();
                if p.is_dir() {
                    let _ = std::fs::remove_dir_all(&p);
                } else {
                    let _ = std::fs::remove_file(&p);
                }
            }
        }
    }
}

impl Drop for TempWs {
    fn drop(&mut self) {
        let _ = std::fs::remove_dir_all(&self.root);
    }
}
