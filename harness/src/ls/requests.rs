//! The 38 request methods the dispatcher registers, with builders for well-formed parameters.
use lsp_types::Uri;
use serde_json::{json, Value};

#[derive(Clone, Copy, Debug, PartialEq, Eq)]
pub enum Shape {
    /// textDocument + position
    Pos,
    /// textDocument only
    Doc,
    /// textDocument + range (+ extras)
    Range,
    /// something else (resolve, workspace-level, custom)
    Other,
}

pub struct Method {
    pub name: &'static str,
    pub shape: Shape,
}

pub const METHODS: &[Method] = &[
    Method { name: "textDocument/hover", shape: Shape::Pos },
    Method { name: "textDocument/documentSymbol", shape: Shape::Doc },
    Method { name: "textDocument/foldingRange", shape: Shape::Doc },
    Method { name: "textDocument/documentColor", shape: Shape::Doc },
    Method { name: "textDocument/colorPresentation", shape: Shape::Range },
    Method { name: "textDocument/documentLink", shape: Shape::Doc },
    Method { name: "documentLink/resolve", shape: Shape::Other },
    Method { name: "emmy/annotator", shape: Shape::Other },
    Method { name: "emmy/gutter", shape: Shape::Other },
    Method { name: "emmy/gutter/detail", shape: Shape::Other },
    Method { name: "emmy/syntaxTree", shape: Shape::Other },
    Method { name: "textDocument/selectionRange", shape: Shape::Pos },
    Method { name: "textDocument/completion", shape: Shape::Pos },
    Method { name: "completionItem/resolve", shape: Shape::Other },
    Method { name: "textDocument/inlayHint", shape: Shape::Range },
    Method { name: "inlayHint/resolve", shape: Shape::Other },
    Method { name: "textDocument/definition", shape: Shape::Pos },
    Method { name: "textDocument/implementation", shape: Shape::Pos },
    Method { name: "textDocument/references", shape: Shape::Pos },
    Method { name: "textDocument/rename", shape: Shape::Pos },
    Method { name: "textDocument/prepareRename", shape: Shape::Pos },
    Method { name: "textDocument/codeLens", shape: Shape::Doc },
    Method { name: "codeLens/resolve", shape: Shape::Other },
    Method { name: "textDocument/signatureHelp", shape: Shape::Pos },
    Method { name: "textDocument/documentHighlight", shape: Shape::Pos },
    Method { name: "textDocument/semanticTokens/full", shape: Shape::Doc },
    Method { name: "workspace/executeCommand", shape: Shape::Other },
    Method { name: "textDocument/codeAction", shape: Shape::Range },
    Method { name: "textDocument/inlineValue", shape: Shape::Range },
    Method { name: "workspace/symbol", shape: Shape::Other },
    Method { name: "textDocument/formatting", shape: Shape::Doc },
    Method { name: "textDocument/rangeFormatting", shape: Shape::Range },
    Method { name: "textDocument/onTypeFormatting", shape: Shape::Pos },
    Method { name: "textDocument/prepareCallHierarchy", shape: Shape::Pos },
    Method { name: "callHierarchy/incomingCalls", shape: Shape::Other },
    Method { name: "callHierarchy/outgoingCalls", shape: Shape::Other },
    Method { name: "textDocument/diagnostic", shape: Shape::Doc },
    Method { name: "workspace/diagnostic", shape: Shape::Other },
];

pub fn range(l1: u32, c1: u32, l2: u32, c2: u32) -> Value {
    json!({"start": {"line": l1, "character": c1}, "end": {"line": l2, "character": c2}})
}

/// Well-formed parameters for `method` on document `uri` at (line, ch) .. (line2, ch2).
pub fn valid_params(method: &str, uri: &Uri, line: u32, ch: u32, line2: u32, ch2: u32) -> Value {
    let td = json!({"uri": uri});
    let pos = json!({"line": line, "character": ch});
    let rng = range(line, ch, line2.max(line), if line2 > line { ch2 } else { ch2.max(ch) });
    let fmt_opts = json!({"tabSize": 4, "insertSpaces": true});
    match method {
        "textDocument/hover" | "textDocument/definition" | "textDocument/implementation" | "textDocument/prepareRename" | "textDocument/signatureHelp"
        | "textDocument/documentHighlight" | "textDocument/prepareCallHierarchy" | "textDocument/completion" => {
            json!({"textDocument": td, "position": pos})
        }
        "textDocument/references" => json!({"textDocument": td, "position": pos, "context": {"includeDeclaration": true}}),
        "textDocument/rename" => json!({"textDocument": td, "position": pos, "newName": "zz9"}),
        "textDocument/selectionRange" => json!({"textDocument": td, "positions": [pos]}),
        "textDocument/onTypeFormatting" => json!({"textDocument": td, "position": pos, "ch": "\n", "options": fmt_opts}),
        "textDocument/documentSymbol" | "textDocument/foldingRange" | "textDocument/documentColor" | "textDocument/documentLink" | "textDocument/codeLens"
        | "textDocument/semanticTokens/full" | "textDocument/diagnostic" => json!({"textDocument": td}),
        "textDocument/formatting" => json!({"textDocument": td, "options": fmt_opts}),
        "textDocument/rangeFormatting" => json!({"textDocument": td, "range": rng, "options": fmt_opts}),
        "textDocument/colorPresentation" => json!({"textDocument": td, "range": rng, "color": {"red": 1.0, "green": 0.5, "blue": 0.0, "alpha": 1.0}}),
        "textDocument/inlayHint" => json!({"textDocument": td, "range": rng}),
        "textDocument/codeAction" => json!({"textDocument": td, "range": rng, "context": {"diagnostics": []}}),
        "textDocument/inlineValue" => json!({"textDocument": td, "range": rng, "context": {"frameId": 1, "stoppedLocation": rng}}),
        "documentLink/resolve" => json!({"range": rng}),
        "codeLens/resolve" => json!({"range": rng}),
        "completionItem/resolve" => json!({"label": "x"}),
        "inlayHint/resolve" => json!({"position": pos, "label": "x"}),
        "emmy/annotator" | "emmy/gutter" | "emmy/syntaxTree" => json!({"uri": uri}),
        "emmy/gutter/detail" => json!({"data": "x"}),
        "workspace/executeCommand" => json!({"command": "emmy.unknown.command", "arguments": []}),
        "workspace/symbol" => json!({"query": "a"}),
        "workspace/diagnostic" => json!({"previousResultIds": []}),
        "callHierarchy/incomingCalls" | "callHierarchy/outgoingCalls" => {
            json!({"item": {"name": "f", "kind": 12, "uri": uri, "range": rng, "selectionRange": rng}})
        }
        _ => Value::Null,
    }
}

/// Malformed variants: 0 = wrong JSON type, 1 = a required field missing, 2 = null, 3 = absent (no params member at all → Null)
pub fn malformed(valid: &Value, kind: u8) -> Value {
    match kind % 4 {
        0 => json!("not-an-object"),
        1 => {
            let mut v = valid.clone();
            if let Value::Object(m) = &mut v {
                if let Some(k) = m.keys().next().cloned() {
                    m.remove(&k);
                }
                if m.is_empty() {
                    return json!([1, 2, 3]);
                }
            }
            v
        }
        2 => Value::Null,
        _ => json!(42),
    }
}
