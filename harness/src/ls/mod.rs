//! In-process language-server driver (hooks H3 + H4).
//!
//! The real dispatcher (`on_request_handler` / `on_notification_handler` / `on_response_handler`) is
//! driven over `lsp_server::Connection::memory()` on a **current-thread tokio runtime with a paused
//! clock**: the harness plays the main loop exactly as `ServerMessageProcessor::handle_message` does
//! (messages handled in order), virtual time auto-advances when the runtime is idle, so "settled" is a
//! deterministic observation and debounce timers cost nothing.  Task interleavings are steered through
//! the schedule vector consumed by the cfg-gated scheduling points in the server (task starts and
//! every lock acquisition).

use emmylua_code_analysis::{EmmyLuaAnalysis, Emmyrc, WorkspaceFolder};
use emmylua_ls::verif::{self, LockEvent, ServerContext, ServerContextSnapshot};
use lsp_server::{Connection, Message, Notification, Request, RequestId, Response};
use lsp_types::ClientCapabilities;
use serde_json::{json, Value};
use std::path::PathBuf;
use std::sync::Arc;
use std::time::Duration;

pub mod disk;
pub mod docgen;
pub mod requests;

pub struct LsOpts {
    /// client supports pull diagnostics (then the server never pushes)
    pub pull_diagnostics: bool,
    pub std_lib: bool,
    pub emmyrc: Emmyrc,
    /// workspace folders (on-disk roots); empty = every file is a workspace file
    pub roots: Vec<PathBuf>,
    /// load the on-disk files of `roots` through `init_analysis`
    pub load_disk: bool,
    pub schedule: Vec<u8>,
    pub max_yields: u8,
}

impl Default for LsOpts {
    fn default() -> Self {
        LsOpts { pull_diagnostics: false, std_lib: false, emmyrc: Emmyrc::default(), roots: vec![], load_disk: false, schedule: vec![], max_yields: 3 }
    }
}

pub struct Ls {
    pub rt: tokio::runtime::Runtime,
    pub ctx: ServerContext,
    pub snap: ServerContextSnapshot,
    pub client: Connection,
    pub received: Vec<Message>,
    pub panicked_tasks: Arc<std::sync::atomic::AtomicUsize>,
    /// set when a handler that the main loop awaits inline never completed although the runtime went
    /// idle and every timer fired (virtual clock): the main loop is wedged
    pub wedged: Option<String>,
}

/// virtual seconds after which an inline handler that is still pending counts as wedged
const WEDGE_S: u64 = 1_000_000;

pub fn client_caps(pull: bool) -> ClientCapabilities {
    let mut v = json!({
        "textDocument": {
            "completion": {"completionItem": {"snippetSupport": true, "resolveSupport": {"properties": ["documentation", "detail"]}}},
            "hover": {"contentFormat": ["markdown", "plaintext"]},
            "semanticTokens": {"requests": {"full": true}, "tokenTypes": [], "tokenModifiers": [], "formats": ["relative"], "multilineTokenSupport": false},
            "documentSymbol": {"hierarchicalDocumentSymbolSupport": true},
            "foldingRange": {"lineFoldingOnly": false},
            "codeAction": {"codeActionLiteralSupport": {"codeActionKind": {"valueSet": ["quickfix"]}}},
            "rename": {"prepareSupport": true},
            "inlayHint": {"resolveSupport": {"properties": ["tooltip"]}}
        },
        "workspace": {"configuration": false, "workspaceFolders": true, "didChangeWatchedFiles": {"dynamicRegistration": true}},
        "window": {"workDoneProgress": false}
    });
    if pull {
        v["textDocument"]["diagnostic"] = json!({"dynamicRegistration": false, "relatedDocumentSupport": false});
    }
    serde_json::from_value(v).expect("client capabilities")
}

impl Ls {
    pub fn new(opts: LsOpts) -> Ls {
        let rt = tokio::runtime::Builder::new_current_thread().enable_all().start_paused(true).build().expect("runtime");
        let (server, client) = Connection::memory();
        let caps = client_caps(opts.pull_diagnostics);
        let ctx = ServerContext::new(server, caps);
        let snap = ctx.snapshot();
        let emmyrc = Arc::new(opts.emmyrc);
        let folders: Vec<WorkspaceFolder> = opts.roots.iter().map(|r| WorkspaceFolder::new(r.clone(), false)).collect();
        rt.block_on(async {
            {
                let mut a = snap.analysis().write().await;
                a.update_config(emmyrc.clone());
                if opts.std_lib {
                    a.init_std_lib(None);
                }
            }
            {
                let mut wm = snap.workspace_manager().write().await;
                wm.workspace_folders = folders.clone();
                wm.update_match_state(emmyrc.as_ref());
            }
            if opts.load_disk {
                verif::init_analysis(snap.analysis(), snap.status_bar(), snap.file_diagnostic(), snap.lsp_features(), folders.clone(), emmyrc.clone(), Vec::new()).await;
            } else {
                let mut a = snap.analysis().write().await;
                for f in &folders {
                    a.add_main_workspace(f.root.clone());
                }
            }
        });
        let mut ls = Ls { rt, ctx, snap, client, received: vec![], panicked_tasks: Arc::new(Default::default()), wedged: None };
        ls.settle();
        ls.received.clear();
        // recording starts after setup
        verif::control::install(opts.schedule, opts.max_yields);
        ls
    }

    /// Handles one client message exactly like the server's main loop does.
    pub fn handle(&mut self, msg: Message) {
        if self.wedged.is_some() {
            return;
        }
        let what = match &msg {
            Message::Request(r) => r.method.clone(),
            Message::Notification(n) => n.method.clone(),
            Message::Response(_) => "response".to_string(),
        };
        let ctx = &mut self.ctx;
        let timed_out = self.rt.block_on(async {
            tokio::time::timeout(Duration::from_secs(WEDGE_S), async {
            match msg {
                Message::Request(req) => {
                    let _ = verif::on_request_handler(req, ctx).await;
                }
                Message::Notification(n) => {
                    let _ = verif::on_notification_handler(n, ctx).await;
                }
                Message::Response(r) => {
                    let _ = verif::on_response_handler(r, ctx).await;
                }
            }
            })
            .await
            .is_err()
        });
        if timed_out {
            self.wedged = Some(what);
            return;
        }
        self.drain();
    }

    pub fn notify(&mut self, method: &str, params: Value) {
        self.handle(Message::Notification(Notification { method: method.to_string(), params }));
    }

    pub fn request(&mut self, id: RequestId, method: &str, params: Value) {
        self.handle(Message::Request(Request { id, method: method.to_string(), params }));
    }

    /// Let virtual time pass (`ms`), running every task that becomes runnable.
    pub fn advance(&mut self, ms: u64) {
        self.rt.block_on(async {
            tokio::time::sleep(Duration::from_millis(ms)).await;
        });
        self.drain();
    }

    /// Run until quiescence: all debounce timers (≤ a few seconds) have fired and the runtime is idle.
    pub fn settle(&mut self) {
        // several rounds: a task woken by a timer may start another timer
        for _ in 0..4 {
            self.rt.block_on(async {
                for _ in 0..64 {
                    tokio::task::yield_now().await;
                }
                tokio::time::sleep(Duration::from_secs(20)).await;
                for _ in 0..64 {
                    tokio::task::yield_now().await;
                }
            });
            self.drain();
        }
    }

    /// Answer server→client requests the way a minimal client would (null result), so that no server
    /// task waits for the client forever.
    fn drain(&mut self) {
        let mut replies = vec![];
        while let Ok(m) = self.client.receiver.try_recv() {
            if let Message::Request(r) = &m {
                replies.push(Response::new_ok(r.id.clone(), Value::Null));
            }
            self.received.push(m);
        }
        for r in replies {
            let ctx = &mut self.ctx;
            self.rt.block_on(async {
                let _ = tokio::time::timeout(Duration::from_secs(WEDGE_S), verif::on_response_handler(r, ctx)).await;
            });
        }
    }

    pub fn responses(&self) -> Vec<&Response> {
        self.received.iter().filter_map(|m| if let Message::Response(r) = m { Some(r) } else { None }).collect()
    }

    pub fn published(&self) -> Vec<lsp_types::PublishDiagnosticsParams> {
        self.received
            .iter()
            .filter_map(|m| match m {
                Message::Notification(n) if n.method == "textDocument/publishDiagnostics" => serde_json::from_value(n.params.clone()).ok(),
                _ => None,
            })
            .collect()
    }

    /// None when the analysis lock could not be obtained (a stuck task holds it): wedged
    pub fn try_with_analysis<R>(&self, f: impl FnOnce(&EmmyLuaAnalysis) -> R) -> Option<R> {
        let snap = self.snap.clone();
        self.rt.block_on(async move {
            match tokio::time::timeout(Duration::from_secs(WEDGE_S), snap.analysis().read()).await {
                Ok(a) => Some(f(&a)),
                Err(_) => None,
            }
        })
    }

    pub fn with_analysis<R>(&self, f: impl FnOnce(&EmmyLuaAnalysis) -> R) -> R {
        self.try_with_analysis(f).expect("analysis lock unavailable (wedged)")
    }

    pub fn open_file_texts(&self) -> Vec<(lsp_types::Uri, String)> {
        let snap = self.snap.clone();
        self.rt.block_on(async move {
            match tokio::time::timeout(Duration::from_secs(WEDGE_S), snap.workspace_manager().read()).await {
                Ok(wm) => wm.verif_open_file_texts(),
                Err(_) => vec![],
            }
        })
    }

    /// stop recording and return the lock trace
    pub fn take_trace(&mut self) -> (Vec<LockEvent>, u64) {
        verif::control::take()
    }

    /// synchronous request/response helper: sends, settles, returns the response for `id`
    pub fn call(&mut self, id: i32, method: &str, params: Value) -> Option<Response> {
        let rid: RequestId = id.into();
        self.request(rid.clone(), method, params);
        // fast path: the handler task usually completes without waiting for timers
        for _ in 0..3 {
            self.rt.block_on(async {
                for _ in 0..48 {
                    tokio::task::yield_now().await;
                }
            });
            self.drain();
            if self.received.iter().any(|m| matches!(m, Message::Response(r) if r.id == rid)) {
                break;
            }
        }
        if !self.received.iter().any(|m| matches!(m, Message::Response(r) if r.id == rid)) {
            self.settle();
        }
        let pos = self.received.iter().position(|m| matches!(m, Message::Response(r) if r.id == rid))?;
        match self.received.remove(pos) {
            Message::Response(r) => Some(r),
            _ => None,
        }
    }
}

pub fn uri_for(path: &str) -> lsp_types::Uri {
    emmylua_code_analysis::file_path_to_uri(&PathBuf::from(path)).expect("uri")
}

pub fn did_open(uri: &lsp_types::Uri, text: &str) -> Value {
    json!({"textDocument": {"uri": uri, "languageId": "lua", "version": 1, "text": text}})
}

pub fn did_change(uri: &lsp_types::Uri, version: i32, text: &str) -> Value {
    json!({"textDocument": {"uri": uri, "version": version}, "contentChanges": [{"text": text}]})
}

pub fn did_close(uri: &lsp_types::Uri) -> Value {
    json!({"textDocument": {"uri": uri}})
}

pub fn pos_params(uri: &lsp_types::Uri, line: u32, character: u32) -> Value {
    json!({"textDocument": {"uri": uri}, "position": {"line": line, "character": character}})
}
