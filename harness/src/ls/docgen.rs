//! Documents for the LSP-level checks: valid generated Lua, token soup, mutated windows of real files.
use crate::engine::Tier;
use crate::gens::{lua_ast, soup, util};
use proptest::prelude::*;

pub const SNIPPETS: &[&str] = &[
    "---@class Point\n---@field x number\n---@field y number\nlocal Point = {}\n\n---@param dx number\n---@return Point\nfunction Point:move(dx)\n  self.x = self.x + dx\n  return self\nend\n\nlocal p = Point\np:move(1):move(2)\nreturn Point\n",
    "local s = [[\nmulti\nline]]\n--[[ long\ncomment ]]\nlocal t = { a = 1, ['b'] = 2, 3 }\nfor k, v in pairs(t) do print(k, v) end\n",
    "--- doc with `code` and **bold**\n--- ```lua\n--- local x = 1\n--- ```\n---@param a string|integer?\n---@return fun(x: integer): string\nlocal function f(a) return function(x) return tostring(x) end end\nf('é😀')\n",
    "---@enum E\nlocal E = { A = 1, B = 2 }\n---@alias Id string|integer\n---@type Id\nlocal id = E.A\nif id == 1 then id = 's' elseif id then id = nil end\n",
    "local a <const> = 1\nlocal b <close> = nil\ngoto done\n::done::\nreturn a // 2 | 3 ~ 1\n",
    // completion / signature triggers at the end of a line, with the closing token on a following line
    "local someTable = { 1, 2, 3 }\nsomeTable[#\n]\nlocal x = someTable[#]\nlocal y = someTable[# ]\n",
    "local t = { a = 1, b = { c = 2 } }\nt.\nlocal y = t:\nprint(t.b.\n)\nt.b[\n]\n",
    "---@class K\n---@field f integer\n---@field g fun(self: K, n: integer): string\nlocal k = {} ---@type K\nk.\nk:\nk:g(\n)\nlocal s = 'x'\ns:\n",
    "local r = require(\"\n\")\nlocal function f(a, b) end\nf(\n)\nf(1,\n)\nlocal u = f\n(2)\n",
    "---@type \nlocal a\n---@param \n---@return \nfunction g(p) end\n---@class \n---@field \n---@diagnostic \n---@diagnostic disable-next-line: \n",
];

pub fn document(tier: Tier) -> BoxedStrategy<(String, String)> {
    let corpus = std::sync::Arc::new(util::corpus_files());
    let n = corpus.len().max(1);
    prop_oneof![
        4 => lua_ast::valid_lua(lua_ast::Level::Lua54, tier).prop_map(|s| (s, "valid".to_string())),
        2 => lua_ast::valid_lua(lua_ast::Level::Lua55, tier).prop_map(|s| (s, "valid".to_string())),
        2 => (0..SNIPPETS.len()).prop_map(|i| (SNIPPETS[i].to_string(), "snippet".to_string())),
        2 => (0..SNIPPETS.len(), proptest::collection::vec(util::mut_strategy(), 1..4)).prop_map(|(i, muts)| {
            let mut t = SNIPPETS[i].to_string();
            for m in &muts { t = util::apply_mut(&t, m); }
            (t, "mutated-snippet".to_string())
        }),
        2 => soup::soup(tier.pick(40, 120)).prop_map(|s| (s, "soup".to_string())),
        2 => (0..n, proptest::collection::vec(util::mut_strategy(), 0..3), any::<u16>(), 100usize..1500).prop_map(move |(i, muts, start, len)| {
            let base = corpus.get(i).map(|x| x.1.as_str()).unwrap_or("local x = 1\n");
            let mut a = util::idx(start, base.len());
            while !base.is_char_boundary(a) { a -= 1; }
            // start at a line start so doc comments stay doc comments
            while a > 0 && base.as_bytes()[a - 1] != b'\n' { a -= 1; }
            let mut b = (a + len).min(base.len());
            while !base.is_char_boundary(b) { b -= 1; }
            let mut t = base[a..b].to_string();
            for m in &muts { t = util::apply_mut(&t, m); }
            (t, "corpus-window".to_string())
        }),
    ]
    .boxed()
}

/// characters the server registers as completion / signature-help triggers, plus the postfix trigger
pub const TRIGGER_CHARS: &[&str] = &[".", ":", "(", "[", "\"", "'", " ", "@", "\\", "/", "|", "#", "?", ",", "-", "---@", "--", "{", "="];

/// `document` plus two shapes editors produce while typing: a document cut at an arbitrary char boundary (its first
/// token is then the tail of some token) and a document that begins with a trigger character
pub fn document_typed(tier: Tier) -> BoxedStrategy<(String, String)> {
    prop_oneof![
        10 => document(tier),
        2 => (document(tier), any::<u16>()).prop_map(|((t, _), i)| {
            let mut a = util::idx(i, t.len() + 1);
            while !t.is_char_boundary(a) { a -= 1; }
            (t[a..].to_string(), "tail-of-document".to_string())
        }),
        2 => (0..TRIGGER_CHARS.len(), "[a-z]{0,3}", prop_oneof![Just(""), Just("\n"), Just(" "), Just("(")], document(tier), any::<bool>()).prop_map(|(k, w, sep, (t, _), alone)| {
            let rest = if alone { String::new() } else { t };
            (format!("{}{}{}{}", TRIGGER_CHARS[k], w, sep, rest), "trigger-char-first".to_string())
        }),
    ]
    .boxed()
}

/// (line, utf16 character) of a byte offset, with lines split at '\n' only (the server's own line model)
pub fn position_of(text: &str, offset: usize) -> (u32, u32) {
    let mut off = offset.min(text.len());
    while !text.is_char_boundary(off) {
        off -= 1;
    }
    let before = &text[..off];
    let line = before.matches('\n').count() as u32;
    let line_start = before.rfind('\n').map(|i| i + 1).unwrap_or(0);
    let ch: usize = before[line_start..].chars().map(|c| c.len_utf16()).sum();
    (line, ch as u32)
}

pub fn line_count(text: &str) -> u32 {
    text.matches('\n').count() as u32 + 1
}

/// utf16 length of line `l` (content up to, not including, its '\n')
pub fn line_len16(text: &str, l: u32) -> Option<u32> {
    text.split('\n').nth(l as usize).map(|s| s.chars().map(|c| c.len_utf16()).sum::<usize>() as u32)
}

/// A position selector that is resolved against the concrete document.
#[derive(Clone, Debug, serde::Serialize, serde::Deserialize)]
pub enum PosSel {
    /// char-boundary offset (monotone index into the text)
    At(u16),
    /// end of line (monotone line index)
    LineEnd(u16),
    /// character beyond the end of the line by `n`
    PastEol(u16, u16),
    /// line beyond the end of the document by `n`
    PastEof(u8, u16),
    Huge,
    Max,
    /// byte offset `n` from the start of the document (clamped, moved back to a char boundary)
    Byte(u8),
}

pub fn pos_sel() -> impl Strategy<Value = PosSel> {
    prop_oneof![
        6 => any::<u16>().prop_map(PosSel::At),
        2 => any::<u16>().prop_map(PosSel::LineEnd),
        2 => (any::<u16>(), 1u16..40).prop_map(|(l, n)| PosSel::PastEol(l, n)),
        2 => (0u8..6, 0u16..30).prop_map(|(n, c)| PosSel::PastEof(n, c)),
        1 => Just(PosSel::Huge),
        1 => Just(PosSel::Max),
        2 => (0u8..6).prop_map(PosSel::Byte),
    ]
}

pub fn resolve(text: &str, sel: &PosSel) -> (u32, u32, bool) {
    let lines = line_count(text);
    match sel {
        PosSel::At(i) => {
            let (l, c) = position_of(text, util::idx(*i, text.len() + 1));
            (l, c, false)
        }
        PosSel::LineEnd(i) => {
            let l = util::idx(*i, lines as usize) as u32;
            (l, line_len16(text, l).unwrap_or(0), false)
        }
        PosSel::PastEol(i, n) => {
            let l = util::idx(*i, lines as usize) as u32;
            (l, line_len16(text, l).unwrap_or(0) + *n as u32, true)
        }
        PosSel::PastEof(n, c) => (lines + *n as u32, *c as u32, true),
        PosSel::Huge => (0, 1_000_000, true),
        PosSel::Max => (u32::MAX, u32::MAX, true),
        PosSel::Byte(n) => {
            let (l, c) = position_of(text, (*n as usize).min(text.len()));
            (l, c, false)
        }
    }
}
