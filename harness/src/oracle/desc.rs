//! Oracle of C37 (shared with the libFuzzer target `fuzz_desc`, which includes this file by path; keep it free of
//! harness-internal dependencies).
use emmylua_parser::{LuaAstNode, LuaDocDescription, LuaKind, LuaTokenKind};
use emmylua_parser_desc::{DescItem, DescItemKind};

/// the sort key `sort_result` documents: start, longer first, scopes first
pub fn sort_key(i: &DescItem) -> (usize, usize, bool) {
    let len: usize = i.range.len().into();
    (i.range.start().into(), usize::MAX - len, i.kind != DescItemKind::Scope)
}

/// Region the items of a description may lie in: the description node, extended to the left over the comment-start
/// token that directly precedes it (`desc_to_lines` takes the first line from behind the dashes of that token, so
/// whitespace between `---` and the first word is part of the first line).
pub fn allowed_region(desc: &LuaDocDescription) -> (usize, usize) {
    let r = desc.get_range();
    let (mut s, e): (usize, usize) = (r.start().into(), r.end().into());
    let prev = desc.syntax().siblings_with_tokens(rowan::Direction::Prev).skip(1).find(|t| t.kind() != LuaKind::Token(LuaTokenKind::TkWhitespace));
    if let Some(p) = prev {
        if p.kind() == LuaKind::Token(LuaTokenKind::TkNormalStart) {
            if let Some(t) = p.as_token() {
                let dashes = t.text().chars().take_while(|c| *c == '-').count();
                let ts: usize = t.text_range().start().into();
                s = s.min(ts + dashes);
            }
        }
    }
    (s, e)
}

/// judges one `parse` output; Err((sig, msg))
pub fn judge(text: &str, region: (usize, usize), items: &[DescItem], what: &str) -> Result<(), (String, String)> {
    let mut prev: Option<(usize, usize, bool)> = None;
    for (k, it) in items.iter().enumerate() {
        let (s, e): (usize, usize) = (it.range.start().into(), it.range.end().into());
        let show = || format!("{what}: item #{k} {:?} [{s}..{e}] description region [{}..{}]", it.kind, region.0, region.1);
        if s > e {
            return Err(("range-inverted".into(), show()));
        }
        if s < region.0 || e > region.1 {
            return Err((format!("range-outside:{}", kind_name(&it.kind)), show()));
        }
        if !text.is_char_boundary(s) || !text.is_char_boundary(e) {
            return Err((format!("range-mid-char:{}", kind_name(&it.kind)), show()));
        }
        let key = sort_key(it);
        if let Some(p) = prev {
            if p > key {
                return Err(("unsorted".into(), format!("{what}: item #{k} {:?} [{s}..{e}] sorts before its predecessor", it.kind)));
            }
        }
        prev = Some(key);
    }
    Ok(())
}

pub fn kind_name(k: &DescItemKind) -> &'static str {
    match k {
        DescItemKind::Scope => "Scope",
        DescItemKind::Ref => "Ref",
        DescItemKind::Em => "Em",
        DescItemKind::Strong => "Strong",
        DescItemKind::Code => "Code",
        DescItemKind::Link => "Link",
        DescItemKind::JavadocLink => "JavadocLink",
        DescItemKind::Markup => "Markup",
        DescItemKind::Arg => "Arg",
        DescItemKind::CodeBlock => "CodeBlock",
        DescItemKind::CodeBlockHl(_) => "CodeBlockHl",
    }
}

